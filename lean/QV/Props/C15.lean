import QV.Model.Grover
import QV.Proofs.Grover
import QV.Proofs.GroverAmp
import QV.Props.C09
import QV.Proofs.EndToEnd
/-!
# C15 – Grover search amplifies exactly the solutions of the predicate

> For every predicate f (or function g with a target value y, searching g(x)==y) whose number of
> solutions matches the declared count and is at most a quarter of the search space, the output
> distribution of the Grover circuit's search register depends only on the set of solutions and
> not on how the predicate is written or compiled, every solution is more likely than every
> non-solution, and (for search registers of up to six qubits, the range explored) a solution is
> measured with probability above one half.  Decoding a measured string yields the solution in
> the predicate's argument type.

Model: `QV.Model.Grover` (constructor gate list, default iteration count, reduced amplitude
recurrence, exact integer amplitude semantics of the gates used).

What is proved here (`C15_full : C15_statement`, the full property):
* `grover_table` – on the **whole** (n, M) table of the property the reduced recurrence, run for
  the default iteration count, gives success probability > 1/2, every solution more likely than
  every non-solution, total probability 1 (exact integer computation, `decide +kernel` over the
  31 entries – the property itself bounds n ≤ 6);
* `total_probability`, `kdefault_least`, `grover_length`, `grover_wires`, `decode_solution` … –
  for **all** n, M, k, oracle gate lists, argument types;
* the step from the circuit to the recurrence, for **all** n, all predicates, all clean
  xor-oracles, all iteration counts (helpers: `QV/Proofs/GroverAmp.lean`):
  `diffuser_reflection` (the diffuser gate list is `2^(n+1)·(I − 2|u⟩⟨u|)` on every state),
  `oracle_kickback` (oracle + `MCtrl(Z)` on class-uniform states), `class_uniform_invariant`
  (after every iteration the state of the gate list is the reduced state, uniform on solutions and
  on non-solutions per (`_ret`, ±) sector), `grover_distribution` (the measured distribution is
  the prediction, for every n and k ≥ 1) and `compilation_independent` (two clean xor-oracles of
  the same predicate – however written or compiled, whatever their scratch qubits – give the
  same distribution).

Assumed (hypotheses of the theorems, not proved about qlasskit's compiler here): the compiled
oracle is a clean xor-oracle (`CleanXorOracle`: X/CX/CCX/MCX gates on distinct wires inside its
`nq` qubits, `_ret ^= f x`, scratch qubits returned to 0) – C02/C03/C06's matter; the textbook
action of H / X-like / Z-like gates on amplitudes (`applyWave`).
-/
namespace QV.C15
open QV QV.Grover QV.Types

/-- The full property, over the exact amplitude semantics `probNum` of the constructor's gate
list: for every search width `2 ≤ n ≤ 6`, every predicate `f` with `M` solutions,
`1 ≤ M ≤ 2^n/4`, and **every** clean xor-oracle `og` of `f` (however written or compiled), the
default iteration count `k` exists and the probability of reading `x` on the search register is
`ps/d` on solutions and `pn/d` on non-solutions, where `(ps, pn, d) = predict n M k` depends on
`(n, M)` only – so the distribution depends only on the solution set –, `ps > pn`,
`M·ps/d > 1/2`; and decoding the measured string of a value returns the value. -/
def C15_statement : Prop :=
  (∀ (q : Quirks) (n M nq ret : Nat) (og : List AGate) (f : BState → Bool),
    2 ≤ n → n ≤ 6 → ((allStates n).filter f).length = M → 1 ≤ M → 4 * M ≤ 2 ^ n →
    CleanXorOracle n nq ret og f →
    ∃ k, kDefault n M = some k ∧
      let gs := groverGates q n og nq ret k
      let pr := predict n M k
      (∀ x : BState, x.length = n →
        probNum gs (nq + 1) n x * pr.2.2 = (if f x then pr.1 else pr.2.1) * 2 ^ hCount gs) ∧
      pr.2.1 < pr.1 ∧ pr.2.2 < 2 * (M * pr.1))
  ∧ (∀ (t : QTy) (v : QVal), C09.WT t v → decodeOutput t (encode t v).reverse = v)

/-! ## The (n, M) table -/

/-- the table is exactly the range of the property: 2 ≤ n ≤ 6, 1 ≤ M ≤ 2^n/4 (31 entries) -/
theorem mem_table (n M : Nat) :
    (n, M) ∈ Grover.table ↔ 2 ≤ n ∧ n ≤ 6 ∧ 1 ≤ M ∧ 4 * M ≤ 2 ^ n := by
  unfold Grover.table
  simp only [List.mem_flatMap, List.mem_map, List.mem_range, Prod.mk.injEq]
  constructor
  · rintro ⟨i, hi, m, hm, rfl, rfl⟩
    have : i = 0 ∨ i = 1 ∨ i = 2 ∨ i = 3 ∨ i = 4 := by omega
    rcases this with rfl | rfl | rfl | rfl | rfl <;> simp at hm ⊢ <;> omega
  · rintro ⟨h1, h2, h3, h4⟩
    refine ⟨n - 2, by omega, M - 1, ?_, by omega, by omega⟩
    have : n = 2 ∨ n = 3 ∨ n = 4 ∨ n = 5 ∨ n = 6 := by omega
    rcases this with rfl | rfl | rfl | rfl | rfl <;> simp at h4 ⊢ <;> omega

theorem table_length : Grover.table.length = 31 := by decide

/-- On every entry of the table both rational bounds on π give the same iteration count, so the
modelled default is `⌈π/4·√(N/M)⌉` for the real π (given `3.141592 < π < 3.141593`). -/
theorem kdefault_table : ∀ e ∈ Grover.table,
    kDefaultWith piLo e.1 e.2 = kDefaultWith piHi e.1 e.2 := by decide +kernel

/-- the default count is the least admissible `k`, for all n and M > 0 -/
theorem kdefault_least (n M : Nat) (hM : 0 < M) :
    ∃ k, kDefault n M = some k ∧ kOk piHi n M k = true ∧ ∀ j < k, kOk piHi n M j = false := by
  refine ⟨kSearch piHi n M (2 ^ n + 1) 0, ?_, ?_, ?_⟩
  · simp [kDefault, kDefaultWith, Nat.ne_of_gt hM]
  · exact kSearch_ok piHi n M _ 0 (2 ^ n) (Nat.zero_le _) (by omega)
      (kOk_pow piHi n M (by decide) hM)
  · intro j hj
    exact kSearch_least piHi n M _ 0 j (Nat.zero_le _) hj

/-- the default count is at least 1 wherever it exists (so `repeat` never sees 0) -/
theorem kdefault_pos (n M k : Nat) (h : kDefault n M = some k) : 1 ≤ k := by
  unfold kDefault kDefaultWith at h
  split at h
  · cases h
  · injection h with h
    rcases Nat.eq_zero_or_pos k with hk | hk
    · exfalso
      rename_i hM
      obtain ⟨k', h1, h2, _⟩ := kdefault_least n M (Nat.pos_of_ne_zero hM)
      have : k' = k := by
        simp [kDefault, kDefaultWith, hM] at h1; omega
      subst this; subst hk
      simp [kOk, piHi] at h2
    · exact hk

private def tableOk : Bool :=
  Grover.table.all fun e =>
    match kDefault e.1 e.2 with
    | some k => entryOk e.1 e.2 k
    | none => false

private theorem tableOk_true : tableOk = true := by decide +kernel

/-- **Table theorem.**  For every (n, M) with 2 ≤ n ≤ 6 and 1 ≤ M ≤ 2^n/4, with the default
iteration count `k`, the reduced model predicts: a solution is measured with probability
`M·ps/d > 1/2`; each solution is more likely than each non-solution (`ps > pn`); the
probabilities sum to one.  Exact integer arithmetic over the whole finite table. -/
theorem grover_table (n M : Nat) (h2 : 2 ≤ n) (h6 : n ≤ 6) (hM : 1 ≤ M) (hq : 4 * M ≤ 2 ^ n) :
    ∃ k, kDefault n M = some k ∧
      (predict n M k).2.2 < 2 * (M * (predict n M k).1) ∧
      (predict n M k).2.1 < (predict n M k).1 ∧
      M * (predict n M k).1 + ((2 : Int) ^ n - M) * (predict n M k).2.1 = (predict n M k).2.2 := by
  have hmem := (mem_table n M).2 ⟨h2, h6, hM, hq⟩
  have h := tableOk_true
  unfold tableOk at h
  rw [List.all_eq_true] at h
  have he := h (n, M) hmem
  simp only at he
  split at he
  · rename_i k hk
    refine ⟨k, hk, ?_⟩
    unfold entryOk at he
    simp only [Bool.and_eq_true, decide_eq_true_eq] at he
    exact ⟨he.1.1, he.1.2, he.2⟩
  · cases he

/-! ## Facts for all n, M, k -/

/-- one iteration multiplies the weighted squared norm by exactly `N²` – the common denominator
(all N, M; an algebraic identity) -/
theorem step_normalised (N M : Int) (s : RState) :
    (rstep N M s).norm N M = N ^ 2 * s.norm N M := norm_rstep N M s

/-- total probability one after any number of iterations, for all n, M, k -/
theorem total_probability (n M k : Nat) :
    M * (predict n M k).1 + ((2 : Int) ^ n - M) * (predict n M k).2.1 = (predict n M k).2.2 := by
  have h := norm_riter ((2 : Int) ^ n) M k RState.init
  rw [norm_init] at h
  simp only [predict]
  simp only [RState.norm] at h
  rw [h, pow_succ]

/-- number of gates of the algorithm circuit -/
theorem grover_length (q : Quirks) (n : Nat) (og : List AGate) (nq ret k : Nat) :
    (groverGates q n og nq ret k).length
      = n + 1 + repeatCopies q k * (og.length + 1 + (4 * n + 5)) := by
  have hrep : ∀ (l : List AGate) (c : Nat), (repeatGates l c).length = c * l.length := by
    intro l c; induction c with
    | zero => simp [repeatGates]
    | succ c ih => simp [repeatGates, ih, Nat.succ_mul, Nat.add_comm]
  have hfm : ∀ (f : Nat → List AGate) (m : Nat), (∀ i, (f i).length = 2) →
      ((List.range m).flatMap f).length = 2 * m := by
    intro f m hf
    induction m with
    | zero => simp
    | succ m ih => simp [List.range_succ, List.flatMap_append, ih, hf]; omega
  simp only [groverGates, iteration, oracleWithPhase, diffuser, hLayer, List.length_append,
    List.length_map, List.length_range, hrep, List.length_cons, List.length_nil]
  rw [hfm _ n (fun _ => rfl), hfm _ n (fun _ => rfl)]
  congr 2
  omega

/-- with the default (≥ 1) iteration count the gate list does not depend on the `repeat(0)`
quirk -/
theorem grover_quirk_free (q : Quirks) (n : Nat) (og : List AGate) (nq ret k : Nat) (hk : 1 ≤ k) :
    groverGates q n og nq ret k = groverGates Quirks.none n og nq ret k := by
  have : repeatCopies q k = repeatCopies Quirks.none k := by
    unfold repeatCopies; rw [if_neg (by omega), if_neg (by omega)]
  unfold groverGates; rw [this]

/-- every gate of the algorithm circuit acts inside its `nq + 1` qubits, provided the oracle's
gates act inside the oracle's `nq` qubits, `_ret` is one of them and the search register fits -/
theorem grover_wires (q : Quirks) (n : Nat) (og : List AGate) (nq ret k : Nat)
    (hn : n ≤ nq) (hret : ret < nq) (hog : ∀ g ∈ og, ∀ w ∈ g.wires, w < nq) :
    ∀ g ∈ groverGates q n og nq ret k, ∀ w ∈ g.wires, w < groverNumQubits n nq := by
  have hnum : groverNumQubits n nq = nq + 1 := by unfold groverNumQubits; omega
  rw [hnum]
  have hit : ∀ g ∈ iteration n og nq ret, ∀ w ∈ g.wires, w < nq + 1 := by
    intro g hg w hw
    simp only [iteration, oracleWithPhase, diffuser, List.mem_append, List.mem_flatMap,
      List.mem_range, List.mem_cons, List.not_mem_nil, or_false] at hg
    rcases hg with ((hg | hg) | ((((⟨i, hi, hg⟩ | hg) | hg) | ⟨i, hi, hg⟩) | hg))
    · have := hog g hg w hw; omega
    · subst hg; simp [gMCZ] at hw; omega
    · rcases hg with rfl | rfl <;> simp [gH, gX] at hw <;> omega
    · rcases hg with rfl | rfl <;> simp [gH, gX] at hw <;> omega
    · subst hg; simp [gMCZ, List.mem_range] at hw; omega
    · rcases hg with rfl | rfl <;> simp [gH, gX] at hw <;> omega
    · rcases hg with rfl | rfl <;> simp [gH, gX] at hw <;> omega
  have hrep : ∀ c, ∀ g ∈ repeatGates (iteration n og nq ret) c, ∀ w ∈ g.wires, w < nq + 1 := by
    intro c; induction c with
    | zero => intro g hg; simp [repeatGates] at hg
    | succ c ih =>
      intro g hg; simp only [repeatGates, List.mem_append] at hg
      rcases hg with hg | hg
      · exact hit g hg
      · exact ih g hg
  intro g hg w hw
  simp only [groverGates, hLayer, List.mem_append, List.mem_map, List.mem_range,
    List.mem_singleton] at hg
  rcases hg with ((⟨i, hi, rfl⟩ | rfl) | hg)
  · simp [gH] at hw; omega
  · simp [gH] at hw; omega
  · exact hrep _ g hg w hw

/-- the search register read by `output_qubits` is the first `n` qubits -/
theorem output_register (n : Nat) : outputQubits n = List.range n := rfl

/-- **Decoding.** `decode_output` of the measured string of a value (qubit 0 rightmost) of the
predicate's argument type returns that value – for every nested argument type (from C09) -/
theorem decode_solution (t : QTy) (v : QVal) (h : C09.WT t v) :
    decodeOutput t (encode t v).reverse = v := by
  have hl := C09.encode_length t v h
  unfold decodeOutput interpretAsQtype formatOutcome
  simp only [Option.getD_some, List.length_reverse, hl, Nat.lt_irrefl, if_false,
    List.reverse_reverse]
  have ht : (encode t v).take t.size = encode t v := by rw [← hl]; exact List.take_length
  cases t <;> simp only [ht] <;> exact C09.interpret_encode _ v h

/-- everything `C15_statement` says about the *predicted* distribution and about decoding
(the statement of the first version of this check; superseded by `C15_full` below) -/
theorem C15_partial :
    (∀ (n M : Nat), 2 ≤ n → n ≤ 6 → 1 ≤ M → 4 * M ≤ 2 ^ n →
      ∃ k, kDefault n M = some k ∧ 1 ≤ k ∧
        (predict n M k).2.1 < (predict n M k).1 ∧
        (predict n M k).2.2 < 2 * (M * (predict n M k).1) ∧
        M * (predict n M k).1 + ((2 : Int) ^ n - M) * (predict n M k).2.1 = (predict n M k).2.2)
    ∧ (∀ (t : QTy) (v : QVal), C09.WT t v → decodeOutput t (encode t v).reverse = v) := by
  refine ⟨?_, decode_solution⟩
  intro n M h2 h6 hM hq
  obtain ⟨k, hk, h1, h2', h3⟩ := grover_table n M h2 h6 hM hq
  exact ⟨k, hk, kdefault_pos n M k hk, h2', h1, h3⟩


/-! ## From the gate list to the recurrence (all n, all predicates, all clean xor-oracles) -/

/-- **Diffuser lemma.**  For every `n`, every number `m` of qubits between the search register
and the phase qubit and **every** integer wave `ψ`: the diffuser gate list (`H X` on search and
phase qubits, `MCtrl(Z)`, `X H`) is `2^(n+1)·(I − 2|u⟩⟨u|)`, `|u⟩` uniform on search ⊗ phase:
`(Dψ)(z, mid, b) = 2^(n+1)·ψ(z, mid, b) − 2·Σ_{x,c} ψ(x, mid, c)`. -/
theorem diffuser_reflection (n m : Nat) (ψ : Wave) (z mid : List Bool) (b : Bool)
    (hz : z.length = n) (hm : mid.length = m) :
    runWave (diffuser n (n + m)) ψ (z ++ mid ++ [b])
      = 2 ^ (n + 1) * ψ (z ++ mid ++ [b])
        - 2 * Amp.sumBits n (fun x => ψ (x ++ mid ++ [false]) + ψ (x ++ mid ++ [true])) :=
  Grover.diffuser_reflection n m ψ z mid b hz hm

/-- **Oracle + kick-back on class-uniform states.**  `oracle_qc` (compiled clean xor-oracle, then
`MCtrl(Z)` from `_ret` onto the phase qubit) maps a state that is `c ·` the reduced state `R` to
`c ·` `phaseStep (oracleStep R)`: the `_ret = 0/1` sectors are swapped on solutions only, then
|+⟩ and |−⟩ are swapped where `_ret = 1`. -/
theorem oracle_kickback (n nq ret : Nat) (og : List AGate) (f : BState → Bool)
    (h : CleanXorOracle n nq ret og f) (c : Int) (R : RState) (ψ : Wave)
    (hψ : ClassUniform n (nq - n) (ret - n) f c R ψ) :
    ClassUniform n (nq - n) (ret - n) f c (phaseStep (oracleStep R))
      (runWave (oracleWithPhase og ret nq) ψ) := by
  have hO := oracleSpec_of_clean n nq ret og f h
  have h1 : n + (ret - n) = ret := by have := h.1; omega
  have h2 : n + (nq - n) = nq := by have := h.1; have := h.2.1; omega
  unfold oracleWithPhase
  rw [runWave_append, runWave_cons, runWave_nil]
  have := phase_step n (nq - n) (ret - n) f c _ _ hO.km
    (oracle_step og n (nq - n) (ret - n) f c R ψ hO hψ)
  rwa [h1, h2] at this

/-- **`class_uniform_invariant`.**  For every `n`, every predicate `f`, every clean xor-oracle `og`
of `f` and every number `j` of iterations: the state of the Grover gate list (H layers, then `j`
copies of oracle + kick-back + diffuser) vanishes off the clean basis states and on them is
`2^j ·` the reduced state `riter N M j init` with `M = #{x | f x}`: at `(x, _ret = r, phase = b)`
the amplitude is `2^j·(A_{r,+} + (−1)^b·A_{r,−})`, `A` = the solution numerators if `f x`, the
non-solution numerators otherwise. -/
theorem class_uniform_invariant (n nq ret : Nat) (og : List AGate) (f : BState → Bool)
    (h : CleanXorOracle n nq ret og f) (j : Nat) :
    ClassUniform n (nq - n) (ret - n) f (2 ^ j)
      (riter (2 ^ n) (((allStates n).filter f).length : Nat) j RState.init)
      (runWave (hLayer n ++ [gH nq] ++ repeatGates (iteration n og nq ret) j) zeroWave) := by
  rw [count_allStates]
  exact Grover.class_uniform_invariant n nq ret og f h j

/-- **The measured distribution is the prediction** – for every search width `n`, every predicate
`f` (with `M` solutions, any `M`), every clean xor-oracle of `f` and every iteration count
`k ≥ 1`: P(read `x`) = `probNum/2^h` equals `ps/d` on solutions and `pn/d` on non-solutions,
`(ps, pn, d) = predict n M k`. -/
theorem grover_distribution (q : Quirks) (n M nq ret : Nat) (og : List AGate) (f : BState → Bool)
    (hM : ((allStates n).filter f).length = M) (h : CleanXorOracle n nq ret og f)
    (k : Nat) (hk : 1 ≤ k) (x : BState) (hx : x.length = n) :
    probNum (groverGates q n og nq ret k) (nq + 1) n x * (predict n M k).2.2
      = (if f x then (predict n M k).1 else (predict n M k).2.1)
        * 2 ^ hCount (groverGates q n og nq ret k) := by
  have hM' : Amp.countBits n f = M := by rw [← count_allStates]; exact hM
  rw [probNum_grover q n nq ret og f h k hk x hx, hCount_grover q n og nq ret k h.2.2.1 hk, hM']
  simp only [predict, classOf]
  cases f x <;> simp only [Bool.false_eq_true, if_true, if_false] <;> ring

/-- **Independence of how the predicate is written or compiled.**  Two clean xor-oracles of the
same predicate – different gate lists, different numbers of scratch qubits, different position of
`_ret` – give the same probability of every outcome `x` (same numerator, same number of `H`
gates). -/
theorem compilation_independent (q q' : Quirks) (n nq ret nq' ret' : Nat) (og og' : List AGate)
    (f : BState → Bool) (h : CleanXorOracle n nq ret og f) (h' : CleanXorOracle n nq' ret' og' f)
    (k : Nat) (hk : 1 ≤ k) (x : BState) (hx : x.length = n) :
    probNum (groverGates q n og nq ret k) (nq + 1) n x
      = probNum (groverGates q' n og' nq' ret' k) (nq' + 1) n x
    ∧ hCount (groverGates q n og nq ret k) = hCount (groverGates q' n og' nq' ret' k) := by
  rw [probNum_grover q n nq ret og f h k hk x hx, probNum_grover q' n nq' ret' og' f h' k hk x hx,
    hCount_grover q n og nq ret k h.2.2.1 hk, hCount_grover q' n og' nq' ret' k h'.2.2.1 hk]
  exact ⟨rfl, rfl⟩

/-- **C15.**  The full property (`C15_statement`): for 2 ≤ n ≤ 6, every predicate with
1 ≤ M ≤ 2^n/4 solutions and **every** clean xor-oracle of it, the Grover circuit with the default
iteration count reads each solution with probability `ps/d`, each non-solution with `pn/d`
(functions of `(n, M)` only), `ps > pn`, `M·ps/d > 1/2`; decoding returns the value. -/
theorem C15_full : C15_statement := by
  refine ⟨?_, decode_solution⟩
  intro q n M nq ret og f h2 h6 hcount hM hq hO
  obtain ⟨k, hk, hsucc, hgt, _⟩ := grover_table n M h2 h6 hM hq
  refine ⟨k, hk, ?_⟩
  dsimp only
  refine ⟨?_, hgt, hsucc⟩
  intro x hx
  exact grover_distribution q n M nq ret og f hcount hO k (kdefault_pos n M k hk) x hx

/-! ## The listed defect that reaches C15 (finding `C15-or2xor-oracle`) -/

/-- `a == 0 or a == 7` on three bits, as the optimizer sees it -/
def wNames : List String := ["a.0", "a.1", "a.2"]
def wExpr : BExp :=
  .or [.and [.sym "a.0", .sym "a.1", .sym "a.2"],
       .and [.not (.sym "a.0"), .not (.sym "a.1"), .not (.sym "a.2")]]

/-- **Witness.** With the code's `transform_or2xor` (quirk on) the predicate with solution set
{0, 7} is rewritten to one with solution set {0, 3, 4, 7}, and the non-solution 3 is read with
exactly the probability of the solution 0 (1/4 each): "every solution is more likely than every
non-solution" fails, and the solutions are found with probability 1/2, not above. -/
theorem or2xor_oracle_witness :
    solutionsOf wNames wExpr = [0, 7] ∧
    solutionsOf wNames (or2xor { or2xorNoArity := true } wExpr) = [0, 3, 4, 7] ∧
    predicateDist { or2xorNoArity := true } wNames wExpr 2 3
      = predicateDist { or2xorNoArity := true } wNames wExpr 2 0 ∧
    predicateDist { or2xorNoArity := true } wNames wExpr 2 0 = some (8192, 32768) := by
  decide +kernel

/-- the same input with the step repaired (quirk off): the solution set is kept and the
non-solution 3 is strictly less likely than the solution 0 -/
theorem or2xor_oracle_repaired :
    solutionsOf wNames (or2xor Quirks.none wExpr) = [0, 7] ∧
    predicateDist Quirks.none wNames wExpr 2 3 = some (256, 32768) ∧
    predicateDist Quirks.none wNames wExpr 2 0 = some (15616, 32768) := by
  decide +kernel

/-- the repaired guard never fires on an `And` of more than two arguments -/
theorem or2xor_guard_binary (a0 a1 b0 b1 : BExp) (r0 r1 : List BExp)
    (h : or2xorFires Quirks.none [.and (a0 :: a1 :: r0), .and (b0 :: b1 :: r1)] = true) :
    r0 = [] ∧ r1 = [] := by
  simp only [or2xorFires, Quirks.none, Bool.false_or, Bool.and_eq_true, List.isEmpty_iff] at h
  exact h.2

/-! ## Non-vacuity -/

/-- the table entry (3, 1): three iterations, P(solution) = 1655872 / 2097152 ≈ 0.7896 -/
example : kDefault 3 1 = some 3 ∧ predict 3 1 3 = (1655872, 63040, 2097152) ∧
    (3, 1) ∈ Grover.table := by decide +kernel

/-- a clean xor-oracle exists: `CCX` on two search bits computing `x0 ∧ x1` into `_ret` (index 2) -/
example : CleanXorOracle 2 3 2 [{ cls := .CCX, wires := [0, 1, 2] }]
    (fun x => x.getD 0 false && x.getD 1 false) := by
  refine ⟨by decide, by decide, by decide, by decide, by decide, ?_⟩
  intro x hx r
  match x, hx with
  | [a, b], _ => cases a <;> cases b <;> cases r <;> decide

/-- a "gate" on a duplicated wire (`QCircuit.append` raises on it) next to a correct `CCX` oracle -/
def dupOracle : List AGate :=
  [{ cls := .CCX, wires := [0, 1, 2] }, { cls := .CX, wires := [3, 3] }]

/-- **Why `CleanXorOracle` asks for distinct wires.**  `dupOracle` meets every other clause
(classical gate classes, wires inside the 4 oracle qubits, `_ret ^= x0 ∧ x1` on every clean basis
state), but `CX [3, 3]` is not a permutation of basis states, `applyWave` (precomposition with
the classical action) is then not the action of a unitary, and the weight of the non-solution
`00` comes out as twice the prediction.  (Found while proving `C15_full`; the first version of
`C15_statement` lacked the clause and was false as stated.) -/
theorem distinct_wires_needed :
    allClassical dupOracle = true ∧ (∀ g ∈ dupOracle, ∀ w ∈ g.wires, w < 4) ∧
    (∀ x ∈ allStates 2, ∀ r : Bool, runClassical dupOracle (oracleState 4 2 x r)
        = oracleState 4 2 x (xor r (x.getD 0 false && x.getD 1 false))) ∧
    probNum (groverGates Quirks.none 2 dupOracle 4 2 1) 5 2 [false, false] * (predict 2 1 1).2.2
      = 2 * ((predict 2 1 1).2.1 * 2 ^ hCount (groverGates Quirks.none 2 dupOracle 4 2 1)) := by
  decide +kernel

/-- a well-typed value for `decode_solution` -/
example : C09.WT (.tuple [.qint 2, .qint 2]) (.tuple [.int 1, .int 2]) := by
  simp [C09.WT, C09.WTs]

/-! ## End to end: the oracle is what the compiler model produces (`QV/Proofs/EndToEnd.lean`)

`C15_full` assumes `CleanXorOracle`.  For the decidable class `inXorFragment` of `C06_fragment_partial`
(one definition `r = e`, `e` a tree over the argument bits built from `Not` / `And` / `Or` / `Xor` of any
arity with no compound sub-expression twice, distinct non-reserved argument names, the output qubit not an
argument qubit) the hypothesis is a theorem about the model of the compiler (`EndToEnd.compile_oracles`:
`C06_fragment_partial` for the xor-oracle, `C02.compile_gates_wellformed` for gate classes / wire bounds /
distinct wires, `C02.compile_bookkeeping` for `_ret < num_qubits`).  So on that class nothing about the
oracle is assumed any more. -/

section EndToEnd
open QV.Compiler (compile inXorFragment dictGet? CState)
open QV.EndToEnd (predOf)

/-- **C15 end to end on the fragment.**  For every predicate definition `r = e` of the class `inXorFragment`
over `2 ≤ n ≤ 6` argument bits whose denoted predicate `predOf inputs defs r` (`x ↦ ⟦e⟧` with argument `i`
= bit `i` of `x`) has `1 ≤ M ≤ 2^n/4` solutions, and **every** successful run of the compiler model
`compile inputs defs (some [r]) true` (every admissible sequence of ancilla choices; `s` = the final compiler
state): the return name is mapped to a qubit `ret`, the default iteration count `k` exists, and the Grover
gate list built from the **compiled** gate list `s.qc.gates`, its number of qubits and `ret` reads each
solution with probability `ps/d`, each non-solution with `pn/d`, `(ps, pn, d) = predict n M k`, `ps > pn`,
`M·ps/d > 1/2` – the conclusion of `C15_full`, with no hypothesis about the oracle left. -/
theorem C15_end_to_end_fragment (q : Quirks) (inputs : List String) (defs : List (String × BExp))
    (r : String) (choices : List Nat) (s : CState) (M : Nat)
    (hf : inXorFragment inputs defs [r] = true)
    (h : (compile inputs defs (some [r]) true).run { choices := choices } = .ok ((), s))
    (h2 : 2 ≤ inputs.length) (h6 : inputs.length ≤ 6)
    (hcount : ((allStates inputs.length).filter (predOf inputs defs r)).length = M)
    (hM : 1 ≤ M) (hq : 4 * M ≤ 2 ^ inputs.length) :
    ∃ ret k, dictGet? s.qc.qmap r = some ret ∧ kDefault inputs.length M = some k ∧
      let gs := groverGates q inputs.length s.qc.gates.toList s.qc.numQubits ret k
      let pr := predict inputs.length M k
      (∀ x : BState, x.length = inputs.length →
        probNum gs (s.qc.numQubits + 1) inputs.length x * pr.2.2
          = (if predOf inputs defs r x then pr.1 else pr.2.1) * 2 ^ hCount gs) ∧
      pr.2.1 < pr.1 ∧ pr.2.2 < 2 * (M * pr.1) := by
  obtain ⟨ret, hret, _, _, hO, _⟩ :=
    EndToEnd.compile_oracles inputs defs [r] choices s hf h r List.mem_cons_self
  obtain ⟨k, hk, hdist⟩ :=
    C15_full.1 q inputs.length M s.qc.numQubits ret s.qc.gates.toList (predOf inputs defs r)
      h2 h6 hcount hM hq hO
  exact ⟨ret, k, hret, hk, hdist⟩

/-- **The measured distribution of the compiled circuit is the prediction, for every width and every
iteration count** (the end-to-end form of `grover_distribution`: any number `n` of argument bits, any number
`M` of solutions, any `k ≥ 1` – also the explicit `n_iterations` of the constructor). -/
theorem C15_end_to_end_distribution (q : Quirks) (inputs : List String) (defs : List (String × BExp))
    (r : String) (choices : List Nat) (s : CState) (M : Nat)
    (hf : inXorFragment inputs defs [r] = true)
    (h : (compile inputs defs (some [r]) true).run { choices := choices } = .ok ((), s))
    (hcount : ((allStates inputs.length).filter (predOf inputs defs r)).length = M)
    (k : Nat) (hk : 1 ≤ k) :
    ∃ ret, dictGet? s.qc.qmap r = some ret ∧
      ∀ x : BState, x.length = inputs.length →
        probNum (groverGates q inputs.length s.qc.gates.toList s.qc.numQubits ret k) (s.qc.numQubits + 1)
            inputs.length x * (predict inputs.length M k).2.2
          = (if predOf inputs defs r x then (predict inputs.length M k).1 else (predict inputs.length M k).2.1)
            * 2 ^ hCount (groverGates q inputs.length s.qc.gates.toList s.qc.numQubits ret k) := by
  obtain ⟨ret, hret, _, _, hO, _⟩ :=
    EndToEnd.compile_oracles inputs defs [r] choices s hf h r List.mem_cons_self
  exact ⟨ret, hret, fun x hx =>
    grover_distribution q inputs.length M s.qc.numQubits ret s.qc.gates.toList (predOf inputs defs r)
      hcount hO k hk x hx⟩

/-- **Independence of how the predicate is written or compiled, end to end.**  Two definitions of the class
(different expressions, different argument or return names) that denote the same predicate on `n` bits,
compiled by any two successful runs of the compiler model (different ancilla choices, different numbers of
scratch qubits, different position of the return qubit): for every iteration count `k ≥ 1` the two Grover gate
lists give every outcome `x` the same probability (same numerator, same number of `H` gates). -/
theorem C15_end_to_end_independent (q q' : Quirks) (inputs inputs' : List String)
    (defs defs' : List (String × BExp)) (r r' : String) (choices choices' : List Nat) (s s' : CState)
    (hf : inXorFragment inputs defs [r] = true) (hf' : inXorFragment inputs' defs' [r'] = true)
    (h : (compile inputs defs (some [r]) true).run { choices := choices } = .ok ((), s))
    (h' : (compile inputs' defs' (some [r']) true).run { choices := choices' } = .ok ((), s'))
    (hlen : inputs'.length = inputs.length)
    (hsame : ∀ x : List Bool, x.length = inputs.length → predOf inputs defs r x = predOf inputs' defs' r' x)
    (k : Nat) (hk : 1 ≤ k) (x : BState) (hx : x.length = inputs.length) :
    ∃ ret ret', dictGet? s.qc.qmap r = some ret ∧ dictGet? s'.qc.qmap r' = some ret' ∧
      probNum (groverGates q inputs.length s.qc.gates.toList s.qc.numQubits ret k)
          (s.qc.numQubits + 1) inputs.length x
        = probNum (groverGates q' inputs.length s'.qc.gates.toList s'.qc.numQubits ret' k)
          (s'.qc.numQubits + 1) inputs.length x ∧
      hCount (groverGates q inputs.length s.qc.gates.toList s.qc.numQubits ret k)
        = hCount (groverGates q' inputs.length s'.qc.gates.toList s'.qc.numQubits ret' k) := by
  obtain ⟨ret, hret, _, _, hO, _⟩ :=
    EndToEnd.compile_oracles inputs defs [r] choices s hf h r List.mem_cons_self
  obtain ⟨ret', hret', _, _, hO', _⟩ :=
    EndToEnd.compile_oracles inputs' defs' [r'] choices' s' hf' h' r' List.mem_cons_self
  rw [hlen] at hO'
  have hO'' := EndToEnd.cleanXorOracle_congr hO' (fun y hy => (hsame y hy).symm)
  exact ⟨ret, ret', hret, hret',
    compilation_independent q q' inputs.length _ ret _ ret' _ _ _ hO hO'' k hk x hx⟩

/-! ### a concrete member of the class, compiled by the model -/

/-- `a.0 ∧ a.1 ∧ ¬a.2` on three bits (the predicate `a == 3` of a `Qint[3]` argument as the front end
hands it to the compiler) -/
def exInputs : List String := ["a.0", "a.1", "a.2"]
def exDefs : List (String × BExp) := [("_ret", .and [.sym "a.0", .sym "a.1", .not (.sym "a.2")])]
/-- the same predicate written differently: `(a.0 ∧ a.1) ∧ ¬(a.2 ∨ ¬a.1)` over arguments called `b.i` -/
def exInputs' : List String := ["b.0", "b.1", "b.2"]
def exDefs' : List (String × BExp) :=
  [("_ret", .and [.and [.sym "b.0", .sym "b.1"], .not (.or [.sym "b.2", .not (.sym "b.1")])])]

/-- the model compiles `exDefs` (ancilla choices 3, 4: qubit 3 = `¬a.2`, qubit 4 = `_ret`; five gates
`CX 2→3, X 3, MCX [0,1,3]→4, X 3, CX 2→3`).  Kernel evaluation of `compile`, with `sortNat` (a
`List.mergeSort`) rewritten to insertion sort first (`EndToEnd.sortNat_eq`). -/
theorem exDefs_compiles :
    ∃ s, (compile exInputs exDefs (some ["_ret"]) true).run { choices := [3, 4] } = .ok ((), s) := by
  have hb : ((compile exInputs exDefs (some ["_ret"]) true).run { choices := [3, 4] }).toBool = true := by
    simp only [compile, exInputs, exDefs, Compiler.compileDefs, Compiler.compileExpr, Compiler.compileArgs,
      EndToEnd.sortNat_eq]
    decide +kernel
  cases hrun : (compile exInputs exDefs (some ["_ret"]) true).run { choices := [3, 4] } with
  | ok p => exact ⟨p.2, rfl⟩
  | error e => rw [hrun] at hb; cases hb

theorem exDefs'_compiles :
    ∃ s, (compile exInputs' exDefs' (some ["_ret"]) true).run { choices := [3, 4, 5, 6] } = .ok ((), s) := by
  have hb : ((compile exInputs' exDefs' (some ["_ret"]) true).run { choices := [3, 4, 5, 6] }).toBool = true := by
    simp only [compile, exInputs', exDefs', Compiler.compileDefs, Compiler.compileExpr, Compiler.compileArgs,
      EndToEnd.sortNat_eq]
    decide +kernel
  cases hrun : (compile exInputs' exDefs' (some ["_ret"]) true).run { choices := [3, 4, 5, 6] } with
  | ok p => exact ⟨p.2, rfl⟩
  | error e => rw [hrun] at hb; cases hb

theorem ex_same_predicate :
    ∀ x : List Bool, x.length = exInputs.length → predOf exInputs exDefs "_ret" x = predOf exInputs' exDefs' "_ret" x := by
  intro x hx
  match x, hx with
  | [a, b, c], _ => cases a <;> cases b <;> cases c <;> decide +kernel

/-- non-vacuity of `C15_end_to_end_fragment`: every hypothesis holds for `exDefs` (class membership, a
successful run of the model, one solution among eight), so the Grover circuit built from the model's gate
list finds the solution `110` (bit 0 first) with probability `1655872/2097152 ≈ 0.79` after the default
three iterations -/
example : ∃ s ret k,
    (compile exInputs exDefs (some ["_ret"]) true).run { choices := [3, 4] } = .ok ((), s) ∧
    dictGet? s.qc.qmap "_ret" = some ret ∧ kDefault 3 1 = some k ∧
    (∀ x : BState, x.length = 3 →
      probNum (groverGates Quirks.none 3 s.qc.gates.toList s.qc.numQubits ret k) (s.qc.numQubits + 1) 3 x
          * (predict 3 1 k).2.2
        = (if predOf exInputs exDefs "_ret" x then (predict 3 1 k).1 else (predict 3 1 k).2.1)
          * 2 ^ hCount (groverGates Quirks.none 3 s.qc.gates.toList s.qc.numQubits ret k)) ∧
    (predict 3 1 k).2.2 < 2 * (1 * (predict 3 1 k).1) := by
  obtain ⟨s, hs⟩ := exDefs_compiles
  obtain ⟨ret, k, hret, hk, hd, _, hhalf⟩ :=
    C15_end_to_end_fragment Quirks.none exInputs exDefs "_ret" [3, 4] s 1 (by decide +kernel) hs
      (by decide) (by decide) (by decide +kernel) (by decide) (by decide)
  exact ⟨s, ret, k, hs, hret, hk, hd, hhalf⟩

/-- non-vacuity of `C15_end_to_end_independent`: the two ways of writing the predicate, compiled to
different circuits (5 vs. 7 qubits), give the same distribution -/
example : ∃ (s s' : CState) (ret ret' : Nat),
    (compile exInputs exDefs (some ["_ret"]) true).run { choices := [3, 4] } = .ok ((), s) ∧
    (compile exInputs' exDefs' (some ["_ret"]) true).run { choices := [3, 4, 5, 6] } = .ok ((), s') ∧
    dictGet? s.qc.qmap "_ret" = some ret ∧ dictGet? s'.qc.qmap "_ret" = some ret' ∧
    ∀ x : BState, x.length = 3 →
      probNum (groverGates Quirks.none 3 s.qc.gates.toList s.qc.numQubits ret 3) (s.qc.numQubits + 1) 3 x
        = probNum (groverGates Quirks.none 3 s'.qc.gates.toList s'.qc.numQubits ret' 3) (s'.qc.numQubits + 1) 3 x := by
  obtain ⟨s, hs⟩ := exDefs_compiles
  obtain ⟨s', hs'⟩ := exDefs'_compiles
  obtain ⟨ret, ret', hret, hret', _⟩ :=
    C15_end_to_end_independent Quirks.none Quirks.none exInputs exInputs' exDefs exDefs' "_ret" "_ret" _ _ s s'
      (by decide +kernel) (by decide +kernel) hs hs' rfl ex_same_predicate 3 (by decide)
      [false, false, false] rfl
  refine ⟨s, s', ret, ret', hs, hs', hret, hret', ?_⟩
  intro x hx
  obtain ⟨ret2, ret2', h1, h2, hp, _⟩ :=
    C15_end_to_end_independent Quirks.none Quirks.none exInputs exInputs' exDefs exDefs' "_ret" "_ret" _ _ s s'
      (by decide +kernel) (by decide +kernel) hs hs' rfl ex_same_predicate 3 (by decide) x hx
  rw [hret] at h1; rw [hret'] at h2
  cases h1; cases h2
  exact hp

end EndToEnd

/-! ## End to end on the general compiler class (`C06.C06_general_partial`)

The class `inXorFragment` above is a single tree-like definition.  `inGeneralClean inputs defs [r]` admits what the
front end and the optimizer really hand over: several definitions (named intermediates first, the return bit a new
name defined once, last), sub-expressions shared inside and across definitions (cache hits), re-binding, constants.
`C06_general_partial` has two side conditions about the *compiled* circuit, both decidable on the compiler's
output and both evaluated by the driver per instance: the qubit of the return name is not an argument qubit and is
never a control of a compiled gate (`retNeverControl`; it fails e.g. when the return bit is an alias of an
intermediate other gates read).  They are hypotheses here too. -/

section EndToEndGeneral
open QV.Compiler (compile inGeneralClean inXorFragment dictGet? CState retNeverControl)
open QV.EndToEnd (predOf)

/-- **C15 end to end on the general class.**  As `C15_end_to_end_fragment`, for every definition list of
`inGeneralClean inputs defs [r]` and every successful run of the compiler model whose return qubit `ret` is not an
argument qubit and never a control. -/
theorem C15_end_to_end_general (q : Quirks) (inputs : List String) (defs : List (String × BExp))
    (r : String) (choices : List Nat) (s : CState) (ret M : Nat)
    (hf : inGeneralClean inputs defs [r] = true)
    (h : (compile inputs defs (some [r]) true).run { choices := choices } = .ok ((), s))
    (hret : dictGet? s.qc.qmap r = some ret) (hge : inputs.length ≤ ret)
    (hnc : retNeverControl s.qc.gates.toList ret = true)
    (h2 : 2 ≤ inputs.length) (h6 : inputs.length ≤ 6)
    (hcount : ((allStates inputs.length).filter (predOf inputs defs r)).length = M)
    (hM : 1 ≤ M) (hq : 4 * M ≤ 2 ^ inputs.length) :
    ∃ k, kDefault inputs.length M = some k ∧
      let gs := groverGates q inputs.length s.qc.gates.toList s.qc.numQubits ret k
      let pr := predict inputs.length M k
      (∀ x : BState, x.length = inputs.length →
        probNum gs (s.qc.numQubits + 1) inputs.length x * pr.2.2
          = (if predOf inputs defs r x then pr.1 else pr.2.1) * 2 ^ hCount gs) ∧
      pr.2.1 < pr.1 ∧ pr.2.2 < 2 * (M * pr.1) := by
  obtain ⟨_, hO, _⟩ := EndToEnd.compile_oracles_general inputs defs r choices s ret hf h hret hge hnc
  exact C15_full.1 q inputs.length M s.qc.numQubits ret s.qc.gates.toList (predOf inputs defs r)
    h2 h6 hcount hM hq hO

/-- the distribution for every width, every number of solutions and every iteration count `k ≥ 1`, general class -/
theorem C15_end_to_end_general_distribution (q : Quirks) (inputs : List String) (defs : List (String × BExp))
    (r : String) (choices : List Nat) (s : CState) (ret M : Nat)
    (hf : inGeneralClean inputs defs [r] = true)
    (h : (compile inputs defs (some [r]) true).run { choices := choices } = .ok ((), s))
    (hret : dictGet? s.qc.qmap r = some ret) (hge : inputs.length ≤ ret)
    (hnc : retNeverControl s.qc.gates.toList ret = true)
    (hcount : ((allStates inputs.length).filter (predOf inputs defs r)).length = M)
    (k : Nat) (hk : 1 ≤ k) (x : BState) (hx : x.length = inputs.length) :
    probNum (groverGates q inputs.length s.qc.gates.toList s.qc.numQubits ret k) (s.qc.numQubits + 1)
        inputs.length x * (predict inputs.length M k).2.2
      = (if predOf inputs defs r x then (predict inputs.length M k).1 else (predict inputs.length M k).2.1)
        * 2 ^ hCount (groverGates q inputs.length s.qc.gates.toList s.qc.numQubits ret k) := by
  obtain ⟨_, hO, _⟩ := EndToEnd.compile_oracles_general inputs defs r choices s ret hf h hret hge hnc
  exact grover_distribution q inputs.length M s.qc.numQubits ret s.qc.gates.toList (predOf inputs defs r)
    hcount hO k hk x hx

/-- **Independence of how the predicate is written or compiled, general class.**  Two definition lists of the
general class (e.g. one with a named intermediate read twice, one a single tree) that denote the same predicate,
any two successful compilations meeting the side conditions: same probability of every outcome, for every
`k ≥ 1`. -/
theorem C15_end_to_end_general_independent (q q' : Quirks) (inputs inputs' : List String)
    (defs defs' : List (String × BExp)) (r r' : String) (choices choices' : List Nat) (s s' : CState)
    (ret ret' : Nat)
    (hf : inGeneralClean inputs defs [r] = true) (hf' : inGeneralClean inputs' defs' [r'] = true)
    (h : (compile inputs defs (some [r]) true).run { choices := choices } = .ok ((), s))
    (h' : (compile inputs' defs' (some [r']) true).run { choices := choices' } = .ok ((), s'))
    (hret : dictGet? s.qc.qmap r = some ret) (hge : inputs.length ≤ ret)
    (hnc : retNeverControl s.qc.gates.toList ret = true)
    (hret' : dictGet? s'.qc.qmap r' = some ret') (hge' : inputs'.length ≤ ret')
    (hnc' : retNeverControl s'.qc.gates.toList ret' = true)
    (hlen : inputs'.length = inputs.length)
    (hsame : ∀ x : List Bool, x.length = inputs.length → predOf inputs defs r x = predOf inputs' defs' r' x)
    (k : Nat) (hk : 1 ≤ k) (x : BState) (hx : x.length = inputs.length) :
    probNum (groverGates q inputs.length s.qc.gates.toList s.qc.numQubits ret k)
        (s.qc.numQubits + 1) inputs.length x
      = probNum (groverGates q' inputs.length s'.qc.gates.toList s'.qc.numQubits ret' k)
        (s'.qc.numQubits + 1) inputs.length x ∧
    hCount (groverGates q inputs.length s.qc.gates.toList s.qc.numQubits ret k)
      = hCount (groverGates q' inputs.length s'.qc.gates.toList s'.qc.numQubits ret' k) := by
  obtain ⟨_, hO, _⟩ := EndToEnd.compile_oracles_general inputs defs r choices s ret hf h hret hge hnc
  obtain ⟨_, hO', _⟩ :=
    EndToEnd.compile_oracles_general inputs' defs' r' choices' s' ret' hf' h' hret' hge' hnc'
  rw [hlen] at hO'
  have hO'' := EndToEnd.cleanXorOracle_congr hO' (fun y hy => (hsame y hy).symm)
  exact compilation_independent q q' inputs.length _ ret _ ret' _ _ _ hO hO'' k hk x hx

/-! ### concrete members of the general class, compiled by the model -/

/-- `m = a.0 & a.1; _ret = m ^ (a.2 & m)`: two statements, the intermediate `m` read twice – the predicate
`a.0 ∧ a.1 ∧ ¬a.2` of `exDefs` again; outside `inXorFragment` -/
def exGenDefs : List (String × BExp) :=
  [("m", .and [.sym "a.0", .sym "a.1"]), ("_ret", .xor [.sym "m", .and [.sym "a.2", .sym "m"]])]
/-- one statement in which the compound sub-expression `a.0 & a.1` occurs twice (a cache hit of the compiler's
expression map): `_ret = (a.0 & a.1) ^ (a.2 & (a.0 & a.1))`; not tree-like, outside `inXorFragment` -/
def exHitDefs : List (String × BExp) :=
  [("_ret", .xor [.and [.sym "a.0", .sym "a.1"], .and [.sym "a.2", .and [.sym "a.0", .sym "a.1"]]])]

theorem exGen_class : inGeneralClean exInputs exGenDefs ["_ret"] = true ∧ inXorFragment exInputs exGenDefs ["_ret"] = false ∧
    inGeneralClean exInputs exHitDefs ["_ret"] = true ∧ inXorFragment exInputs exHitDefs ["_ret"] = false ∧
    inGeneralClean exInputs exDefs ["_ret"] = true := by
  decide +kernel

/-- the model compiles `exGenDefs` (choices 3, 4: `m` on qubit 3, `_ret` on qubit 4; gates
`MCX [0,1]→3, CX 3→4, MCX [2,3]→4, MCX [0,1]→3`), `_ret` sits on qubit 4 and is never a control -/
theorem exGen_compiles :
    ∃ s, (compile exInputs exGenDefs (some ["_ret"]) true).run { choices := [3, 4] } = .ok ((), s) ∧
      dictGet? s.qc.qmap "_ret" = some 4 ∧ retNeverControl s.qc.gates.toList 4 = true := by
  apply EndToEnd.runCheck_ok
  simp only [compile, exInputs, exGenDefs, Compiler.compileDefs, Compiler.compileExpr, Compiler.compileArgs,
    Compiler.compileXorArgs, EndToEnd.sortNat_eq]
  decide +kernel

/-- the model compiles `exHitDefs` (choices 3, 4: `_ret` on qubit 3, the shared `a.0 & a.1` on qubit 4) -/
theorem exHit_compiles :
    ∃ s, (compile exInputs exHitDefs (some ["_ret"]) true).run { choices := [3, 4] } = .ok ((), s) ∧
      dictGet? s.qc.qmap "_ret" = some 3 ∧ retNeverControl s.qc.gates.toList 3 = true := by
  apply EndToEnd.runCheck_ok
  simp only [compile, exInputs, exHitDefs, Compiler.compileDefs, Compiler.compileExpr, Compiler.compileArgs,
    Compiler.compileXorArgs, EndToEnd.sortNat_eq]
  decide +kernel

theorem exGen_same_predicate :
    ∀ x : List Bool, x.length = exInputs.length →
      predOf exInputs exGenDefs "_ret" x = predOf exInputs exDefs "_ret" x ∧
      predOf exInputs exHitDefs "_ret" x = predOf exInputs exDefs "_ret" x := by
  intro x hx
  match x, hx with
  | [a, b, c], _ => cases a <;> cases b <;> cases c <;> decide +kernel

/-- non-vacuity of `C15_end_to_end_general`: every hypothesis holds for the two-statement predicate -/
example : ∃ s k,
    (compile exInputs exGenDefs (some ["_ret"]) true).run { choices := [3, 4] } = .ok ((), s) ∧
    kDefault 3 1 = some k ∧
    (∀ x : BState, x.length = 3 →
      probNum (groverGates Quirks.none 3 s.qc.gates.toList s.qc.numQubits 4 k) (s.qc.numQubits + 1) 3 x
          * (predict 3 1 k).2.2
        = (if predOf exInputs exGenDefs "_ret" x then (predict 3 1 k).1 else (predict 3 1 k).2.1)
          * 2 ^ hCount (groverGates Quirks.none 3 s.qc.gates.toList s.qc.numQubits 4 k)) ∧
    (predict 3 1 k).2.2 < 2 * (1 * (predict 3 1 k).1) := by
  obtain ⟨s, hs, hq, hnc⟩ := exGen_compiles
  obtain ⟨k, hk, hd, _, hhalf⟩ :=
    C15_end_to_end_general Quirks.none exInputs exGenDefs "_ret" [3, 4] s 4 1 exGen_class.1 hs hq (by decide) hnc
      (by decide) (by decide) (by decide +kernel) (by decide) (by decide)
  exact ⟨s, k, hs, hk, hd, hhalf⟩

/-- non-vacuity of `C15_end_to_end_general_independent`: the two-statement list with the shared intermediate, the
one-statement list with the cache hit and the tree-like `exDefs` (in both classes), compiled to three different
circuits, give the same distribution -/
example : ∃ (s s' s'' : CState) (ret'' : Nat),
    (compile exInputs exGenDefs (some ["_ret"]) true).run { choices := [3, 4] } = .ok ((), s) ∧
    (compile exInputs exHitDefs (some ["_ret"]) true).run { choices := [3, 4] } = .ok ((), s') ∧
    (compile exInputs exDefs (some ["_ret"]) true).run { choices := [3, 4] } = .ok ((), s'') ∧
    dictGet? s''.qc.qmap "_ret" = some ret'' ∧
    ∀ x : BState, x.length = 3 →
      probNum (groverGates Quirks.none 3 s.qc.gates.toList s.qc.numQubits 4 3) (s.qc.numQubits + 1) 3 x
        = probNum (groverGates Quirks.none 3 s'.qc.gates.toList s'.qc.numQubits 3 3) (s'.qc.numQubits + 1) 3 x ∧
      probNum (groverGates Quirks.none 3 s.qc.gates.toList s.qc.numQubits 4 3) (s.qc.numQubits + 1) 3 x
        = probNum (groverGates Quirks.none 3 s''.qc.gates.toList s''.qc.numQubits ret'' 3) (s''.qc.numQubits + 1) 3 x := by
  obtain ⟨s, hs, hq, hnc⟩ := exGen_compiles
  obtain ⟨s', hs', hq', hnc'⟩ := exHit_compiles
  obtain ⟨s'', hs''⟩ := exDefs_compiles
  obtain ⟨ret'', hret'', _, _, hO'', _⟩ :=
    EndToEnd.compile_oracles exInputs exDefs ["_ret"] [3, 4] s'' (by decide +kernel) hs'' "_ret" List.mem_cons_self
  refine ⟨s, s', s'', ret'', hs, hs', hs'', hret'', fun x hx => ⟨?_, ?_⟩⟩
  · exact (C15_end_to_end_general_independent Quirks.none Quirks.none exInputs exInputs exGenDefs exHitDefs
      "_ret" "_ret" _ _ s s' 4 3 exGen_class.1 exGen_class.2.2.1 hs hs' hq (by decide) hnc hq' (by decide) hnc' rfl
      (fun y hy => ((exGen_same_predicate y hy).1).trans ((exGen_same_predicate y hy).2).symm)
      3 (by decide) x hx).1
  · -- against the tree-like definition, through the fragment bridge
    obtain ⟨_, hO, _⟩ := EndToEnd.compile_oracles_general exInputs exGenDefs "_ret" [3, 4] s 4 exGen_class.1 hs hq
      (by decide) hnc
    have hO2 := EndToEnd.cleanXorOracle_congr hO'' (fun y hy => ((exGen_same_predicate y hy).1).symm)
    exact (compilation_independent Quirks.none Quirks.none 3 _ 4 _ ret'' _ _ _ hO hO2 3 (by decide) x hx).1

end EndToEndGeneral

end QV.C15
