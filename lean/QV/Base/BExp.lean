/-!
# Boolean expressions (the fragment of sympy's `boolalg` qlasskit uses)

n-ary `And/Or/Xor`, `Not`, `ITE`, `Implies`, constants, symbols.  Import-free.
`eval` is the reference semantics; `And []` is true, `Or []`/`Xor []` false, as in sympy.
-/
namespace QV

inductive BExp where
  | tt
  | ff
  | sym (n : String)
  | not (e : BExp)
  | and (l : List BExp)
  | or (l : List BExp)
  | xor (l : List BExp)
  | ite (c t e : BExp)
  | imp (a b : BExp)
  deriving Repr, Inhabited

abbrev Env := String → Bool

mutual
def BExp.eval (ρ : Env) : BExp → Bool
  | .tt => true
  | .ff => false
  | .sym n => ρ n
  | .not e => !e.eval ρ
  | .and l => evalAnd ρ l
  | .or l => evalOr ρ l
  | .xor l => evalXor ρ l
  | .ite c t e => if c.eval ρ then t.eval ρ else e.eval ρ
  | .imp a b => !a.eval ρ || b.eval ρ
def evalAnd (ρ : Env) : List BExp → Bool
  | [] => true
  | e :: es => e.eval ρ && evalAnd ρ es
def evalOr (ρ : Env) : List BExp → Bool
  | [] => false
  | e :: es => e.eval ρ || evalOr ρ es
def evalXor (ρ : Env) : List BExp → Bool
  | [] => false
  | e :: es => Bool.xor (e.eval ρ) (evalXor ρ es)
end

mutual
def BExp.beq : BExp → BExp → Bool
  | .tt, .tt => true
  | .ff, .ff => true
  | .sym a, .sym b => a == b
  | .not a, .not b => BExp.beq a b
  | .and a, .and b => BExp.beqList a b
  | .or a, .or b => BExp.beqList a b
  | .xor a, .xor b => BExp.beqList a b
  | .ite a b c, .ite a' b' c' => BExp.beq a a' && BExp.beq b b' && BExp.beq c c'
  | .imp a b, .imp a' b' => BExp.beq a a' && BExp.beq b b'
  | _, _ => false
def BExp.beqList : List BExp → List BExp → Bool
  | [], [] => true
  | a :: as, b :: bs => BExp.beq a b && BExp.beqList as bs
  | _, _ => false
end

instance : BEq BExp := ⟨BExp.beq⟩

mutual
/-- free symbols, in order of first occurrence, with repetitions -/
def BExp.syms : BExp → List String
  | .tt => []
  | .ff => []
  | .sym n => [n]
  | .not e => e.syms
  | .and l => symsList l
  | .or l => symsList l
  | .xor l => symsList l
  | .ite c t e => c.syms ++ t.syms ++ e.syms
  | .imp a b => a.syms ++ b.syms
def symsList : List BExp → List String
  | [] => []
  | e :: es => e.syms ++ symsList es
end

mutual
/-- simultaneous substitution of symbols -/
def BExp.subst (σ : String → Option BExp) : BExp → BExp
  | .tt => .tt
  | .ff => .ff
  | .sym n => match σ n with | some e => e | none => .sym n
  | .not e => .not (e.subst σ)
  | .and l => .and (substList σ l)
  | .or l => .or (substList σ l)
  | .xor l => .xor (substList σ l)
  | .ite c t e => .ite (c.subst σ) (t.subst σ) (e.subst σ)
  | .imp a b => .imp (a.subst σ) (b.subst σ)
def substList (σ : String → Option BExp) : List BExp → List BExp
  | [] => []
  | e :: es => e.subst σ :: substList σ es
end

/-- environment from an association list (first match wins, unbound = false) -/
def envOf (l : List (String × Bool)) : Env := fun n =>
  match l.find? (·.1 == n) with
  | some p => p.2
  | none => false

/-- the `k`-th assignment (k < 2^n) over `names`: name i gets bit i of k -/
def assignment (names : List String) (k : Nat) : Env := fun n =>
  match names.idxOf? n with
  | some i => k.testBit i
  | none => false

/-- truth table of a list of expressions over `names`: row k (names[i] = bit i of k), one char per expr -/
def truthTable (names : List String) (es : List BExp) : String := Id.run do
  let mut out := ""
  for k in [0:2 ^ names.length] do
    let ρ := assignment names k
    for e in es do
      out := out.push (if e.eval ρ then '1' else '0')
  return out

end QV
