/-!
# Bit lists and Python string helpers

Import-free (links into the `qvdriver` executable).  Bit lists are little-endian unless
stated otherwise.  Python strings are modelled as `List Char`.
-/
namespace QV

/-- little-endian value of a bit list -/
def valLE : List Bool → Nat
  | [] => 0
  | b :: bs => (if b then 1 else 0) + 2 * valLE bs

/-- big-endian (MSB first) value of a bit list, Horner style as `int(s, 2)` reads it -/
def valBE (l : List Bool) : Nat := l.foldl (fun a b => 2 * a + (if b then 1 else 0)) 0

/-- little-endian binary digits of `n` without leading (most significant) zeros; `[]` for 0 -/
def bitsLE (n : Nat) : List Bool :=
  if _h : n = 0 then [] else (n % 2 == 1) :: bitsLE (n / 2)
decreasing_by omega

/-- `n` as exactly `w` little-endian bits (i.e. `n % 2^w`) -/
def toBitsLE : Nat → Nat → List Bool
  | 0, _ => []
  | w+1, n => (n % 2 == 1) :: toBitsLE w (n / 2)

def bitChar (b : Bool) : Char := if b then '1' else '0'

/-- digits of Python's `bin(n)` after the `0b` prefix -/
def binDigits (n : Nat) : List Char :=
  if n = 0 then ['0'] else (bitsLE n).reverse.map bitChar

/-- Python `bin(n)` for `n ≥ 0` -/
def pyBin (n : Nat) : List Char := '0' :: 'b' :: binDigits n

/-- `if b.startswith("0b"): b = b[2:]` -/
def strip0b : List Char → List Char
  | '0' :: 'b' :: r => r
  | s => s

/-- `qtype.bin_to_bool_list(b, bit_size)` -/
def binToBoolList (b : List Char) (bitSize : Option Nat) : List Bool :=
  let b := strip0b b
  let n := bitSize.getD b.length
  let s := (b.take n).map (· == '1')
  List.replicate (n - s.length) false ++ s

/-- `qtype.bool_list_to_bin` -/
def boolListToBin (l : List Bool) : List Char := l.map bitChar

/-- Python `int(s, 2)` on strings of binary digits; `none` = ValueError.
(Signs, prefixes, underscores and blanks that CPython also accepts never reach the
library's calls and are rejected here.) -/
def pyInt2 (s : List Char) : Option Nat :=
  if s.isEmpty || s.any (fun c => c != '0' && c != '1') then none
  else some (valBE (s.map (· == '1')))

def bitsToString (l : List Bool) : String := String.ofList (l.map bitChar)
def stringToBits (s : String) : List Bool := s.toList.map (· == '1')

end QV
