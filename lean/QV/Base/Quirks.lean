/-!
# Quirk flags

One boolean per *listed* defect of qlasskit (see `/verif/known_findings.json`).  With a flag
on, a model function reproduces the defect exactly as the code has it; with the flag off it
has the behaviour of the repaired code.  `Quirks.none` is the fully repaired library.
-/
namespace QV

structure Quirks where
  /-- `QintImp.gt`: extra bits of a wider right operand are OR-ed into the result -/
  gtLeftNarrow : Bool := false
  /-- `QintImp.sub`: a narrower left operand is complemented before it is widened -/
  subLeftNarrow : Bool := false
  /-- `QintImp.mul_even_const`: remainder shift `int(r/2)`, lost carry -/
  mulEvenConst : Bool := false
  /-- `transform_or2xor` looks only at the first two arguments of each `And` -/
  or2xorNoArity : Bool := false
  /-- `remove_identities` indexes `result[-1]` on an empty result -/
  removeIdEmptyResult : Bool := false
  /-- `QCircuit.repeat(0)` returns one copy -/
  repeatZero : Bool := false
  /-- `remove_identities` drops any identical adjacent pair, also S·S, T·T, P(θ)·P(θ), CP·CP -/
  cancelsNonInvolutions : Bool := false
  /-- `gates.I` is listed as classical but the decompiler raises on it -/
  identityGateRaises : Bool := false
  /-- `MCtrl(X(), n)` is not an instance of any `ZB_GATES` class: it ends a decompiler section -/
  mctrlXSplits : Bool := false
  /-- `convert_to_dimacs` iterates a single clause as unit clauses -/
  dimacsSingleClause : Bool := false
  /-- `to_bqm`: `_ret = <symbol>` takes the `AndConst` branch -/
  retSymbolAndConst : Bool := false
  /-- `apply_cse` puts the extracted definitions in front of a list whose right-hand sides read names the list binds -/
  cseHoistsOverBindings : Bool := false
  /-- `return v` names the bits of a tuple-typed variable flat (`_ret.i`), `returns.bitvec` nested -/
  retFlatNames : Bool := false
  /-- `decode_output(int)`: the digits of `bin()` are padded on the right -/
  formatOutcomeIntPadRight : Bool := false
  /-- `format_outcome(out: List[bool], out_len)`: `out += [False] * …` extends the caller's list object -/
  formatOutcomePadsInPlace : Bool := false
  /-- `DeutschJozsa.decode_output` compares the decoded *value* with `0` -/
  djDecodeEqZero : Bool := false
  /-- `convert_to_dimacs` takes `.args` of a CNF that is a literal or `False` -/
  dimacsAtomCnf : Bool := false
  /-- `convert_to_bool_expression` conjoins the right-hand side of every definition, intermediates included -/
  bexpConjoinsIntermediates : Bool := false
  /-- py2bexp calls `to_cnf/to_dnf(simplify=True)` without `force`: ValueError above 8 variables -/
  nfVarLimit : Bool := false
  /-- QASM exporter: gate formals are `qubit_map.keys()` (one per name, insertion order) -/
  qasmFormalsFromKeys : Bool := false
  /-- QASM exporter: parameters printed with `{p:.2f}` -/
  qasmParam2f : Bool := false
  /-- qiskit/QASM exporters: `if p:` drops a parameter that is 0 -/
  exportParamTruthy : Bool := false
  /-- cirq exporter raises on `Barrier` / `NopGate` -/
  cirqNopRaises : Bool := false
  /-- `Grover.__init__` adds `_ret_phased` and an MCZ to the oracle's own circuit object -/
  groverMutatesOracle : Bool := false
  /-- `oraclize` assigns `qf.name = "_oracle"` to its argument when it is called `oracle` -/
  oraclizeRenames : Bool := false
  /-- `QlassF.from_function`: `exec(f, globals())` writes into the module `qlasskit.qlassfun` -/
  execIntoModuleGlobals : Bool := false
  /-- `QlassF.from_function`: `eval(name)` finds the function's own locals first -/
  evalSeesLocals : Bool := false
  /-- `UnboundQlassf.bind` runs the bound source in the module globals only: the `original_f` of a function
  bound from `qlassf(src, defs=[...])` does not see the definitions it calls -/
  bindOrigWithoutDefs : Bool := false
  /-- `QlassF.from_function` runs a source string in a namespace where the callables of the definitions come
  after the module globals: a definition named like a type the annotations mention (`Qint`) replaces it and
  evaluating the annotation raises -/
  defShadowsAnnotation : Bool := false
  /-- call site: the formal bit an actual bit replaces is recovered from the actual's symbol name -/
  argIndexFromName : Bool := false
  /-- call site: `e.subs(subs, simultaneus=True)` (misspelt keyword) substitutes sequentially -/
  subsSequential : Bool := false
  /-- `bind_function.exp_rename` prefixes one free symbol after the other -/
  renameSequential : Bool := false
  /-- `bind_function`'s compression loop: `new_e = e.subs(d_exp)` substitutes the known symbols one after the
  other (in name order), also inside the values it has just put in -/
  compressSequential : Bool := false
  /-- decopt splices a re-synthesised section in although the re-synthesis renamed a qubit -/
  spliceIgnoresRename : Bool := false
  /-- `UnboundQlassf.bind` injects the bare literal: the declared `Parameter[T]` is dropped -/
  bindDropsType : Bool := false
  /-- `QintImp.mod` computes `x & (y - 1)` also for a literal right operand that is not a power of two -/
  modNonPow2 : Bool := false
  /-- `QintImp.mod` accepts a right operand that is not a literal (`x & (y - 1)` is right only when it holds 2^n) -/
  modVarDivisor : Bool := false
  /-- `Qchar.eq/neq` compare only the zipped prefix of operands of different widths -/
  charEqZip : Bool := false
  /-- `translate_statement(Assign)`: a tuple-typed value keeps the flat bit list of `Arg.to_exp`, so the
  new variable's bits are named `v.0 … v.n` instead of by type (`v.1.0`); later `v[i]` reads undefined symbols -/
  tupleAssignFlat : Bool := false
  /-- `translate_ast` accepts a body that never binds `_ret` -/
  noReturnAccepted : Bool := false
  /-- `translate_expression(Subscript)`: a negative constant index passes the bound test (`int(i) < size`) -/
  negIndexAccepted : Bool := false
  /-- `_replace_types_annotations` copies the element annotation of a `Qlist[T, n]` / `Qmatrix[T, n, m]` without
  elaborating it: a `Qlist` / `Qmatrix` inside that element annotation reaches the type evaluator unread
  (`UnknownTypeException`), so the typed assignment `k: T = v` of `bind` is refused for such a declared type -/
  annNestedContainerUnread : Bool := false
  deriving Repr, DecidableEq, Inhabited

def Quirks.none : Quirks := {}

def Quirks.ofList (l : List String) : Quirks :=
  { gtLeftNarrow := l.contains "gtLeftNarrow"
    subLeftNarrow := l.contains "subLeftNarrow"
    mulEvenConst := l.contains "mulEvenConst"
    or2xorNoArity := l.contains "or2xorNoArity"
    removeIdEmptyResult := l.contains "removeIdEmptyResult"
    repeatZero := l.contains "repeatZero"
    cancelsNonInvolutions := l.contains "cancelsNonInvolutions"
    identityGateRaises := l.contains "identityGateRaises"
    mctrlXSplits := l.contains "mctrlXSplits"
    dimacsSingleClause := l.contains "dimacsSingleClause"
    retSymbolAndConst := l.contains "retSymbolAndConst"
    cseHoistsOverBindings := l.contains "cseHoistsOverBindings"
    retFlatNames := l.contains "retFlatNames"
    formatOutcomeIntPadRight := l.contains "formatOutcomeIntPadRight"
    formatOutcomePadsInPlace := l.contains "formatOutcomePadsInPlace"
    djDecodeEqZero := l.contains "djDecodeEqZero"
    dimacsAtomCnf := l.contains "dimacsAtomCnf"
    bexpConjoinsIntermediates := l.contains "bexpConjoinsIntermediates"
    nfVarLimit := l.contains "nfVarLimit"
    qasmFormalsFromKeys := l.contains "qasmFormalsFromKeys"
    qasmParam2f := l.contains "qasmParam2f"
    exportParamTruthy := l.contains "exportParamTruthy"
    cirqNopRaises := l.contains "cirqNopRaises"
    groverMutatesOracle := l.contains "groverMutatesOracle"
    oraclizeRenames := l.contains "oraclizeRenames"
    execIntoModuleGlobals := l.contains "execIntoModuleGlobals"
    evalSeesLocals := l.contains "evalSeesLocals"
    bindOrigWithoutDefs := l.contains "bindOrigWithoutDefs"
    defShadowsAnnotation := l.contains "defShadowsAnnotation"
    argIndexFromName := l.contains "argIndexFromName"
    subsSequential := l.contains "subsSequential"
    renameSequential := l.contains "renameSequential"
    compressSequential := l.contains "compressSequential"
    spliceIgnoresRename := l.contains "spliceIgnoresRename"
    bindDropsType := l.contains "bindDropsType"
    modNonPow2 := l.contains "modNonPow2"
    modVarDivisor := l.contains "modVarDivisor"
    charEqZip := l.contains "charEqZip"
    tupleAssignFlat := l.contains "tupleAssignFlat"
    noReturnAccepted := l.contains "noReturnAccepted"
    negIndexAccepted := l.contains "negIndexAccepted"
    annNestedContainerUnread := l.contains "annNestedContainerUnread" }

end QV
