/-!
# Quirk flags

One boolean per *listed* defect of qlasskit (see `/verif/known_findings.json`).  With a flag
on, a model function reproduces the defect exactly as the code has it; with the flag off it
has the behaviour of the repaired code.  `Quirks.none` is the fully repaired library.
-/
namespace QV

structure Quirks where
  /-- `QintImp.gt`: extra bits of a wider right operand are OR-ed into the result -/
  gtLeftNarrow : Bool := false
  /-- `QintImp.sub`: a narrower left operand is complemented before it is widened -/
  subLeftNarrow : Bool := false
  /-- `QintImp.mul_even_const`: remainder shift `int(r/2)`, lost carry -/
  mulEvenConst : Bool := false
  /-- `transform_or2xor` looks only at the first two arguments of each `And` -/
  or2xorNoArity : Bool := false
  /-- `remove_identities` indexes `result[-1]` on an empty result -/
  removeIdEmptyResult : Bool := false
  /-- `QCircuit.repeat(0)` returns one copy -/
  repeatZero : Bool := false
  /-- `gates.I` is listed as classical but the decompiler raises on it -/
  identityGateRaises : Bool := false
  /-- `convert_to_dimacs` iterates a single clause as unit clauses -/
  dimacsSingleClause : Bool := false
  /-- `to_bqm`: `_ret = <symbol>` takes the `AndConst` branch -/
  retSymbolAndConst : Bool := false
  /-- `Grover.__init__` adds `_ret_phased` and an MCZ to the oracle's own circuit object -/
  groverMutatesOracle : Bool := false
  /-- `oraclize` assigns `qf.name = "_oracle"` to its argument when it is called `oracle` -/
  oraclizeRenames : Bool := false
  /-- `QlassF.from_function`: `exec(f, globals())` writes into the module `qlasskit.qlassfun` -/
  execIntoModuleGlobals : Bool := false
  /-- `QlassF.from_function`: `eval(name)` finds the function's own locals first -/
  evalSeesLocals : Bool := false
  deriving Repr, DecidableEq, Inhabited

def Quirks.none : Quirks := {}

def Quirks.ofList (l : List String) : Quirks :=
  { gtLeftNarrow := l.contains "gtLeftNarrow"
    subLeftNarrow := l.contains "subLeftNarrow"
    mulEvenConst := l.contains "mulEvenConst"
    or2xorNoArity := l.contains "or2xorNoArity"
    removeIdEmptyResult := l.contains "removeIdEmptyResult"
    repeatZero := l.contains "repeatZero"
    identityGateRaises := l.contains "identityGateRaises"
    dimacsSingleClause := l.contains "dimacsSingleClause"
    retSymbolAndConst := l.contains "retSymbolAndConst"
    groverMutatesOracle := l.contains "groverMutatesOracle"
    oraclizeRenames := l.contains "oraclizeRenames"
    execIntoModuleGlobals := l.contains "execIntoModuleGlobals"
    evalSeesLocals := l.contains "evalSeesLocals" }

end QV
