import QV.Drive.Util
import QV.Drive.C09
import QV.Model.Codec
import QV.Model.CompilerClass
import QV.Drive.Comp
namespace QV.Drive.C05
open Lean QV QV.Types QV.Codec QV.Drive

def parseName (s : String) : Codec.Name :=
  match s.splitOn "." with
  | [] => ⟨s, []⟩
  | b :: r => ⟨b, r.map String.toNat!⟩

def namesJ (l : List Codec.Name) : Json := Json.arr (l.map (fun n => Json.str n.render)).toArray

def parseSig (j : Json) : R (List (String × QTy)) := do
  let a ← j.getArr?
  a.toList.mapM fun e => do
    let p ← e.getArr?
    return (← p[0]!.getStr?, ← C09.parseTy p[1]!)

partial def parseRExp (j : Json) : R RExp := do
  let a ← j.getArr?
  match ← a[0]!.getStr? with
  | "var" => return .var (← C09.parseTy a[1]!)
  | "scalar" => return .scalar (← C09.parseTy a[1]!)
  | "tup" => return .tup (← (a.toList.drop 1).mapM parseRExp)
  | t => throw s!"bad rexp tag {t}"

/-- `c05.sig`: bit names of arguments and return value, input qubits -/
def sigOp (j : Json) : R Json := do
  let sig ← parseSig (← j.getObjVal? "args")
  let ret ← C09.parseTy (← j.getObjVal? "ret")
  let args := translateArguments sig
  pure (Json.mkObj [
    ("arg_bitvecs", Json.arr (args.map (fun a => namesJ a.bitvec)).toArray),
    ("ret_bitvec", namesJ (retArg ret).bitvec),
    ("input_symbols", namesJ (inputSymbols args)),
    ("input_qubits", toJson (inputQubits args))])

/-- `c05.encode`: `encode_input(*vals)` -/
def encodeOp (j : Json) : R Json := do
  let sig ← parseSig (← j.getObjVal? "args")
  let vals ← (← (← j.getObjVal? "vals").getArr?).toList.mapM C09.parseVal
  pure (Json.mkObj [("s", Json.str (String.ofList (encodeInput (translateArguments sig) vals)))])

/-- `c05.decode`: `decode_output(reading)`, reading given as bit string, list or int -/
def decodeOp (j : Json) : R Json := do
  let ret ← C09.parseTy (← j.getObjVal? "ret")
  let q := getQuirks j
  let form ← j.getObjValAs? String "form"
  let r := retArg ret
  match form with
  | "int" =>
    let n ← j.getObjValAs? Nat "n"
    pure (Json.mkObj [("value", C09.valJ (decodeOutputInt q r n))])
  | _ =>
    let bits ← getBits j "bits"
    pure (Json.mkObj [("value", C09.valJ (decodeOutput r bits))])

/-- `c05.pure`: `format_outcome(reading, out_len)`, `interpret_as_qtype(reading, ret, out_len)` and the
caller's reading object after the call -/
def pureOp (j : Json) : R Json := do
  let ret ← C09.parseTy (← j.getObjVal? "ret")
  let q := getQuirks j
  let form ← j.getObjValAs? String "form"
  let ol : Option Nat := (j.getObjValAs? Nat "out_len").toOption
  let bits ← match form with
    | "int" => do pure (formatOutcomeInt (← j.getObjValAs? Nat "n"))
    | _ => getBits j "bits"
  pure (Json.mkObj [("fmt", bitsJ (formatOutcome bits ol)),
    ("value", C09.valJ (interpretAsQtype bits ret ol)),
    ("arg_after", bitsJ (formatOutcomeArgAfter q bits ol)),
    ("decode_arg_after", bitsJ (decodeOutputArgAfter q bits))])

/-- `c05.ret`: names the Return statement gives to the bits of the returned expression -/
def retOp (j : Json) : R Json := do
  let e ← parseRExp (← j.getObjVal? "rexp")
  let q := getQuirks j
  pure (Json.mkObj [("names", namesJ (returnNames q e)), ("agree", toJson (retNamesAgree e)),
    ("bitvec", namesJ (retArg e.ty).bitvec)])

/-- `c05.outq`: qubit map built by the compiler's naming steps and `output_qubits` -/
def outqOp (j : Json) : R Json := do
  let inputs := (← j.getObjValAs? (List String) "inputs").map parseName
  let stepsJ ← (← j.getObjVal? "steps").getArr?
  let steps ← stepsJ.toList.mapM fun e => do
    let p ← e.getArr?
    return (parseName (← p[0]!.getStr?), ← p[1]!.getNat?)
  let nq ← j.getObjValAs? Nat "nq"
  let bitvec := (← j.getObjValAs? (List String) "bitvec").map parseName
  let m := compileMap inputs steps nq
  let oq : Json := match outputQubits m bitvec with
    | some l => toJson l
    | none => Json.null
  pure (Json.mkObj [("oq", oq), ("nq", toJson m.numQubits),
    ("qmap", Json.arr (m.entries.map (fun e => Json.arr #[Json.str e.1.render, toJson e.2])).toArray)])

instance : BEq QVal := ⟨QVal.beq⟩

/-- `c05.counts`: `decode_counts(counts, discard_lower)` -/
def countsOp (j : Json) : R Json := do
  let ret ← C09.parseTy (← j.getObjVal? "ret")
  let r := retArg ret
  let cs ← (← (← j.getObjVal? "counts").getArr?).toList.mapM fun e => do
    let p ← e.getArr?
    return (stringToBits (← p[0]!.getStr?), ← p[1]!.getNat?)
  let d : Option Nat := (j.getObjValAs? Nat "discard").toOption
  let out := decodeCounts (decodeOutput r) cs d
  pure (Json.mkObj [("out", Json.arr (out.map (fun e => Json.arr #[C09.valJ e.1, toJson e.2])).toArray),
    ("total", toJson (totalCount out))])

/-- `c05.e2e`: is a compiled function covered by `QV.C05.C05_end_to_end_general`?  The names the compiler is
called with are derived from the signature and the return type as in the theorem (`inputBitNames sig`,
`retBitNames ret` of `QV/Proofs/EndToEnd05.lean`); `in_general` = the definition list lies in `inGeneralClass`
over these names.  If so and the ancilla choices of the real compilation are given, the compiler model is run on
them and its gate list, number of qubits and `[qubit_map[r] for r in returns.bitvec]` are returned, so that the
harness can check that the circuit of the instance is the one the theorem speaks of.  `uncompute` is the flag the
real compilation was made with (the theorem quantifies over it). -/
def e2eOp (j : Json) : R Json := do
  let sig ← parseSig (← j.getObjVal? "args")
  let ret ← C09.parseTy (← j.getObjVal? "ret")
  let defs ← Comp.parseDefs (← j.getObjVal? "exprs")
  let unc ← j.getObjValAs? Bool "uncompute"
  let inputs := (inputSymbols (translateArguments sig)).map Name.render
  let rets := (retArg ret).bitvec.map Name.render
  let inCls := Compiler.inGeneralClass inputs defs rets
  let base : List (String × Json) := [("in_general", toJson inCls), ("inputs", toJson inputs), ("rets", toJson rets)]
  if !inCls then return Json.mkObj base
  match (j.getObjValAs? (List Nat) "choices").toOption with
  | none => pure (Json.mkObj base)
  | some choices =>
    match (Compiler.compile inputs defs (some rets) unc).run { choices := choices } with
    | .error e => pure (Json.mkObj (base ++ [("error", Json.str e)]))
    | .ok ((), s) =>
      pure (Json.mkObj (base ++ [("gates", gatesJ s.qc.gates.toList), ("num_qubits", toJson s.qc.numQubits),
        ("oq", Json.arr (rets.map fun r => optNatJ (Compiler.dictGet? s.qc.qmap r)).toArray),
        ("cache_hit", toJson (s.events.contains "cacheHit")),
        ("choices_left", toJson s.choices.length),
        -- where the final `qubit_map` of the compiler model leaves the argument bit NAMES (a definition that
        -- re-binds an argument moves the name; `input_qubits` stays `[0..n)`, `input_qubits_range`), and the
        -- hypothesis of `C05_end_to_end_inputs` (same Boolean as `C02.inputsFresh`)
        ("arg_qubits", Json.arr (inputs.map fun r => optNatJ (Compiler.dictGet? s.qc.qmap r)).toArray),
        ("inputs_fresh", toJson (decide inputs.Nodup && inputs.all fun n =>
          !Compiler.reservedName n && !(defs.map (·.1)).contains n)),
        ("input_qubits", toJson (inputQubits (translateArguments sig)))]))

def handle (op : String) (j : Json) : Option (R Json) :=
  match op with
  | "c05.e2e" => some (e2eOp j)
  | "c05.sig" => some (sigOp j)
  | "c05.encode" => some (encodeOp j)
  | "c05.decode" => some (decodeOp j)
  | "c05.pure" => some (pureOp j)
  | "c05.ret" => some (retOp j)
  | "c05.outq" => some (outqOp j)
  | "c05.counts" => some (countsOp j)
  | _ => none

end QV.Drive.C05
