import QV.Drive.Util
import QV.Drive.BExpJson
import QV.Drive.CircJson
import QV.Model.Decompiler
/-! Driver ops of C11: `c11.decompile` {n, gates, quirks} -> {error} | {sections:[{start,stop,gates,exps}]} -/
namespace QV.Drive.C11
open Lean QV QV.Drive QV.Decompiler

def dictJ (d : Dict) : Json :=
  Json.arr (d.map (fun p => Json.arr #[Json.str p.1, bexpJ p.2])).toArray

def sectionJ (s : Section) : Json :=
  Json.mkObj [("start", toJson s.start), ("stop", toJson s.stop), ("gates", gatesJ s.gates),
    ("exps", dictJ s.exps)]

def decompileOp (j : Json) : R Json := do
  let n ← j.getObjValAs? Nat "n"
  let gs ← parseGates (← j.getObjVal? "gates")
  let q := getQuirks j
  match decompile q rawKernel n gs with
  | .ok secs => pure (Json.mkObj [("sections", Json.arr (secs.map sectionJ).toArray),
      ("triggers", toJson (triggers q gs))])
  | .error e => pure (Json.mkObj [("error", Json.str e), ("triggers", toJson (triggers q gs))])

/-- `c11.classes`: the class tests on every gate of the list -/
def classesOp (j : Json) : R Json := do
  let gs ← parseGates (← j.getObjVal? "gates")
  let q := getQuirks j
  pure (Json.arr (gs.map (fun g => Json.arr #[toJson (isZB q g.cls), toJson (isNopClass g.cls)])).toArray)

def handle (op : String) (j : Json) : Option (Except String Json) :=
  match op with
  | "c11.decompile" => some (decompileOp j)
  | "c11.classes" => some (classesOp j)
  | _ => none

end QV.Drive.C11
