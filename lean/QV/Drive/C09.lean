import QV.Drive.Util
import QV.Model.Types
namespace QV.Drive.C09
open Lean QV QV.Types QV.Drive

partial def parseTy (j : Json) : R QTy := do
  let a ← j.getArr?
  match ← a[0]!.getStr? with
  | "bool" => pure .bool
  | "qint" => return .qint (← a[1]!.getNat?)
  | "qchar" => pure .qchar
  | "qfixed" => return .qfixed (← a[1]!.getNat?) (← a[2]!.getNat?)
  | "tuple" => return .tuple (← (a.toList.drop 1).mapM parseTy)
  | t => throw s!"bad type tag {t}"

partial def valJ : QVal → Json
  | .bool b => Json.mkObj [("b", toJson b)]
  | .int v => Json.mkObj [("i", toJson v)]
  | .char c => Json.mkObj [("c", toJson c)]
  | .fixed sv => Json.mkObj [("f", toJson sv)]
  | .tuple vs => Json.mkObj [("t", Json.arr (vs.map valJ).toArray)]
  | .error => Json.str "error"

partial def parseVal (j : Json) : R QVal := do
  if let .ok b := j.getObjValAs? Bool "b" then return .bool b
  if let .ok v := j.getObjValAs? Nat "i" then return .int v
  if let .ok v := j.getObjValAs? Nat "c" then return .char v
  if let .ok v := j.getObjValAs? Nat "f" then return .fixed v
  if let .ok a := j.getObjVal? "t" then
    return .tuple (← (← a.getArr?).toList.mapM parseVal)
  throw "bad value"

/-- `c09.scalar`: one bit pattern of one scalar type through every codec -/
def scalar (j : Json) : R Json := do
  let kind ← j.getObjValAs? String "kind"
  let bits ← getBits j "bits"
  match kind with
  | "qint" =>
    let w ← j.getObjValAs? Nat "w"
    match qintFromBool w bits with
    | none => pure (Json.mkObj [("value", Json.null)])
    | some v =>
      let (al, ai) := qintAmp w v
      pure (Json.mkObj [("value", toJson v), ("to_bool", bitsJ (qintToBool w v)),
        ("const", bitsJ (qintConst w v)), ("amp_len", toJson al), ("amp_index", toJson ai)])
  | "qchar" =>
    match qcharFromBool bits with
    | none => pure (Json.mkObj [("value", Json.null)])
    | some v =>
      let (al, ai) := qcharAmp v
      pure (Json.mkObj [("value", toJson v), ("to_bool", bitsJ (qcharToBool v)),
        ("const", bitsJ (qcharConst v)), ("amp_len", toJson al), ("amp_index", toJson ai)])
  | "qfixed" =>
    let i ← j.getObjValAs? Nat "i"
    let f ← j.getObjValAs? Nat "f"
    match qfixedFromBool i f bits with
    | none => pure (Json.mkObj [("value", Json.null)])
    | some v =>
      let (al, ai) := qfixedAmp i f v
      pure (Json.mkObj [("value", toJson v), ("to_bool", bitsJ (qfixedToBool i f v)),
        ("const", bitsJ (qfixedConst i f v)), ("amp_len", toJson al), ("amp_index", optNatJ ai)])
  | k => throw s!"bad kind {k}"

/-- `c09.const`: constant encoding of an arbitrary (possibly out-of-range) value -/
def constOp (j : Json) : R Json := do
  let kind ← j.getObjValAs? String "kind"
  let v ← j.getObjValAs? Nat "value"
  match kind with
  | "qint" =>
    let w ← j.getObjValAs? Nat "w"
    pure (Json.mkObj [("const", bitsJ (qintConst w v)), ("to_bool", bitsJ (qintToBool w (qintInit w v)))])
  | "qchar" => pure (Json.mkObj [("const", bitsJ (qcharConst v)), ("to_bool", bitsJ (qcharToBool v))])
  | "qfixed" =>
    let i ← j.getObjValAs? Nat "i"
    let f ← j.getObjValAs? Nat "f"
    pure (Json.mkObj [("const", bitsJ (qfixedConst i f v)), ("to_bool", bitsJ (qfixedToBool i f v))])
  | k => throw s!"bad kind {k}"

/-- `c09.interpret`: `interpret_as_qtype(out, ty, out_len)` -/
def interpretOp (j : Json) : R Json := do
  let t ← parseTy (← j.getObjVal? "ty")
  let out ← getBits j "out"
  let ol : Option Nat := (j.getObjValAs? Nat "out_len").toOption
  pure (Json.mkObj [("value", valJ (interpretAsQtype out t ol)), ("size", toJson t.size)])

/-- `c09.encode`: concatenated runtime encoding of a nested value -/
def encodeOp (j : Json) : R Json := do
  let t ← parseTy (← j.getObjVal? "ty")
  let v ← parseVal (← j.getObjVal? "val")
  pure (Json.mkObj [("bits", bitsJ (encode t v))])

def handle (op : String) (j : Json) : Option (R Json) :=
  match op with
  | "c09.scalar" => some (scalar j)
  | "c09.const" => some (constOp j)
  | "c09.interpret" => some (interpretOp j)
  | "c09.encode" => some (encodeOp j)
  | _ => none

end QV.Drive.C09
