import QV.Drive.Util
import QV.Drive.BExpJson
import QV.Model.Opt
import QV.Gen.Tables
/-! JSON handlers for C04 (`QV.Model.Opt`).  Definition lists are `[[name, bexp], …]`;
`simplify_logic` and `cse` come as finite tables of the calls observed on the real code
(`simp`: `[[in, out], …]`, a miss is the identity; `cse`: `[[es…], repl, red]`, a miss is `([], es)`). -/
namespace QV.Drive.C04
open Lean QV QV.Opt QV.Drive

def parseDefs (j : Json) : R Defs := do
  let a ← j.getArr?
  a.toList.mapM fun d => do
    let p ← d.getArr?
    if p.size != 2 then throw "bad definition"
    return (← p[0]!.getStr?, ← parseBExp p[1]!)

def defsJ (l : Defs) : Json := Json.arr (l.map fun d => Json.arr #[Json.str d.1, bexpJ d.2]).toArray

def getDefs (j : Json) (k : String) : R Defs := do parseDefs (← j.getObjVal? k)

def getBExp (j : Json) (k : String) : R BExp := do parseBExp (← j.getObjVal? k)

def getSimpTable (j : Json) : R (List (BExp × BExp)) := do
  match j.getObjVal? "simp" with
  | .error _ => pure []
  | .ok t =>
    let a ← t.getArr?
    a.toList.mapM fun p => do
      let q ← p.getArr?
      return (← parseBExp q[0]!, ← parseBExp q[1]!)

def simpOf (t : List (BExp × BExp)) (e : BExp) : BExp :=
  match t.find? (fun p => p.1 == e) with
  | some p => p.2
  | none => e

def listBeq (a b : List BExp) : Bool := BExp.beqList a b

def getCseTable (j : Json) : R (List (List BExp × Defs × List BExp)) := do
  match j.getObjVal? "cse" with
  | .error _ => pure []
  | .ok t =>
    let a ← t.getArr?
    a.toList.mapM fun p => do
      let q ← p.getArr?
      let es ← (← q[0]!.getArr?).toList.mapM parseBExp
      let repl ← parseDefs q[1]!
      let red ← (← q[2]!.getArr?).toList.mapM parseBExp
      return (es, repl, red)

def cseOf (t : List (List BExp × Defs × List BExp)) (es : List BExp) : Defs × List BExp :=
  match t.find? (fun p => listBeq p.1 es) with
  | some p => p.2
  | none => ([], es)

def defsBeq (a b : Defs) : Bool := a == b

def disableOrOf (j : Json) : Bool :=
  match j.getObjValAs? Bool "disableOr" with
  | .ok b => b
  | .error _ => Gen.disableOr

/-- arguments of the `simplify_logic` calls `custom_simplify_logic` makes -/
partial def cslCalls : BExp → List BExp
  | .xor _ => []
  | .and l => l.flatMap cslCalls
  | .or l => l.flatMap cslCalls
  | .not e => cslCalls e
  | e => [e]

def transformer (name : String) (K : Kernel) (q : Quirks) (d : Bool) : Option (BExp → BExp) :=
  match name with
  | "rebuild" => some (rebuild K)
  | "remove_ITE" => some (removeITE K)
  | "remove_Implies" => some (removeImplies K)
  | "transform_or2xor" => some (or2xor K q)
  | "transform_or2and" => some (or2and K d)
  | "remove_obvious_expr" => some (removeObvious K)
  | _ => none

/-- `c04.expr`: one transformer on one expression, as the code is (`quirks`) and repaired -/
def expr (j : Json) : R Json := do
  let q := getQuirks j
  let e ← getBExp j "e"
  let name ← j.getObjValAs? String "t"
  let d := disableOrOf j
  match transformer name Kernel.raw q d, transformer name Kernel.raw Quirks.none d with
  | some f, some f0 =>
    let o := f e
    let o0 := f0 e
    pure <| Json.mkObj [("out", bexpJ o), ("out_fixed", bexpJ o0), ("trigger", toJson (!(o == o0)))]
  | _, _ => throw s!"unknown transformer {name}"

/-- `c04.csl`: `custom_simplify_logic` with the observed `simplify_logic` table -/
def cslOp (j : Json) : R Json := do
  let e ← getBExp j "e"
  let t ← getSimpTable j
  let misses := (cslCalls e).filter (fun x => !(t.any (fun p => p.1 == x)))
  pure <| Json.mkObj [("out", bexpJ (csl Kernel.raw (simpOf t) e)), ("misses", toJson misses.length)]

/-- `c04.xreplace` -/
def xreplaceOp (j : Json) : R Json := do
  let e ← getBExp j "e"
  let m ← getDefs j "emap"
  pure <| Json.mkObj [("out", bexpJ (xreplace Kernel.raw m e))]

/-- `c04.merge` -/
def mergeOp (j : Json) : R Json := do
  let l ← getDefs j "defs"
  let t ← getSimpTable j
  pure <| Json.mkObj [("out", defsJ (mergeExpressions Kernel.raw (simpOf t) l))]

/-- `c04.cse`: `apply_cse` given what `sympy.cse` returned -/
def cseOp (j : Json) : R Json := do
  let q := getQuirks j
  let l ← getDefs j "defs"
  let repl ← getDefs j "repl"
  let red ← (← (← j.getObjVal? "red").getArr?).toList.mapM parseBExp
  let cse : List BExp → Defs × List BExp := fun _ => (repl, red)
  let o := applyCse q cse l
  let o0 := applyCse Quirks.none cse l
  pure <| Json.mkObj [("out", defsJ o), ("out_fixed", defsJ o0), ("safe", toJson (cseSafe l repl)),
    ("trigger", toJson (!(defsBeq o o0)))]

def paramsOf (j : Json) (q : Quirks) : R Params := do
  let t ← getSimpTable j
  let c ← getCseTable j
  pure { K := Kernel.raw, q := q, disableOr := disableOrOf j, simp := simpOf t, cse := cseOf c }

/-- `c04.profile`: `BoolOptimizerProfile.apply` for a list of step names -/
def profileOp (j : Json) : R Json := do
  let q := getQuirks j
  let l ← getDefs j "defs"
  let ns ← j.getObjValAs? (List String) "steps"
  match ns.mapM Step.ofName with
  | none => throw "unknown step"
  | some steps =>
    let P ← paramsOf j q
    let o := applyProfile P steps l
    let o0 := applyProfile { P with q := Quirks.none } steps l
    pure <| Json.mkObj [("out", defsJ o), ("out_fixed", defsJ o0), ("trigger", toJson (!(defsBeq o o0)))]

/-- `c04.tt`: values of `rets` after the list, for every assignment of `inputs` (row k: input i = bit i of k);
with `rows` (a list of numbers k) only for those assignments, in that order (lists over many variables) -/
def ttOp (j : Json) : R Json := do
  let l ← getDefs j "defs"
  let inputs ← j.getObjValAs? (List String) "inputs"
  let rets ← j.getObjValAs? (List String) "rets"
  let rows : List Nat := match j.getObjValAs? (List Nat) "rows" with
    | .ok r => r
    | .error _ => List.range (2 ^ inputs.length)
  let mut out := ""
  for k in rows do
    let ρ := evalDefs (assignment inputs k) l
    for r in rets do
      out := out.push (if ρ r then '1' else '0')
  pure <| Json.mkObj [("tt", Json.str out), ("free", toJson (freeSyms l).eraseDups), ("rets", toJson (retNames l))]

/-- `c04.tables`: what the extractor found -/
def tablesOp (_ : Json) : R Json :=
  pure <| Json.mkObj [("default", toJson Gen.defaultOptimizerSteps), ("fast", toJson Gen.fastOptimizerSteps),
    ("disableOr", toJson Gen.disableOr)]

def handle (op : String) (j : Json) : Option (R Json) :=
  match op with
  | "c04.expr" => some (expr j)
  | "c04.csl" => some (cslOp j)
  | "c04.xreplace" => some (xreplaceOp j)
  | "c04.merge" => some (mergeOp j)
  | "c04.cse" => some (cseOp j)
  | "c04.profile" => some (profileOp j)
  | "c04.tt" => some (ttOp j)
  | "c04.tables" => some (tablesOp j)
  | _ => none

end QV.Drive.C04
