import QV.Drive.Util
import QV.Drive.BExpJson
import QV.Drive.CircJson
import QV.Drive.Comp
import QV.Model.Decopt
/-! Driver ops of C12.

`c12.optimize` {n, gates, quirks, sections:[{start, exprs:[[name,bexp]], choices:[Nat]}]}
  -> {error} | {gates, sections:[{start, stop, old, new, qmap, num_qubits, accepted, stable, ok, simp_ok,
                                  keys_ok, xonly}], validated, triggers}
  (`keys_ok`/`xonly` = `keysOK`/`xonly` of `QV.Decopt` on the logged expressions: hypothesis and conclusion of
  `QV.C12.accepted_xonly`)
  (`sections[k].exprs` = the simplified expressions the real run handed to `exprs_to_quantum` for
  the section starting at `start`, `choices` = the ancillas popped during that re-synthesis)
  optional `narrow: true` (the harness sets it from 10 qubits on): `ok`, `simp_ok` and `validated` are computed on
  the assignments of the qubits the section involves (wires of old and new gates, keys and symbols of the logged
  and the decompiled expressions; all other qubits 0) instead of all `2^n` basis states - all of them when at most
  11 qubits are involved, otherwise 0..0, 1..1, weight 1, co-weight 1 and 300 fixed pseudo-random ones.  This is
  driver code, not the proved validator `sectionOKb` (gates and expressions cannot depend on or change a qubit
  they do not mention, so on at most 11 involved qubits it decides the same thing).
`c12.simplify` {expr, table:[[in,out]]} -> {out} | {error}: `custom_simplify_logic2` with
  `simplify_logic` = the logged table
-/
namespace QV.Drive.C12
open Lean QV QV.Drive QV.Decompiler QV.Decopt

structure SecLog where
  start : Nat
  exprs : List (String × BExp)
  choices : List Nat

def parseSecLog (j : Json) : R SecLog := do
  let start ← j.getObjValAs? Nat "start"
  let exprs ← Comp.parseDefs (← j.getObjVal? "exprs")
  let choices ← j.getObjValAs? (List Nat) "choices"
  pure ⟨start, exprs, choices⟩

/-- the function of all `n` qubits an expression list denotes (identity where no entry) -/
def fullExps (n : Nat) (d : List (String × BExp)) : List BExp :=
  (symbols n).map fun k => match d.find? (fun p => p.1 == k) with | some p => p.2 | none => .sym k

/-- the logged expressions are keyed by distinct qubit names and denote, on every assignment of the
`n` qubit symbols, the function of the model's decompiled expressions (sympy drops entries its
constructors reduce to the identity, so the key lists themselves may differ) -/
def simpOk (n : Nat) (s : Section) (logged : List (String × BExp)) : Bool :=
  logged.all (fun p => (symbols n).contains p.1) && (logged.map (·.1)).eraseDups.length == logged.length &&
  truthTable (symbols n) (fullExps n logged) == truthTable (symbols n) (fullExps n s.exps)

/-! ### wide circuits: the per-section checks on the qubits a section involves -/

def involved (n : Nat) (s : Section) (new : List AGate) (logged : List (String × BExp)) : List Nat :=
  let ws := wiresOf s.gates ++ wiresOf new
  let names := (logged ++ s.exps).flatMap fun p => p.1 :: p.2.syms
  (List.range n).filter fun i => ws.contains i || names.contains (qname i)

/-- `k` as an assignment of the qubits `qs` of an `n`-qubit register (the others 0) -/
def stateOn (n : Nat) (qs : List Nat) (k : Nat) : BState :=
  (List.range n).map fun i => match qs.idxOf? i with | some b => k.testBit b | none => false

def sampleKeys (m : Nat) : List Nat :=
  if m ≤ 11 then List.range (2 ^ m)
  else
    let full := 2 ^ m - 1
    let rnd := (List.range 300).foldl (fun (acc : List Nat × Nat) _ =>
      let x := (acc.2 * 6364136223846793005 + 1442695040888963407) % (2 ^ 64)
      ((x / 2 ^ 13) % (2 ^ m) :: acc.1, x)) ([], 88172645463325252 + m)
    [0, full] ++ (List.range m).map (fun i => 2 ^ i) ++ (List.range m).map (fun i => full - 2 ^ i) ++ rnd.1

def statesOn (n : Nat) (qs : List Nat) : List BState := (sampleKeys qs.length).map (stateOn n qs)

def envOfState (n : Nat) (st : BState) : Env := fun nm =>
  match qidx n nm with | some i => st.getD i false | none => false

def sectionOKOn (n : Nat) (qs : List Nat) (old new : List AGate) : Bool :=
  new.all (fun g => (g.cls.isMCXLike || g.cls.isNop) && decide g.wires.Nodup) &&
  (statesOn n qs).all fun st => runClassical new st == runClassical old st

def simpOkOn (n : Nat) (qs : List Nat) (s : Section) (logged : List (String × BExp)) : Bool :=
  let pick (d : List (String × BExp)) (i : Nat) : BExp :=
    match d.find? (fun p => p.1 == qname i) with | some p => p.2 | none => .sym (qname i)
  logged.all (fun p => (symbols n).contains p.1) && (logged.map (·.1)).eraseDups.length == logged.length &&
  (statesOn n qs).all fun st =>
    let ρ := envOfState n st
    qs.all fun i => (pick logged i).eval ρ == (pick s.exps i).eval ρ

def optimizeOp (j : Json) : R Json := do
  let n ← j.getObjValAs? Nat "n"
  let gs ← parseGates (← j.getObjVal? "gates")
  let q := getQuirks j
  let logs ← (← (← j.getObjVal? "sections").getArr?).toList.mapM parseSecLog
  let narrow : Bool := (j.getObjValAs? Bool "narrow").toOption.getD false
  let find (s : Section) : Option SecLog := logs.find? (fun l => l.start == s.start)
  let resyn (s : Section) : Except String SecResult :=
    match find s with
    | some l => resynth n l.exprs l.choices
    | none => .error s!"model: no logged re-synthesis for the section at {s.start}"
  match decompile q rawKernel n gs with
  | .error e => pure (Json.mkObj [("error", Json.str e)])
  | .ok secs =>
    match spliceLoop q n resyn secs.reverse gs with
    | .error e => pure (Json.mkObj [("error", Json.str e)])
    | .ok out =>
      let secJ (s : Section) : Json :=
        match resyn s with
        | .error e => Json.mkObj [("start", toJson s.start), ("error", Json.str e)]
        | .ok r =>
          Json.mkObj [("start", toJson s.start), ("stop", toJson s.stop), ("old", gatesJ s.gates),
            ("new", gatesJ r.gates), ("qmap", Comp.qmapJ r.qmap), ("num_qubits", toJson r.numQubits),
            ("accepted", toJson (accept q n s r)), ("stable", toJson (nameStable n r.qmap)),
            ("ok", toJson (if narrow then
                sectionOKOn n (involved n s r.gates ((find s).map (·.exprs) |>.getD [])) s.gates r.gates
              else sectionOKb n s.gates r.gates)),
            ("simp_ok", toJson (match find s with
              | some l => if narrow then simpOkOn n (involved n s r.gates l.exprs) s l.exprs else simpOk n s l.exprs
              | none => false)),
            ("keys_ok", toJson (match find s with | some l => keysOK n l.exprs | none => false)),
            ("xonly", toJson (match find s with | some l => xonly n l.exprs r.gates | none => false))]
      pure (Json.mkObj [("gates", gatesJ out), ("sections", Json.arr (secs.map secJ).toArray),
        ("validated", toJson (if narrow then
            secs.all fun s => match resyn s with
              | .ok r => !accept q n s r ||
                  sectionOKOn n (involved n s r.gates ((find s).map (·.exprs) |>.getD [])) s.gates r.gates
              | .error _ => true
          else validated q n resyn secs)),
        ("triggers", toJson (Decopt.triggers q n resyn secs)),
        ("unused_logs", toJson ((logs.filter fun l => !(secs.any fun s => s.start == l.start)).map (·.start)))])

def simplifyOp (j : Json) : R Json := do
  let e ← parseBExp (← j.getObjVal? "expr")
  let table ← (← (← j.getObjVal? "table").getArr?).toList.mapM fun p => do
    let a ← p.getArr?
    pure ((← parseBExp a[0]!), (← parseBExp a[1]!))
  -- a call that is not in the table is answered by a marker symbol
  let simp (x : BExp) : BExp :=
    match table.find? (fun p => p.1 == x) with
    | some p => p.2
    | none => .sym "?missing"
  pure (Json.mkObj [("out", bexpJ (customSimplify simp rawKernel4 e))])

def handle (op : String) (j : Json) : Option (Except String Json) :=
  match op with
  | "c12.optimize" => some (optimizeOp j)
  | "c12.simplify" => some (simplifyOp j)
  | _ => none

end QV.Drive.C12
