import QV.Drive.Util
import QV.Drive.BExpJson
import QV.Drive.CircJson
import QV.Drive.Comp
import QV.Model.Decopt
/-! Driver ops of C12.

`c12.optimize` {n, gates, quirks, sections:[{start, exprs:[[name,bexp]], choices:[Nat]}]}
  -> {error} | {gates, sections:[{start, stop, old, new, qmap, num_qubits, accepted, stable, ok, simp_ok,
                                  keys_ok, xonly}], validated, triggers}
  (`keys_ok`/`xonly` = `keysOK`/`xonly` of `QV.Decopt` on the logged expressions: hypothesis and conclusion of
  `QV.C12.accepted_xonly`)
  (`sections[k].exprs` = the simplified expressions the real run handed to `exprs_to_quantum` for
  the section starting at `start`, `choices` = the ancillas popped during that re-synthesis)
`c12.simplify` {expr, table:[[in,out]]} -> {out} | {error}: `custom_simplify_logic2` with
  `simplify_logic` = the logged table
-/
namespace QV.Drive.C12
open Lean QV QV.Drive QV.Decompiler QV.Decopt

structure SecLog where
  start : Nat
  exprs : List (String × BExp)
  choices : List Nat

def parseSecLog (j : Json) : R SecLog := do
  let start ← j.getObjValAs? Nat "start"
  let exprs ← Comp.parseDefs (← j.getObjVal? "exprs")
  let choices ← j.getObjValAs? (List Nat) "choices"
  pure ⟨start, exprs, choices⟩

/-- the function of all `n` qubits an expression list denotes (identity where no entry) -/
def fullExps (n : Nat) (d : List (String × BExp)) : List BExp :=
  (symbols n).map fun k => match d.find? (fun p => p.1 == k) with | some p => p.2 | none => .sym k

/-- the logged expressions are keyed by distinct qubit names and denote, on every assignment of the
`n` qubit symbols, the function of the model's decompiled expressions (sympy drops entries its
constructors reduce to the identity, so the key lists themselves may differ) -/
def simpOk (n : Nat) (s : Section) (logged : List (String × BExp)) : Bool :=
  logged.all (fun p => (symbols n).contains p.1) && (logged.map (·.1)).eraseDups.length == logged.length &&
  truthTable (symbols n) (fullExps n logged) == truthTable (symbols n) (fullExps n s.exps)

def optimizeOp (j : Json) : R Json := do
  let n ← j.getObjValAs? Nat "n"
  let gs ← parseGates (← j.getObjVal? "gates")
  let q := getQuirks j
  let logs ← (← (← j.getObjVal? "sections").getArr?).toList.mapM parseSecLog
  let find (s : Section) : Option SecLog := logs.find? (fun l => l.start == s.start)
  let resyn (s : Section) : Except String SecResult :=
    match find s with
    | some l => resynth n l.exprs l.choices
    | none => .error s!"model: no logged re-synthesis for the section at {s.start}"
  match decompile q rawKernel n gs with
  | .error e => pure (Json.mkObj [("error", Json.str e)])
  | .ok secs =>
    match spliceLoop q n resyn secs.reverse gs with
    | .error e => pure (Json.mkObj [("error", Json.str e)])
    | .ok out =>
      let secJ (s : Section) : Json :=
        match resyn s with
        | .error e => Json.mkObj [("start", toJson s.start), ("error", Json.str e)]
        | .ok r =>
          Json.mkObj [("start", toJson s.start), ("stop", toJson s.stop), ("old", gatesJ s.gates),
            ("new", gatesJ r.gates), ("qmap", Comp.qmapJ r.qmap), ("num_qubits", toJson r.numQubits),
            ("accepted", toJson (accept q n s r)), ("stable", toJson (nameStable n r.qmap)),
            ("ok", toJson (sectionOKb n s.gates r.gates)),
            ("simp_ok", toJson (match find s with | some l => simpOk n s l.exprs | none => false)),
            ("keys_ok", toJson (match find s with | some l => keysOK n l.exprs | none => false)),
            ("xonly", toJson (match find s with | some l => xonly n l.exprs r.gates | none => false))]
      pure (Json.mkObj [("gates", gatesJ out), ("sections", Json.arr (secs.map secJ).toArray),
        ("validated", toJson (validated q n resyn secs)),
        ("triggers", toJson (Decopt.triggers q n resyn secs)),
        ("unused_logs", toJson ((logs.filter fun l => !(secs.any fun s => s.start == l.start)).map (·.start)))])

def simplifyOp (j : Json) : R Json := do
  let e ← parseBExp (← j.getObjVal? "expr")
  let table ← (← (← j.getObjVal? "table").getArr?).toList.mapM fun p => do
    let a ← p.getArr?
    pure ((← parseBExp a[0]!), (← parseBExp a[1]!))
  -- a call that is not in the table is answered by a marker symbol
  let simp (x : BExp) : BExp :=
    match table.find? (fun p => p.1 == x) with
    | some p => p.2
    | none => .sym "?missing"
  pure (Json.mkObj [("out", bexpJ (customSimplify simp rawKernel4 e))])

def handle (op : String) (j : Json) : Option (Except String Json) :=
  match op with
  | "c12.optimize" => some (optimizeOp j)
  | "c12.simplify" => some (simplifyOp j)
  | _ => none

end QV.Drive.C12
