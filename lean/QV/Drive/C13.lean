import QV.Drive.Util
import QV.Drive.CircJson
import QV.Model.Export
/-! JSON handlers for C13 (exporters).

`c13.export`: {"fw":"qiskit|cirq|sympy|qasm","version":2|3,"mode":"circuit|gate","name":..,"n":..,
  "qmap":[[name,index]..],"gates":[..],"fvals":[[text,neg,"num","den"]..],"quirks":[..]}
  → {"ok": calls | text} or {"error": msg}
`c13.parse`: {"text":..} → {"decl": {...}|null, "ops": [...]|null}
`c13.fmt2f`: {"neg":..,"num":"..","den":".."} → {"text":..}
`c13.domain`: circuit as for `c13.export` → the hypotheses of `C13_full` / `qasm_asis_resolves`
  ({"wellNamed","paramsPlain","qasmExportable","wf"}) and their proved consequences evaluated on
  the model ({"readable","nodup"})
-/
namespace QV.Drive.C13
open Lean QV QV.Export QV.Drive

def txt (t : Text) : Json := Json.str (String.ofList t)

def parseFVals (j : Json) : R FloatOf := do
  match j.getObjVal? "fvals" with
  | .error _ => pure (fun _ => none)
  | .ok a =>
    let rows ← (← a.getArr?).toList.mapM fun r => do
      let r ← r.getArr?
      let s ← r[0]!.getStr?
      let neg ← r[1]!.getBool?
      let num ← r[2]!.getStr?
      let den ← r[3]!.getStr?
      match num.toNat?, den.toNat? with
      | some n, some d => pure (s, ({ neg := neg, num := n, den := d } : FVal))
      | _, _ => throw "bad fval"
    pure (fun s => (rows.find? (·.1 == s)).map (·.2))

def parseCirc (j : Json) : R Circ := do
  let name ← j.getObjValAs? String "name"
  let n ← j.getObjValAs? Nat "n"
  let qm ← (← (← j.getObjVal? "qmap").getArr?).toList.mapM fun r => do
    let r ← r.getArr?
    pure ((← r[0]!.getStr?).toList, ← r[1]!.getNat?)
  let gs ← parseGates (← j.getObjVal? "gates")
  pure { name := name.toList, numQubits := n, qmap := qm, gates := gs }

def optParamJ : Option Param → Json
  | none => Json.null
  | some p => Json.mkObj [("v", paramJ p)]

def qkJ : QkCall → Json
  | .mcx cs t => Json.mkObj [("m", "mcx"), ("ctrls", toJson cs), ("t", toJson t)]
  | .appendCZ n w => Json.mkObj [("m", "append_cz"), ("n", toJson n), ("w", toJson w)]
  | .barrier l => Json.mkObj [("m", "barrier"), ("label", paramJ l)]
  | .meth nm p w => Json.mkObj [("m", txt nm), ("p", optParamJ p), ("w", toJson w)]

def baseJ (b : Base) : Json :=
  Json.str (match b with
    | .I => "I" | .X => "X" | .Y => "Y" | .Z => "Z" | .H => "H" | .S => "S" | .T => "T"
    | .P => "P" | .Swap => "SWAP")

def cqJ : CqOp → Json
  | .ctrl sub n w => Json.mkObj [("k", "ctrl"), ("sub", baseJ sub), ("n", toJson n), ("w", toJson w)]
  | .swap a b => Json.mkObj [("k", "swap"), ("w", toJson [a, b])]
  | .czpow p a b => Json.mkObj [("k", "czpow"), ("p", paramJ p), ("w", toJson [a, b])]
  | .named nm w => Json.mkObj [("k", "named"), ("name", txt nm), ("w", toJson w)]

def syJ : SyGate → Json
  | .X w => Json.mkObj [("k", "X"), ("w", toJson [w])]
  | .H w => Json.mkObj [("k", "H"), ("w", toJson [w])]
  | .CNOT a b => Json.mkObj [("k", "CNOT"), ("w", toJson [a, b])]
  | .SWAP a b => Json.mkObj [("k", "SWAP"), ("w", toJson [a, b])]
  | .CGateX cs t => Json.mkObj [("k", "CGate"), ("ctrls", toJson cs), ("t", toJson t)]

def result {α : Type} (f : α → Json) : Except String α → Json
  | .ok a => Json.mkObj [("ok", f a)]
  | .error m => Json.mkObj [("error", Json.str m)]

def export_ (j : Json) : R Json := do
  let q := getQuirks j
  let fv ← parseFVals j
  let c ← parseCirc j
  let fw ← j.getObjValAs? String "fw"
  let gateMode := (← j.getObjValAs? String "mode") == "gate"
  match fw with
  | "qiskit" => pure (result (fun l => Json.arr (l.map qkJ).toArray) (exportQiskit q fv gateMode c.gates))
  | "cirq" => pure (result (fun l => Json.arr (l.map cqJ).toArray) (exportCirq q c.gates))
  | "sympy" => pure (result (fun l => Json.arr (l.map syJ).toArray) (exportSympy c.gates))
  | "qasm" =>
    let v := (j.getObjValAs? Nat "version").toOption.getD 3
    pure (result txt (exportQasm q fv v gateMode c))
  | _ => throw s!"bad framework {fw}"

def optTxt : Option Text → Json
  | none => Json.null
  | some t => txt t

def lineJ (l : QLine) : Json :=
  Json.mkObj [("g", txt l.gname), ("p", optTxt l.ptext), ("args", Json.arr (l.args.map txt).toArray)]

def topJ (o : TOp) : Json :=
  Json.mkObj [("base", baseJ o.base), ("nctrl", toJson o.nctrl), ("w", toJson o.wires), ("p", optTxt o.ptext)]

def parse_ (j : Json) : R Json := do
  let t ← j.getObjValAs? String "text"
  match parseDecl t.toList with
  | none => pure (Json.mkObj [("decl", Json.null), ("ops", Json.null)])
  | some d =>
    let dj := Json.mkObj [("name", txt d.name), ("formals", Json.arr (d.formals.map txt).toArray),
      ("body", Json.arr (d.body.map lineJ).toArray)]
    let oj := match declOps d with
      | none => Json.null
      | some ops => Json.arr (ops.map topJ).toArray
    pure (Json.mkObj [("decl", dj), ("ops", oj)])

def fmt_ (j : Json) : R Json := do
  let neg ← j.getObjValAs? Bool "neg"
  let num ← j.getObjValAs? String "num"
  let den ← j.getObjValAs? String "den"
  match num.toNat?, den.toNat? with
  | some n, some d => pure (Json.mkObj [("text", txt (fmt2f { neg := neg, num := n, den := d }))])
  | _, _ => throw "bad number"

def domain_ (j : Json) : R Json := do
  let q := getQuirks j
  let fv ← parseFVals j
  let c ← parseCirc j
  pure (Json.mkObj [
    ("wellNamed", toJson (wellNamed c)),
    ("paramsPlain", toJson (paramsPlain c.gates)),
    ("qasmExportable", toJson (c.gates.all fun g => qasmExportable g.cls)),
    ("wf", toJson (c.gates.all fun g => gateWF fv c.numQubits g)),
    ("readable", toJson (qasmReadable q fv c)),
    ("nodup", toJson (decide (qasmFormals q c).Nodup))])

def handle (op : String) (j : Json) : Option (Except String Json) :=
  match op with
  | "c13.export" => some (export_ j)
  | "c13.parse" => some (parse_ j)
  | "c13.fmt2f" => some (fmt_ j)
  | "c13.domain" => some (domain_ j)
  | _ => none

end QV.Drive.C13
