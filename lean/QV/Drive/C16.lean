import QV.Drive.Util
import QV.Drive.CircJson
import QV.Drive.C09
import QV.Model.Algo
import QV.Model.Codec
/-! JSON handlers for C16 (`c16.*`). -/
namespace QV.Drive.C16
open Lean QV QV.Types QV.Amp QV.Algo QV.Drive

/-- `c16.gates`: gate list and output qubits of one algorithm object -/
def gatesOp (j : Json) : R Json := do
  let algo ← j.getObjValAs? String "algo"
  let n ← j.getObjValAs? Nat "n"
  let ret : Nat := (j.getObjValAs? Nat "ret").toOption.getD 0
  let oracle ← parseGates (← j.getObjVal? "oracle")
  let gs ← match algo with
    | "dj" => pure (djGates n ret oracle)
    | "bv" => pure (bvGates n ret oracle)
    | "simon" => pure (simonGates n oracle)
    | a => throw s!"bad algo {a}"
  pure (Json.mkObj [("gates", gatesJ gs), ("output_qubits", toJson (outputQubits n))])

/-- `c16.amps`: integer amplitudes (times `2^{h/2}`) of a gate list run on `|0…0⟩`, indexed
like a state vector (bit `k` of the index = qubit `k`) -/
def ampsOp (j : Json) : R Json := do
  let nq ← j.getObjValAs? Nat "nq"
  let gs ← parseGates (← j.getObjVal? "gates")
  let ok := gs.all supported
  let amps : List Int := if ok then table nq (run gs ket0) else []
  pure (Json.mkObj [("supported", toJson ok), ("h", toJson (hCount gs)), ("amps", toJson amps)])

/-- `c16.classical`: `runClassical` of a gate list on each given basis state -/
def classicalOp (j : Json) : R Json := do
  let gs ← parseGates (← j.getObjVal? "gates")
  let ins ← j.getObjValAs? (List String) "states"
  let outs := ins.map (fun s => bitsToString (runClassical gs (stringToBits s)))
  pure (Json.mkObj [("all_classical", toJson (allClassical gs)), ("out", toJson outs)])

def djOutJ : DJOut → Json
  | .constant => Json.str "Constant"
  | .balanced => Json.str "Balanced"
  | .error => Json.str "error"

/-- `c16.decode`: `decode_output(istr)` of the algorithm -/
def decodeOp (j : Json) : R Json := do
  let algo ← j.getObjValAs? String "algo"
  let ty ← QV.Drive.C09.parseTy (← j.getObjVal? "ty")
  let n ← j.getObjValAs? Nat "n"
  let q := getQuirks j
  -- an `int` reading: `format_outcome(out: int, out_len)` = the digits of `bin(out)`, right-padded like a string
  -- (quirk `formatOutcomeIntPadRight`, the code as it is); repaired: zero-filled on the left to `out_len` first
  let istr ← match j.getObjValAs? Nat "int" with
    | .ok v => pure (if q.formatOutcomeIntPadRight then QV.Codec.formatOutcomeInt v
                     else (QV.Codec.zfill n (binDigits v)).map (· == '1'))
    | .error _ => getBits j "istr"
  match algo with
  | "dj" => pure (Json.mkObj [("out", djOutJ (djDecode q ty n istr)), ("trigger", toJson (djDecodeTriggers ty))])
  | _ => pure (Json.mkObj [("out", QV.Drive.C09.valJ (argDecode ty n istr))])

def handle (op : String) (j : Json) : Option (R Json) :=
  match op with
  | "c16.gates" => some (gatesOp j)
  | "c16.amps" => some (ampsOp j)
  | "c16.classical" => some (classicalOp j)
  | "c16.decode" => some (decodeOp j)
  | _ => none

end QV.Drive.C16
