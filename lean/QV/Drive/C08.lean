import QV.Drive.Util
import QV.Model.Bind
import QV.Model.BindAnn
/-! JSON handlers for C08 (`c08.*`): `bind` on program headers, `Sem` in both value algebras. -/
namespace QV.Drive.C08
open Lean QV QV.Bind QV.Drive

partial def parseTy (j : Json) : R Ty := do
  match j with
  | .str "bool" => pure .bool
  | .arr a =>
    match a.toList with
    | [.str "qint", w] => pure (.qint (← fromJson? w))
    | [.str "tuple", .arr l] => pure (.tuple (← l.toList.mapM parseTy))
    | [.str "other", .str s] => pure (.other s)
    | _ => throw s!"bad ty {j.compress}"
  | _ => throw s!"bad ty {j.compress}"

partial def tyJ : Ty → Json
  | .bool => "bool"
  | .qint w => Json.arr #["qint", toJson w]
  | .tuple l => Json.arr #["tuple", Json.arr (l.map tyJ).toArray]
  | .other s => Json.arr #["other", Json.str s]

def parseHead (j : Json) : R Head := do
  match j with
  | .arr a =>
    match a.toList with
    | [.str "name", .str s] => pure (.name s)
    | [.str "attr", .str s] => pure (.attr s)
    | [.str "other"] => pure .other
    | _ => throw s!"bad head {j.compress}"
  | _ => throw s!"bad head {j.compress}"

def parseAnn (j : Json) : R Ann := do
  match j with
  | .null => pure .none
  | .arr a =>
    match a.toList with
    | [.str "sub", h, t] => pure (.sub (← parseHead h) (← parseTy t))
    | [.str "bare", h] => pure (.bare (← parseHead h))
    | _ => throw s!"bad ann {j.compress}"
  | _ => throw s!"bad ann {j.compress}"

def parseAtom (j : Json) : R Atom := do
  match j with
  | .arr a =>
    match a.toList with
    | [.str "b", .bool v] => pure (.b v)
    | [.str "i", v] => pure (.i (← fromJson? v))
    | [.str "s", .str v] => pure (.s v)
    | _ => throw s!"bad atom {j.compress}"
  | _ => throw s!"bad atom {j.compress}"

def atomJ : Atom → Json
  | .b v => Json.arr #["b", toJson v]
  | .i v => Json.arr #["i", toJson v]
  | .s v => Json.arr #["s", toJson v]

partial def parsePyVal (j : Json) : R PyVal := do
  match j with
  | .arr a =>
    match a.toList with
    | [.str "atom", x] => pure (.atom (← parseAtom x))
    | [.str "iter", .arr l] => pure (.iter (← l.toList.mapM parsePyVal))
    | _ => throw s!"bad pyval {j.compress}"
  | _ => throw s!"bad pyval {j.compress}"

def parseUn : String → R UnOp
  | "not" => pure .not
  | "inv" => pure .inv
  | s => throw s!"bad unop {s}"

def parseBin : String → R BinOp
  | "add" => pure .add | "sub" => pure .sub | "band" => pure .band | "bor" => pure .bor
  | "bxor" => pure .bxor | "shl" => pure .shl | "shr" => pure .shr
  | "eq" => pure .eq | "ne" => pure .ne | "lt" => pure .lt | "le" => pure .le
  | "gt" => pure .gt | "ge" => pure .ge | "and" => pure .and | "or" => pure .or
  | s => throw s!"bad binop {s}"

partial def parseExp (j : Json) : R Exp := do
  match j with
  | .arr a =>
    match a.toList with
    | [.str "const", x] => pure (.const (← parseAtom x))
    | [.str "tuple", .arr l] => pure (.tuple (← l.toList.mapM parseExp))
    | [.str "var", .str n] => pure (.var n)
    | [.str "un", .str op, e] => pure (.un (← parseUn op) (← parseExp e))
    | [.str "bin", .str op, l, r] => pure (.bin (← parseBin op) (← parseExp l) (← parseExp r))
    | [.str "ite", c, t, e] => pure (.ite (← parseExp c) (← parseExp t) (← parseExp e))
    | [.str "idx", e, i] => pure (.idx (← parseExp e) (← fromJson? i))
    | _ => throw s!"bad exp {j.compress}"
  | _ => throw s!"bad exp {j.compress}"

partial def expJ : Exp → Json
  | .const a => Json.arr #["const", atomJ a]
  | .tuple l => Json.arr #["tuple", Json.arr (l.map expJ).toArray]
  | .var n => Json.arr #["var", Json.str n]
  | .un _ e => Json.arr #["un", expJ e]
  | .bin _ l r => Json.arr #["bin", expJ l, expJ r]
  | .ite c t e => Json.arr #["ite", expJ c, expJ t, expJ e]
  | .idx e i => Json.arr #["idx", expJ e, toJson i]

def parseProg (j : Json) : R Prog := do
  let name ← j.getObjValAs? String "name"
  let argsJ ← j.getObjValAs? (List Json) "args"
  let args ← argsJ.mapM fun a => do
    pure (⟨← a.getObjValAs? String "name", ← parseAnn (← a.getObjVal? "ann")⟩ : Arg)
  let bodyJ : List Json := (j.getObjValAs? (List Json) "body").toOption.getD []
  let body ← bodyJ.mapM fun s => do
    match s with
    | .arr a =>
      match a.toList with
      | [.str t, e] => pure (⟨t, none, ← parseExp e⟩ : Stmt)
      | _ => throw "bad stmt"
    | _ => throw "bad stmt"
  let ret ← match j.getObjVal? "ret" with
    | .ok r => parseExp r
    | .error _ => pure (.const (.b false))
  pure ⟨name, args, body, ret⟩

def parseKv (j : Json) : R (List (String × PyVal)) := do
  let l ← j.getObjValAs? (List Json) "kv"
  l.mapM fun e => do
    match e with
    | .arr a =>
      match a.toList with
      | [.str k, v] => pure (k, ← parsePyVal v)
      | _ => throw "bad kv"
    | _ => throw "bad kv"

def optTyJ : Option Ty → Json
  | some t => tyJ t
  | none => Json.null

/-- `c08.bind`: parameters of the unbound object, and the header of the bound program or the error -/
def bindOp (j : Json) : R Json := do
  let q := getQuirks j
  let p ← parseProg (← j.getObjVal? "prog")
  let kv ← parseKv j
  let params := Json.arr (p.parameters.map (fun (n, t) => Json.arr #[Json.str n, optTyJ t])).toArray
  let res := match bind q p kv with
    | .error .lengthMismatch => Json.mkObj [("error", "Parameter length mismatch")]
    | .error (.unknown k) => Json.mkObj [("error", Json.str s!"Unknown parameter {k}")]
    | .ok p' => Json.mkObj [
        ("args", toJson (p'.args.map (·.name))),
        ("injected", Json.arr ((p'.body.take kv.length).map
            (fun s => Json.arr #[Json.str s.target, optTyJ s.ty, expJ s.value])).toArray),
        ("body_len", toJson p'.body.length),
        ("still_unbound", toJson p'.isUnbound)]
  pure (Json.mkObj [("unbound", toJson p.isUnbound), ("parameters", params), ("bind", res),
    ("detectors_agree", toJson (p.args.all fun a => isParamBind a.ann == isParamFrom a.ann))])

/-! values -/

partial def parsePV (j : Json) : R PV := do
  match j with
  | .bool v => pure (.b v)
  | .str s => pure (.s s)
  | .arr a => pure (.tup (← a.toList.mapM parsePV))
  | .num _ => pure (.i (← fromJson? j))
  | _ => throw s!"bad python value {j.compress}"

partial def pvJ : PV → Json
  | .b v => toJson v
  | .i v => toJson v
  | .s v => toJson v
  | .tup l => Json.arr (l.map pvJ).toArray

partial def parseWV (j : Json) : R WV := do
  match j with
  | .bool v => pure (.b v)
  | .str s => pure (.q (stringToBits s))
  | .arr a => pure (.tup (← a.toList.mapM parseWV))
  | _ => throw s!"bad width value {j.compress}"

partial def wvJ : WV → Json
  | .b v => toJson v
  | .q l => bitsJ l
  | .tup l => Json.arr (l.map wvJ).toArray

def optJ {α : Type} (f : α → Json) : Option α → Json
  | some x => f x
  | none => Json.null

/-- `c08.eval`: for each row of remaining arguments, the value of the bound program (`bind q`),
    of the specification at the declared types, and of the specification with untyped constants.
    `alg = "py"`: Python values; `alg = "w"`: width-aware values, the result filled / cropped to
    `rty` as `return` does. -/
def evalOp (j : Json) : R Json := do
  let q := getQuirks j
  let p ← parseProg (← j.getObjVal? "prog")
  let kv ← parseKv j
  let alg ← j.getObjValAs? String "alg"
  let rowsJ ← j.getObjValAs? (List (List Json)) "rows"
  match bind q p kv with
  | .error _ => pure (Json.mkObj [("error", "bind")])
  | .ok p' =>
    if alg == "py" then
      let rows ← rowsJ.mapM (fun r => r.mapM parsePV)
      pure (Json.mkObj [
        ("bound", Json.arr (rows.map (fun xs => optJ pvJ (Sem PyAlg p' xs))).toArray),
        ("spec", Json.arr (rows.map (fun xs => optJ pvJ (specialised PyAlg p.keptTy p kv xs))).toArray)])
    else
      let rty ← parseTy (← j.getObjVal? "rty")
      let rows ← rowsJ.mapM (fun r => r.mapM parseWV)
      let fin : Option WV → Json := fun v => optJ wvJ (v.bind (wRet rty))
      pure (Json.mkObj [
        ("bound", Json.arr (rows.map (fun xs => fin (Sem (WAlg q) p' xs))).toArray),
        ("spec", Json.arr (rows.map (fun xs => fin (specialised (WAlg q) p.keptTy p kv xs))).toArray),
        ("spec_untyped", Json.arr (rows.map
            (fun xs => fin (specialised (WAlg q) (fun _ _ => none) p kv xs))).toArray)])

/-- `c08.toval`: the AST `to_val` builds for a keyword value -/
def tovalOp (j : Json) : R Json := do
  let v ← parsePyVal (← j.getObjVal? "value")
  pure (Json.mkObj [("ast", expJ (toVal v))])

/-- annotation as written: `["name", id]`, `["sub", id, [elts]]`, `["int", v]`, `["other"]` -/
partial def parseAnnE (j : Json) : R AnnE := do
  match j with
  | .arr a =>
    match a.toList with
    | [.str "name", .str s] => pure (.name s)
    | [.str "sub", .str s, .arr l] => pure (.sub s (← l.toList.mapM parseAnnE))
    | [.str "int", v] => pure (.int (← fromJson? v))
    | [.str "other"] => pure .other
    | _ => throw s!"bad annotation {j.compress}"
  | _ => throw s!"bad annotation {j.compress}"

/-- `c08.isvalueof`: `is_value_of(ann, w)` on the annotation as written, for a list of `[ann, value]` cases -/
def isValueOfOp (j : Json) : R Json := do
  let cases ← j.getObjValAs? (List Json) "cases"
  let out ← cases.mapM fun c => do
    match c with
    | .arr a =>
      match a.toList with
      | [ann, v] => pure (toJson (isValueOfAnn (← parseAnnE ann) (← parsePyVal v)))
      | _ => throw "bad case"
    | _ => throw "bad case"
  pure (Json.mkObj [("value_of", Json.arr out.toArray)])

/-- `c08.readable`: can the translator read these declared types (annotations as written), under the given quirks -/
def readableOp (j : Json) : R Json := do
  let q := getQuirks j
  let anns ← j.getObjValAs? (List Json) "anns"
  let out ← anns.mapM fun a => do pure (toJson ((← parseAnnE a).readable q))
  pure (Json.mkObj [("readable", Json.arr out.toArray)])

def handle (op : String) (j : Json) : Option (R Json) :=
  match op with
  | "c08.isvalueof" => some (isValueOfOp j)
  | "c08.readable" => some (readableOp j)
  | "c08.bind" => some (bindOp j)
  | "c08.eval" => some (evalOp j)
  | "c08.toval" => some (tovalOp j)
  | _ => none

end QV.Drive.C08
