import Lean.Data.Json
import QV.Base.Bits
import QV.Base.Quirks
/-! JSON helpers shared by the per-property driver handlers. -/
namespace QV.Drive
open Lean

abbrev R := Except String

def getQuirks (j : Json) : Quirks :=
  match j.getObjValAs? (List String) "quirks" with
  | .ok l => Quirks.ofList l
  | .error _ => Quirks.none

def bitsJ (l : List Bool) : Json := Json.str (bitsToString l)

def getBits (j : Json) (k : String) : R (List Bool) := do
  let s ← j.getObjValAs? String k
  pure (stringToBits s)

def optNatJ : Option Nat → Json
  | some n => toJson n
  | none => Json.null

end QV.Drive
