import Std.Data.HashMap
import QV.Drive.Util
import QV.Model.Front
import QV.Model.ArithStaged
import QV.Model.Sem
import QV.Model.SemX
import QV.Model.SemT
import QV.Model.SemXT
/-! JSON handlers of C01: `c01.translate` (a whole program, as `ast2ast` leaves it, to the truth
table of its return bits) and `c01.arith` (one library function on symbolic / constant operands). -/
namespace QV.Drive.C01
open Lean QV QV.Arith QV.Front QV.Drive

partial def parseTy (j : Json) : R Ty := do
  let a ← j.getArr?
  match ← a[0]!.getStr? with
  | "bool" => pure .bool
  | "qint" => return .qint (← a[1]!.getNat?)
  | "qchar" => pure .qchar
  | "tuple" => return .tuple (← (a.toList.drop 1).mapM parseTy)
  | t => throw s!"bad ty {t}"

partial def parseP (j : Json) : R PExp := do
  let a ← j.getArr?
  let rest := a.toList.drop 1
  match ← a[0]!.getStr? with
  | "name" => return .name (← a[1]!.getStr?)
  | "cb" => return .cbool (← a[1]!.getBool?)
  | "ci" => return .cint (← a[1]!.getInt?)
  | "cc" => return .cchar (← a[1]!.getNat?)
  | "subs" => return .subs (← a[1]!.getStr?) (← (← a[2]!.getArr?).toList.mapM (·.getInt?))
  | "boolop" => return .boolop ((← a[1]!.getStr?) == "and") (← (rest.drop 1).mapM parseP)
  | "not" => return .not (← parseP a[1]!)
  | "inv" => return .inv (← parseP a[1]!)
  | "ite" => return .ite (← parseP a[1]!) (← parseP a[2]!) (← parseP a[3]!)
  | "cmp" => return .cmp (← a[1]!.getStr?) (← parseP a[2]!) (← parseP a[3]!)
  | "bin" => return .bin (← a[1]!.getStr?) (← parseP a[2]!) (← parseP a[3]!)
  | "tuple" => return .tuple (← rest.mapM parseP)
  | "unsupported" => return .unsupported (← a[1]!.getStr?)
  | t => throw s!"bad pexp tag {t}"

def parseStmt (j : Json) : R Stmt := do
  let a ← j.getArr?
  match ← a[0]!.getStr? with
  | "assign" => return .assign (← a[1]!.getStr?) (← parseP a[2]!)
  | "ret" => return .ret (← parseP a[1]!)
  | "expr" => return .expr (← parseP a[1]!)
  | "unsupported" => return .unsupported (← a[1]!.getStr?)
  | t => throw s!"bad stmt tag {t}"

def parseConsts (j : Json) : List (Bool × Bool) :=
  match j.getObjVal? "consts" with
  | .ok (.arr a) => a.toList.filterMap fun p =>
      match p with
      | .arr #[.bool x, .bool y] => some (x, y)
      | _ => none
  | _ => []

/-- symbols a definition list reads that are neither inputs nor defined earlier -/
def freeOf (inputs : List String) (defs : List (String × BExp)) : List String := Id.run do
  let mut known := inputs
  let mut free : List String := []
  for (n, e) in defs do
    for s in e.syms do
      if !known.contains s && !free.contains s then free := free ++ [s]
    known := n :: known
  return free

def strsJ (l : List String) : Json := Json.arr (l.map Json.str).toArray

/-- the rows a request asks for: the field `rows` (a list of row numbers `k`: argument bit `i` = bit `i` of `k`;
programs over `Qint[12]` / `Qint[16]` arguments have up to `2^32` and more rows and are evaluated on sampled
ones) or, without it, every row `0 … 2^n - 1` -/
def rowsOf (j : Json) (n : Nat) : List Nat :=
  match j.getObjVal? "rows" with
  | .ok (.arr a) => a.toList.filterMap fun x => x.getNat?.toOption
  | _ => List.range (2 ^ n)

/-- The table `QV.Front.retTable` gives (row k: argument bit i = bit i of k; the definitions run in
order; one character per return bit; an unbound symbol reads `false`), computed with the environment
kept as a hash map of Booleans already evaluated.  `QV.Front.runDefs` - the function the theorems speak
of - represents the environment as one closure per definition; its compiled form was measured to
take time growing far faster than the length of the list (0.7 s for 56 definitions, 57 s for the 145 of
a three-times unrolled if / elif; apparently a lookup through the closure chain evaluates the
definitions it passes again).  Same function, each definition evaluated once per row. -/
def retTableFast (argBits retBits : List String) (defs : List (String × BExp))
    (ks : List Nat := List.range (2 ^ argBits.length)) : String := Id.run do
  let mut out := ""
  for k in ks do
    let mut env : Std.HashMap String Bool := {}
    let mut i := 0
    for a in argBits do
      -- `assignment` takes the first index of a name
      if !env.contains a then env := env.insert a (k.testBit i)
      i := i + 1
    for (n, e) in defs do
      let cur := env
      let v := e.eval (fun x => (cur.get? x).getD false)
      env := env.insert n v
    for r in retBits do
      out := out.push (if (env.get? r).getD false then '1' else '0')
  return out

def translateOp (j : Json) : R Json := do
  let q := getQuirks j
  let args ← (← (← j.getObjVal? "args").getArr?).toList.mapM fun e => do
    let p ← e.getArr?
    return (← p[0]!.getStr?, ← parseTy p[1]!)
  let ret ← parseTy (← j.getObjVal? "ret")
  let body ← (← (← j.getObjVal? "body").getArr?).toList.mapM parseStmt
  let argBits := args.flatMap fun (n, t) => t.names n
  let retBits := ret.names "_ret"
  match translate q (parseConsts j) ⟨args, ret, body⟩ with
  | .error e => pure (Json.mkObj [("error", Json.str e)])
  | .ok (defs, events) =>
    let withTable := (j.getObjValAs? Bool "table").toOption.getD true
    let sampled := (j.getObjVal? "rows").toOption.isSome
    let ks := rowsOf j argBits.length
    let table := if withTable then retTableFast argBits retBits defs ks else ""
    -- tie of the fast evaluator to the function the theorems speak of, on every short definition list
    if withTable && !sampled && defs.length ≤ 48 && table != retTable argBits retBits defs then
      throw "retTableFast differs from QV.Front.retTable on this definition list"
    if withTable && sampled && defs.length ≤ 48 then
      let viaRunDefs := String.join (ks.map fun k =>
        let ρ := runDefs defs (assignment argBits k)
        String.ofList (retBits.map fun r => if ρ r then '1' else '0'))
      if table != viaRunDefs then
        throw "retTableFast differs from QV.Front.runDefs on the sampled rows of this definition list"
    -- `table = false` marks a program whose expressions are too large to walk as trees (a product of wide
    -- operands: the bits of the schoolbook product share their sub-expressions, a tree walk is exponential):
    -- then only acceptance, the bit names and the events are answered
    pure (Json.mkObj [
      ("argbits", strsJ argBits), ("retbits", strsJ retBits),
      ("defined", strsJ (defs.map (·.1))),
      ("free", if withTable then strsJ (freeOf argBits defs) else Json.null),
      ("events", strsJ events),
      ("table", if withTable then Json.str table else Json.null)])

/-- operand of `c01.arith`: ["var", name, w], ["mvar", name, w, mask] or ["const", w, v] (QintImp.const of the
w-bit class) -/
def parseOperand (j : Json) : R (Nat × List BExp × List String) := do
  let a ← j.getArr?
  match ← a[0]!.getStr? with
  | "var" =>
    let n ← a[1]!.getStr?
    let w ← a[2]!.getNat?
    let names := (List.range w).map fun i => s!"{n}.{i}"
    pure (w, names.map .sym, names)
  | "mvar" =>
    -- a variable masked by a literal: the bits outside the mask are `False` (what `a & mask` translates to)
    let n ← a[1]!.getStr?
    let w ← a[2]!.getNat?
    let mask ← a[3]!.getNat?
    let names := (List.range w).map fun i => s!"{n}.{i}"
    pure (w, (List.range w).map fun i => if mask.testBit i then .sym s!"{n}.{i}" else .ff, names)
  | "const" =>
    let w ← a[1]!.getNat?
    let v ← a[2]!.getNat?
    pure (w, qintConst w v, [])
  | t => throw s!"bad operand {t}"

/-- one character per expression and row, rows `ks` (row `k`: `names[i]` = bit `i` of `k`) -/
def tableOn (names : List String) (ks : List Nat) (es : List BExp) : String := Id.run do
  let mut out := ""
  for k in ks do
    let ρ := assignment names k
    for e in es do
      out := out.push (if e.eval ρ then '1' else '0')
  return out

/-- the table of `qMul` on the rows `ks` through `QV.Arith.qMulLit` (the product evaluated row by row under the
assignment: `QV/Model/ArithStaged.lean`); also the number of result bits -/
def mulTableLit (names : List String) (ks : List Nat) (cl cr : Bool) (nl nr : Nat) (l r : List BExp) :
    Nat × String := Id.run do
  let mut out := ""
  let mut n := (qMulLit (fun _ => false) cl cr nl nr l r).2.length
  for k in ks do
    let ρ := assignment names k
    let bits := (qMulLit ρ cl cr nl nr l r).2
    n := bits.length
    for e in bits do
      out := out.push (if e.eval ρ then '1' else '0')
  return (n, out)

def arithOp (j : Json) : R Json := do
  let q := getQuirks j
  let fn ← j.getObjValAs? String "fn"
  let (nl, l, ln) ← parseOperand (← j.getObjVal? "l")
  let (nr, r, rn) ← parseOperand (← j.getObjVal? "r")
  let k := (j.getObjValAs? Nat "k").toOption.getD 0
  let names := ln ++ rn
  let sampled := (j.getObjVal? "rows").toOption.isSome
  let ks := rowsOf j names.length
  if fn == "mul" && !q.mulEvenConst then
    -- the product: evaluated row by row (the trees of a wide product cannot be walked); where they can
    -- (operands padded to at most 5 bits) both evaluations are computed and must agree
    let (n, table) := mulTableLit names ks (isConstBits l) (isConstBits r) nl nr l r
    if max l.length r.length ≤ 5 && max nl nr ≤ 5 then
      let viaTrees := tableOn names ks (qMul q (isConstBits l) (isConstBits r) nl nr l r).2
      if viaTrees != table then
        throw "qMulLit (row-by-row evaluation) differs from the expressions of qMul on this request"
    return Json.mkObj [("n", toJson n), ("names", strsJ names), ("table", Json.str table),
                       ("staged", Json.bool true)]
  let out : List BExp ← match fn with
    | "eq" => pure [qEq l r] | "neq" => pure [qNeq l r]
    | "gt" => pure [qGt q l r] | "lt" => pure [qLt q l r]
    | "lte" => pure [qLte q l r] | "gte" => pure [qGte q l r]
    | "add" => pure (qAdd l r) | "sub" => pure (qSub q nl l r)
    | "mul" => pure (qMul q (isConstBits l) (isConstBits r) nl nr l r).2
    | "mod" => pure (qMod q nr l r)
    | "xor" => pure (bitwiseGeneric opXor l r) | "and" => pure (bitwiseGeneric opAnd l r)
    | "or" => pure (bitwiseGeneric opOr l r)
    | "shl" => pure (shiftLeft nl l k) | "shr" => pure (shiftRight nl l k)
    | "not" => pure (bitwiseNot l)
    | "fill" => pure (fill k l) | "crop" => pure (crop k l)
    | f => throw s!"bad fn {f}"
  pure (Json.mkObj [("n", toJson out.length), ("names", strsJ names),
                    ("table", Json.str (if sampled then tableOn names ks out else truthTable names out))])

/-- `c01.semw`: the Lean reference semantics `QV.Sem.semProgT` (the widening of `QV.Sem.semProg` to tuples and
`Qchar`) of a program on every assignment of its argument bits: one string of return bits per row, `null`
where it gives no meaning -/
def semwOp (j : Json) : R Json := do
  let args ← (← (← j.getObjVal? "args").getArr?).toList.mapM fun e => do
    let p ← e.getArr?
    return (← p[0]!.getStr?, ← parseTy p[1]!)
  let ret ← parseTy (← j.getObjVal? "ret")
  let body ← (← (← j.getObjVal? "body").getArr?).toList.mapM parseStmt
  let argBits := args.flatMap fun (n, t) => t.names n
  let prog : Prog := ⟨args, ret, body⟩
  -- the widened semantics `SemT` (QV/Model/SemT.lean: tuples, Qchar); it extends `SemW` (theorem
  -- `semProgT_extends_semProg`), which is re-checked here on every row where `SemW` gives a meaning
  let mut rowsL : Array Json := #[]
  let mut wDefined := 0
  let mut wellAll := true
  let ks := rowsOf j argBits.length
  for k in ks do
    let ρ := assignment argBits k
    let tv := QV.Sem.semProgT prog ρ
    match QV.Sem.semProg prog ρ with
    | some v =>
      wDefined := wDefined + 1
      match tv with
      | some t =>
        if t.bits != v.bits then throw s!"SemT differs from SemW on row {k}"
      | none => throw s!"SemT undefined where SemW is defined (row {k})"
    | none => pure ()
    if !(QV.Sem.wellProg prog ρ) then wellAll := false
    rowsL := rowsL.push (match tv with
      | some v => Json.str v.bitString
      | none => Json.null)
  let rows := rowsL
  -- the exact semantics `Sem`, widened (QV/Model/SemXT.lean; it is `QV/Model/SemX.lean` on bool / Qint programs,
  -- re-checked here on every row): per row `[python value, k, claimed bits, inRange]` (`k = null`: in range;
  -- claimed bits as a string over 0 / 1 / ?; value and k are `null` for a Qchar / tuple return, whose claims
  -- are per leaf), `null` where `Sem` gives no meaning
  let claimStr (l : List (Option Bool)) : String := String.ofList (l.map fun c => match c with
    | none => '?'
    | some b => bitChar b)
  let mut exactL : Array Json := #[]
  for k in ks do
    let ρ := assignment argBits k
    let xt := QV.Sem.semProgXT prog ρ
    match QV.Sem.semProgX prog ρ with
    | some xv =>
      match xt with
      | some (.leaf xv') =>
        if xv' != xv then throw s!"SemXT differs from SemX on row {k}"
      | _ => throw s!"SemXT undefined or not a leaf where SemX is defined (row {k})"
      if QV.Sem.inRangeProg prog ρ != QV.Sem.inRangeProgT prog ρ then throw s!"inRange differs on row {k}"
    | none => pure ()
    exactL := exactL.push (match xt with
      | some (.leaf xv) =>
        let x : Json := match xv.v with
          | .bool b => toJson (if b then (1 : Int) else 0)
          | .int _ x => toJson x
        let kk : Json := match xv.k with
          | none => Json.null
          | some n => toJson n
        Json.arr #[x, kk, Json.str (claimStr xv.claim), Json.bool (QV.Sem.inRangeProgT prog ρ)]
      | some v => Json.arr #[Json.null, Json.null, Json.str (claimStr v.claim), Json.bool (QV.Sem.inRangeProgT prog ρ)]
      | none => Json.null)
  let exact := exactL
  pure (Json.mkObj [("argbits", strsJ argBits), ("rows", Json.arr rows),
                    ("exact", Json.arr exact),
                    -- rows on which the bool / Qint semantics `SemW` alone gives a meaning; the hypotheses of
                    -- `C01_body_struct` (`structLine`, `wellProg` on every row) and of `C01_body` (`straightLine`)
                    ("semw_rows_defined", toJson wDefined),
                    ("struct_line", Json.bool (QV.Sem.structLine prog)),
                    ("straight_line", Json.bool (QV.Sem.straightLine prog)),
                    ("well", Json.bool wellAll)])

def handle (op : String) (j : Json) : Option (Except String Json) :=
  match op with
  | "c01.translate" => some (translateOp j)
  | "c01.semw" => some (semwOp j)
  | "c01.arith" => some (arithOp j)
  | _ => none

end QV.Drive.C01
