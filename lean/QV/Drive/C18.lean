import QV.Drive.Util
import QV.Drive.BExpJson
import QV.Drive.C09
import QV.Model.Bqm
/-! JSON handlers for C18 (`qlasskit/bqm.py`): ops `c18.tobqm`, `c18.retvals`, `c18.decode`. -/
namespace QV.Drive.C18
open Lean QV QV.Bqm QV.Types QV.Drive

partial def pexpJ : PExp → Json
  | .num n => Json.arr #[Json.str "num", toJson n]
  | .bin l => Json.arr #[Json.str "bin", Json.str l]
  | .not a => Json.arr #[Json.str "not", pexpJ a]
  | .and a b => Json.arr #[Json.str "and", pexpJ a, pexpJ b]
  | .or a b => Json.arr #[Json.str "or", pexpJ a, pexpJ b]
  | .xor a b => Json.arr #[Json.str "xor", pexpJ a, pexpJ b]
  | .notConst a b l => Json.arr #[Json.str "notc", pexpJ a, pexpJ b, Json.str l]
  | .andConst a b c l => Json.arr #[Json.str "andc", pexpJ a, pexpJ b, pexpJ c, Json.str l]
  | .orConst a b c l => Json.arr #[Json.str "orc", pexpJ a, pexpJ b, pexpJ c, Json.str l]
  | .xorConst a b c l => Json.arr #[Json.str "xorc", pexpJ a, pexpJ b, pexpJ c, Json.str l]
  | .add a b => Json.arr #[Json.str "add", pexpJ a, pexpJ b]

def parseDefs (j : Json) : R (List (String × BExp)) := do
  let a ← j.getArr?
  a.toList.mapM fun d => do
    let p ← d.getArr?
    let s ← p[0]!.getStr?
    let e ← parseBExp p[1]!
    pure (s, e)

def dedup (l : List String) : List String :=
  l.foldl (fun acc x => if acc.contains x then acc else acc ++ [x]) []

/-- `c18.tobqm`: `to_bqm` on already merged expressions.  Reply: the tree (or the exception
class), its variables, and - when `names` is given - the energy of every assignment of
`names` (name i = bit i of the row number). -/
def toBqmOp (j : Json) : R Json := do
  let q := getQuirks j
  let argBits ← j.getObjValAs? (List String) "argbits"
  let merged ← parseDefs (← j.getObjVal? "merged")
  let fmt ← j.getObjValAs? String "fmt"
  match toBqmMerged q argBits merged fmt with
  | .error m => pure (Json.mkObj [("error", Json.str m)])
  | .ok p =>
    let names : List String := (j.getObjValAs? (List String) "names").toOption.getD []
    let en : List Int :=
      if names.isEmpty && !(p.vars.isEmpty) then []
      else (List.range (2 ^ names.length)).map fun k => energy p (assignment names k)
    pure (Json.mkObj [("tree", pexpJ p), ("vars", toJson (dedup p.vars)), ("energies", toJson en)])

/-- `c18.retvals`: number of true return bits of the *unmerged* expression list on every
assignment of `names`, and the same through `merge id` (inlining without simplification) -/
def retValsOp (j : Json) : R Json := do
  let exprs ← parseDefs (← j.getObjVal? "exprs")
  let names ← j.getObjValAs? (List String) "names"
  let rows := List.range (2 ^ names.length)
  let direct := rows.map fun k => countTrue (retVals (assignment names k) exprs)
  let merged := merge id exprs
  let viaMerge := rows.map fun k => countTrue (merged.map fun se => se.2.eval (assignment names k))
  pure (Json.mkObj [("counts", toJson direct), ("counts_merged", toJson viaMerge),
    ("merged_names", toJson (merged.map (·.1)))])

def parseArg (j : Json) : R Arg := do
  let name ← j.getObjValAs? String "name"
  let ty ← C09.parseTy (← j.getObjVal? "ty")
  let bv ← j.getObjValAs? (List String) "bitvec"
  pure { name := name, ty := ty, bitvec := bv }

def parseSample (j : Json) : R (List (String × Bool)) := do
  let a ← j.getArr?
  a.toList.mapM fun d => do
    let p ← d.getArr?
    let s ← p[0]!.getStr?
    let v ← p[1]!.getNat?
    pure (s, v != 0)

/-- `c18.decode`: `decode_samples` for one sample; `fill` = the values the code drew at random
for variables missing from the sample -/
def decodeOp (j : Json) : R Json := do
  let args ← (← (← j.getObjVal? "args").getArr?).toList.mapM parseArg
  let sample ← parseSample (← j.getObjVal? "sample")
  let fill ← parseSample (← j.getObjVal? "fill")
  let fillF : String → Bool := fun n => (sampleLookup fill n).getD false
  let out := decodeSample sample fillF args
  pure (Json.mkObj [("values", Json.arr (out.map fun nv =>
    Json.arr #[Json.str nv.1, C09.valJ nv.2]).toArray)])

def handle (op : String) (j : Json) : Option (R Json) :=
  match op with
  | "c18.tobqm" => some (toBqmOp j)
  | "c18.retvals" => some (retValsOp j)
  | "c18.decode" => some (decodeOp j)
  | _ => none

end QV.Drive.C18
