import QV.Drive.Util
import QV.Drive.BExpJson
import QV.Drive.CircJson
import QV.Model.Compiler
import QV.Model.CompilerClass
namespace QV.Drive.Comp
open Lean QV QV.Compiler QV.Drive

def parseDefs (j : Json) : R (List (String × BExp)) := do
  (← j.getArr?).toList.mapM fun p => do
    let a ← p.getArr?
    pure ((← a[0]!.getStr?), (← parseBExp a[1]!))

def qmapJ (m : List (String × Nat)) : Json :=
  Json.arr (m.map fun p => Json.arr #[Json.str p.1, toJson p.2]).toArray

def parseQmap (j : Json) : R (List (String × Nat)) := do
  (← j.getArr?).toList.mapM fun p => do
    let a ← p.getArr?
    pure ((← a[0]!.getStr?), (← a[1]!.getNat?))

/-- `comp.compile`: run the compiler model; with `"validate": true` also the three validators -/
def compileOp (j : Json) : R Json := do
  let inputs ← j.getObjValAs? (List String) "inputs"
  let defs ← parseDefs (← j.getObjVal? "exprs")
  let ret : Option (List String) := (j.getObjValAs? (List String) "ret").toOption
  let unc ← j.getObjValAs? Bool "uncompute"
  let choices ← j.getObjValAs? (List Nat) "choices"
  let doVal : Bool := (j.getObjValAs? Bool "validate").toOption.getD false
  match (compile inputs defs ret unc).run { choices := choices } with
  | .error e => pure (Json.mkObj [("error", Json.str e)])
  | .ok ((), s) =>
    let gs := s.qc.gates.toList
    let base : List (String × Json) := [
      ("gates", gatesJ gs), ("qmap", qmapJ s.qc.qmap), ("num_qubits", toJson s.qc.numQubits),
      ("anc", toJson s.qc.anc), ("free", toJson s.qc.free), ("choices_left", toJson s.choices.length),
      ("events", toJson s.events.eraseDups)]
    if !doVal then return Json.mkObj base
    let rets := ret.getD []
    let nIn := inputs.length
    let outs := rets.filterMap (dictGet? s.qc.qmap)
    let v := validate gs s.qc.numQubits s.qc.qmap inputs defs rets
    let c := validateClean gs s.qc.numQubits nIn outs
    let wf := wellFormed gs s.qc.numQubits
    let xorGen : Bool := match rets, outs with
      | [_], [q] => unc && inGeneralXor inputs defs rets && decide (nIn ≤ q) && retNeverControl gs q
      | _, _ => false
    let extra : List (String × Json) := [("valid", toJson v), ("clean", toJson c), ("wellformed", toJson wf),
      ("in_fragment", toJson (inAnyFragment inputs defs rets unc || inGeneralClass inputs defs rets)),
      ("in_general", toJson (inGeneralClass inputs defs rets)),
      ("in_general_only", toJson (inGeneralClass inputs defs rets && !(inAnyFragment inputs defs rets unc))),
      ("in_fragment_old", toJson (inFragment inputs defs rets)),
      ("in_fragment_const", toJson (inFragmentConst inputs defs rets)),
      ("in_fragment_multi", toJson (!unc && inFragmentMulti inputs defs rets)),
      ("in_fragment_named", toJson (!unc && inFragmentNamed inputs defs rets)),
      ("in_clean_fragment", toJson (unc && inGeneralCleanClass inputs defs rets)),
      ("in_clean_general", toJson (unc && inGeneralClean inputs defs rets)),
      ("in_clean_general_only", toJson (unc && inGeneralClean inputs defs rets && !inCleanFragment inputs defs rets)),
      ("in_xor_fragment", toJson ((unc && inXorFragment inputs defs rets) || xorGen)),
      ("in_xor_general", toJson xorGen),
      ("in_xor_general_only", toJson (xorGen && !inXorFragment inputs defs rets))]
    let xorPart : List (String × Json) :=
      match rets, outs with
      | [r], [q] =>
        let f : List Bool → Bool := fun x => envOf (evalDefs defs (inputs.zip x)) r
        [("xor", toJson (validateXor gs s.qc.numQubits nIn q f)), ("ret_never_control", toJson (retNeverControl gs q))]
      | _, _ => []
    pure (Json.mkObj (base ++ extra ++ xorPart))

/-- `comp.validate`: validators on a given gate list (e.g. the real compiler's) -/
def validateOp (j : Json) : R Json := do
  let gs ← parseGates (← j.getObjVal? "gates")
  let n ← j.getObjValAs? Nat "num_qubits"
  let qmap ← parseQmap (← j.getObjVal? "qmap")
  let inputs ← j.getObjValAs? (List String) "inputs"
  let defs ← parseDefs (← j.getObjVal? "exprs")
  let rets ← j.getObjValAs? (List String) "ret"
  let outs := rets.filterMap (dictGet? qmap)
  pure (Json.mkObj [("valid", toJson (validate gs n qmap inputs defs rets)),
    ("clean", toJson (validateClean gs n inputs.length outs)), ("wellformed", toJson (wellFormed gs n))])

/-- `comp.setorder`: the model of CPython's `list(set(l))` on its own (cross-checked by the harness) -/
def setOrderOp (j : Json) : R Json := do
  let ls ← j.getObjValAs? (List (List Nat)) "lists"
  pure (Json.mkObj [("orders", toJson (ls.map pySetOrder))])

def handle (op : String) (j : Json) : Option (R Json) :=
  match op with
  | "comp.setorder" => some (setOrderOp j)
  | "comp.compile" => some (compileOp j)
  | "comp.validate" => some (validateOp j)
  | _ => none

end QV.Drive.Comp
