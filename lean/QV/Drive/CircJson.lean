import Lean.Data.Json
import QV.Model.Circuit
/-! JSON form of gates: {"c":"MCX","n":3,"g":"X","w":[0,1,2,3],"p":null|"text"|{"qft":[neg,k]},"id":7} -/
namespace QV.Drive
open Lean QV

def parseParam (j : Json) : Except String Param :=
  match j with
  | .null => pure .none
  | .str s => pure (.lit s)
  | _ => do
    let a ← (← j.getObjVal? "qft").getArr?
    return .qft (← a[0]!.getBool?) (← a[1]!.getNat?)

def paramJ : Param → Json
  | .none => Json.null
  | .lit s => Json.str s
  | .qft neg k => Json.mkObj [("qft", Json.arr #[toJson neg, toJson k])]

def parseGate (j : Json) : Except String AGate := do
  let c ← j.getObjValAs? String "c"
  let n : Nat := (j.getObjValAs? Nat "n").toOption.getD 0
  let inner : String := (j.getObjValAs? String "g").toOption.getD ""
  let cls ← match c with
    | "I" => pure GClass.I | "X" => pure .X | "Y" => pure .Y | "Z" => pure .Z | "H" => pure .H
    | "S" => pure .S | "T" => pure .T | "P" => pure .P | "Swap" => pure .Swap | "CX" => pure .CX
    | "CZ" => pure .CZ | "CP" => pure .CP | "CCX" => pure .CCX | "MCX" => pure (.MCX n)
    | "MCtrl" => pure (.MCtrl inner n) | "Barrier" => pure .Barrier | "NopGate" => pure .Nop
    | k => throw s!"bad gate class {k}"
  let w ← j.getObjValAs? (List Nat) "w"
  let p ← match j.getObjVal? "p" with
    | .ok pj => parseParam pj
    | .error _ => pure Param.none
  let gid : Nat := (j.getObjValAs? Nat "id").toOption.getD 0
  pure { cls := cls, wires := w, param := p, gid := gid }

def gateJ (g : AGate) : Json :=
  let (c, n, inner) : String × Nat × String := match g.cls with
    | .I => ("I", 0, "") | .X => ("X", 0, "") | .Y => ("Y", 0, "") | .Z => ("Z", 0, "")
    | .H => ("H", 0, "") | .S => ("S", 0, "") | .T => ("T", 0, "") | .P => ("P", 0, "")
    | .Swap => ("Swap", 0, "") | .CX => ("CX", 0, "") | .CZ => ("CZ", 0, "") | .CP => ("CP", 0, "")
    | .CCX => ("CCX", 0, "") | .MCX n => ("MCX", n, "") | .MCtrl g n => ("MCtrl", n, g)
    | .Barrier => ("Barrier", 0, "") | .Nop => ("NopGate", 0, "")
  Json.mkObj [("c", Json.str c), ("n", toJson n), ("g", Json.str inner), ("w", toJson g.wires),
    ("p", paramJ g.param), ("id", toJson g.gid)]

def parseGates (j : Json) : Except String (List AGate) := do
  (← j.getArr?).toList.mapM parseGate

def gatesJ (gs : List AGate) : Json := Json.arr (gs.map gateJ).toArray

end QV.Drive
