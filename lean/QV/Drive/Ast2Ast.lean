import QV.Drive.Util
import QV.Model.Ast2Ast
import QV.Model.SemSrc
import QV.Model.Frag
import QV.Drive.C01
/-! JSON handler of `c01.ast2ast`: the source statement tree (CPython `ast`, before any pass) to the tree
the model of `qlasskit.ast2ast.ast2ast` produces, in the same serialisation the harness gives the tree
of the real pass (`harness/a2a.py`). -/
namespace QV.Drive.Ast2Ast
open Lean QV QV.A2A QV.Drive

partial def parseE (j : Json) : R SExp := do
  let a ← j.getArr?
  let rest := a.toList.drop 1
  match ← a[0]!.getStr? with
  | "name" => return .name (← a[1]!.getStr?)
  | "const" =>
    match ← a[1]!.getStr? with
    | "bool" => return .const (.bool (← a[2]!.getBool?))
    | "int" => return .const (.int (← a[2]!.getInt?))
    | "str" => return .const (.str (← a[2]!.getStr?))
    | _ => return .const (.other (← a[2]!.getStr?))
  | "sub" => return .sub (← parseE a[1]!) (← parseE a[2]!)
  | "boolop" => return .boolop ((← a[1]!.getStr?) == "and") (← (rest.drop 1).mapM parseE)
  | "unop" => return .unop (← a[1]!.getStr?) (← parseE a[2]!)
  | "ite" => return .ite (← parseE a[1]!) (← parseE a[2]!) (← parseE a[3]!)
  | "cmp" => return .cmp (← a[1]!.getStr?) (← parseE a[2]!) (← parseE a[3]!)
  | "bin" => return .bin (← a[1]!.getStr?) (← parseE a[2]!) (← parseE a[3]!)
  | "tuple" => return .tuple (← rest.mapM parseE)
  | "list" => return .list (← rest.mapM parseE)
  | "call" => return .call (← a[1]!.getStr?) (← (rest.drop 1).mapM parseE)
  | "other" => return .other (← a[1]!.getStr?)
  | t => throw s!"bad expression tag {t}"

def parseOptE (j : Json) : R (Option SExp) :=
  match j with
  | .null => pure none
  | j => do pure (some (← parseE j))

partial def parseS (j : Json) : R SStmt := do
  let a ← j.getArr?
  let lst (k : Json) : R (List SStmt) := do (← k.getArr?).toList.mapM parseS
  match ← a[0]!.getStr? with
  | "assign" => return .assign (← (← a[1]!.getArr?).toList.mapM parseE) (← parseE a[2]!)
  | "aug" => return .aug (← parseE a[1]!) (← a[2]!.getStr?) (← parseE a[3]!)
  | "ann" => return .ann (← parseE a[1]!) (← a[2]!.getStr?) (← parseOptE a[3]!)
  | "ret" => return .ret (← parseOptE a[1]!)
  | "expr" => return .expr (← parseE a[1]!)
  | "if" => return .ifs (← parseE a[1]!) (← lst a[2]!) (← lst a[3]!)
  | "for" => return .for_ (← parseE a[1]!) (← parseE a[2]!) (← lst a[3]!) (← lst a[4]!)
  | "other" => return .other (← a[1]!.getStr?)
  | t => throw s!"bad statement tag {t}"

def arr (l : List Json) : Json := Json.arr l.toArray

partial def eJ : SExp → Json
  | .name n => arr [Json.str "name", Json.str n]
  | .const (.bool b) => arr [Json.str "const", Json.str "bool", Json.bool b]
  | .const (.int v) => arr [Json.str "const", Json.str "int", toJson v]
  | .const (.str s) => arr [Json.str "const", Json.str "str", Json.str s]
  | .const (.other w) => arr [Json.str "const", Json.str "other", Json.str w]
  | .sub v i => arr [Json.str "sub", eJ v, eJ i]
  | .boolop a vs => arr ([Json.str "boolop", Json.str (if a then "and" else "or")] ++ vs.map eJ)
  | .unop op e => arr [Json.str "unop", Json.str op, eJ e]
  | .ite c t e => arr [Json.str "ite", eJ c, eJ t, eJ e]
  | .cmp op l r => arr [Json.str "cmp", Json.str op, eJ l, eJ r]
  | .bin op l r => arr [Json.str "bin", Json.str op, eJ l, eJ r]
  | .tuple es => arr (Json.str "tuple" :: es.map eJ)
  | .list es => arr (Json.str "list" :: es.map eJ)
  | .call fn args => arr ([Json.str "call", Json.str fn] ++ args.map eJ)
  | .other w => arr [Json.str "other", Json.str w]

def optEJ : Option SExp → Json
  | none => Json.null
  | some e => eJ e

partial def sJ : SStmt → Json
  | .assign ts v => arr [Json.str "assign", arr (ts.map eJ), eJ v]
  | .aug t op v => arr [Json.str "aug", eJ t, Json.str op, eJ v]
  | .ann t a v => arr [Json.str "ann", eJ t, Json.str a, optEJ v]
  | .ret v => arr [Json.str "ret", optEJ v]
  | .expr v => arr [Json.str "expr", eJ v]
  | .ifs c b e => arr [Json.str "if", eJ c, arr (b.map sJ), arr (e.map sJ)]
  | .for_ t it b e => arr [Json.str "for", eJ t, eJ it, arr (b.map sJ), arr (e.map sJ)]
  | .other w => arr [Json.str "other", Json.str w]

/-- `QV.Front.PExp` in the serialisation of `harness/c01.py: pexp` (`unsupported` without its text) -/
partial def pJ : Front.PExp → Json
  | .name n => arr [Json.str "name", Json.str n]
  | .cbool b => arr [Json.str "cb", Json.bool b]
  | .cint v => arr [Json.str "ci", toJson v]
  | .cchar c => arr [Json.str "cc", toJson c]
  | .subs n p => arr [Json.str "subs", Json.str n, arr (p.map toJson)]
  | .boolop a vs => arr ([Json.str "boolop", Json.str (if a then "and" else "or")] ++ vs.map pJ)
  | .not e => arr [Json.str "not", pJ e]
  | .inv e => arr [Json.str "inv", pJ e]
  | .ite c t e => arr [Json.str "ite", pJ c, pJ t, pJ e]
  | .cmp op l r => arr [Json.str "cmp", Json.str op, pJ l, pJ r]
  | .bin op l r => arr [Json.str "bin", Json.str op, pJ l, pJ r]
  | .tuple es => arr (Json.str "tuple" :: es.map pJ)
  | .unsupported _ => arr [Json.str "unsupported"]

def stmtJ : Front.Stmt → Json
  | .assign t v => arr [Json.str "assign", Json.str t, pJ v]
  | .ret v => arr [Json.str "ret", pJ v]
  | .expr v => arr [Json.str "expr", pJ v]
  | .unsupported _ => arr [Json.str "unsupported"]

/-- `c01.ast2ast`: `{args: [[name, annotation]…], body: [stmt…]}` →
`{body, front, rules}` | `{exception: [type, key]}` | `{outside: why}` -/
def ast2astOp (j : Json) : R Json := do
  let args ← (← (← j.getObjVal? "args").getArr?).toList.mapM fun e => do
    let p ← e.getArr?
    return (← p[0]!.getStr?, ← parseE p[1]!)
  let body ← (← (← j.getObjVal? "body").getArr?).toList.mapM parseS
  -- which theorems of QV/Props/C01.lean cover this program (typed arguments `targs` / `ret` when the harness has them)
  let typed : Option (List (String × Front.Ty) × Front.Ty) :=
    match j.getObjVal? "targs", j.getObjVal? "ret" with
    | .ok ta, .ok r =>
      match (do
        let l ← (← ta.getArr?).toList.mapM fun e => do
          let p ← e.getArr?
          return (← p[0]!.getStr?, ← QV.Drive.C01.parseTy p[1]!)
        let rt ← QV.Drive.C01.parseTy r
        pure (l, rt) : R _) with
      | .ok x => some x
      | .error _ => none
    | _, _ => none
  let retAnn ← (match j.getObjVal? "returns" with
    | .ok r => parseOptE r
    | .error _ => pure none)
  match ast2ast args retAnn body with
  | .ok (out, rules) =>
    let cls : List (String × Json) :=
      match typed with
      | none => []
      | some (targs, ret) =>
        let sp : SProg := ⟨targs, ret, body⟩
        let q : Front.Prog := ⟨targs, ret, out.map toStmt⟩
        -- the hypotheses of `C01_if` / `C01_for` other than acceptance by `translate`
        let stable := (match rejectReserved (args.map (·.1)) body with | .ok _ => true | .error _ => false)
          && (match foldSs body with | .ok b => b == body | .error _ => false)
          && (match mtSs body with | .ok b => b == body | .error _ => false)
          && (match (rwSs [] body).run (initSt (aargsOf sp)) with
              | .ok (l, _) => l == out && (match foldSs l with | .ok l' => l' == l | .error _ => false)
              | .error _ => false)
        [("class", Json.mkObj [
          ("okProg", Json.bool (okProg sp)),
          ("hasIf", Json.bool (hasIfs body)), ("hasFor", Json.bool (hasFors body)),
          ("stable", Json.bool stable),
          ("guardedLine", Json.bool (QV.Sem.guardedLine q)),
          ("straightLine", Json.bool (QV.Sem.straightLine q))])]
    pure (Json.mkObj ([("body", arr (out.map sJ)), ("front", arr (out.map fun s => stmtJ (toStmt s))),
      ("rules", arr (rules.map Json.str))] ++ cls))
  | .error (.exc ty key) => pure (Json.mkObj [("exception", arr [Json.str ty, Json.str key])])
  | .error (.outside why) => pure (Json.mkObj [("outside", Json.str why)])

/-- `c01.semsrc`: the source-level meaning `QV.A2A.execProg` (after the constant folding of the source,
`foldSs`: constant sub-expressions are python ints) on every assignment of the argument bits: one string of
return bits per row, `null` where it gives no meaning -/
def semsrcOp (j : Json) : R Json := do
  let args ← (← (← j.getObjVal? "args").getArr?).toList.mapM fun e => do
    let p ← e.getArr?
    return (← p[0]!.getStr?, ← QV.Drive.C01.parseTy p[1]!)
  let ret ← QV.Drive.C01.parseTy (← j.getObjVal? "ret")
  let body ← (← (← j.getObjVal? "body").getArr?).toList.mapM parseS
  let argBits := args.flatMap fun (n, t) => t.names n
  match foldSs body with
  | .error _ => pure (Json.mkObj [("rows", Json.null)])
  | .ok body1 =>
    let prog : SProg := ⟨args, ret, body1⟩
    let rows : List Json := (QV.Drive.C01.rowsOf j argBits.length).map fun k =>
      match execProg prog (assignment argBits k) with
      | some v => Json.str (bitsToString v.bits)
      | none => Json.null
    pure (Json.mkObj [("rows", Json.arr rows.toArray)])

def handle (op : String) (j : Json) : Option (Except String Json) :=
  match op with
  | "c01.ast2ast" => some (ast2astOp j)
  | "c01.semsrc" => some (semsrcOp j)
  | _ => none

end QV.Drive.Ast2Ast
