import QV.Drive.Util
import QV.Drive.CircJson
import QV.Drive.C09
import QV.Drive.BExpJson
import QV.Model.Grover
import QV.Model.CompilerClass
import QV.Drive.Comp
/-! JSON handlers for C15 (Grover): `c15.gates`, `c15.kdefault`, `c15.predict`, `c15.decode`, `c15.or2xor`,
`c15.oracle_class` (also used by C16). -/
namespace QV.Drive.C15
open Lean QV QV.Grover QV.Drive

/-- `c15.gates`: the constructor's gate list for `(n, oracle gates, nq, ret, k)` -/
def gatesOp (j : Json) : R Json := do
  let n ← j.getObjValAs? Nat "n"
  let og ← parseGates (← j.getObjVal? "og")
  let nq ← j.getObjValAs? Nat "nq"
  let ret ← j.getObjValAs? Nat "ret"
  let k ← j.getObjValAs? Nat "k"
  let q := getQuirks j
  pure (Json.mkObj [("gates", gatesJ (groverGates q n og nq ret k)),
    ("num_qubits", toJson (groverNumQubits n nq)),
    ("output_qubits", toJson (outputQubits n))])

/-- `c15.kdefault`: default iteration count from both rational bounds on π -/
def kdefaultOp (j : Json) : R Json := do
  let n ← j.getObjValAs? Nat "n"
  let m ← j.getObjValAs? Nat "M"
  pure (Json.mkObj [("k", optNatJ (kDefault n m)), ("k_lo", optNatJ (kDefaultWith piLo n m))])

/-- `c15.predict`: exact prediction `(ps, pn, d)` of the reduced recurrence -/
def predictOp (j : Json) : R Json := do
  let n ← j.getObjValAs? Nat "n"
  let m ← j.getObjValAs? Nat "M"
  let k ← j.getObjValAs? Nat "k"
  let (ps, pn, d) := predict n m k
  pure (Json.mkObj [("ps", toJson ps), ("pn", toJson pn), ("d", toJson d),
    ("ok", toJson (entryOk n m k))])

/-- `c15.decode`: `Grover.decode_output` of a measured string -/
def decodeOp (j : Json) : R Json := do
  let t ← C09.parseTy (← j.getObjVal? "ty")
  let out ← getBits j "out"
  pure (Json.mkObj [("value", C09.valJ (decodeOutput t out)), ("size", toJson t.size)])

/-- `c15.or2xor`: the modelled `transform_or2xor` step on one expression, plus the solution set of a
sequential definition list `defs = [[sym, expr], …]` (each through the step) over `names` -/
def or2xorOp (j : Json) : R Json := do
  let q := getQuirks j
  let e ← parseBExp (← j.getObjVal? "e")
  pure (Json.mkObj [("out", bexpJ (or2xor q e))])

/-- `c15.oracle_class`: which end-to-end theorem of `Props/C15.lean` / `Props/C16.lean` covers the oracle / black
box with this definition list?  Static part: `in_xor_fragment` (class of `C15_end_to_end_fragment` /
`C16_end_to_end_fragment`: one tree-like definition, one return bit), `in_general_clean` (`inGeneralClean`, the class
of the `…_general` theorems, any number of return bits).  If one of them holds and the ancilla choices of the real
compilation are given, the compiler model is run on them (`uncompute = true`); its gate list, number of qubits and
the qubits of the return names are returned (the harness compares them with the oracle inside the algorithm
circuit), together with the side conditions of the general theorems, evaluated on the model's output:
`xor_general` (one return bit, `inGeneralClean`, return qubit not an argument qubit and never a control:
`C15_end_to_end_general`, `C16_end_to_end_general`) and `fun_general` (`inGeneralClean`, every return name on a
non-argument qubit: `C16_end_to_end_simon_general`). -/
def oracleClassOp (j : Json) : R Json := do
  let inputs ← j.getObjValAs? (List String) "inputs"
  let defs ← Comp.parseDefs (← j.getObjVal? "exprs")
  let rets ← j.getObjValAs? (List String) "ret"
  let inFrag := rets.length == 1 && Compiler.inXorFragment inputs defs rets
  let inGen := Compiler.inGeneralClean inputs defs rets
  let base : List (String × Json) := [("in_xor_fragment", toJson inFrag), ("in_general_clean", toJson inGen)]
  if !(inFrag || inGen) then return Json.mkObj base
  match (j.getObjValAs? (List Nat) "choices").toOption with
  | none => pure (Json.mkObj base)
  | some choices =>
    match (Compiler.compile inputs defs (some rets) true).run { choices := choices } with
    | .error e => pure (Json.mkObj (base ++ [("error", Json.str e)]))
    | .ok ((), s) =>
      let gs := s.qc.gates.toList
      let qs := rets.map (Compiler.dictGet? s.qc.qmap)
      let above := qs.all fun q => match q with
        | some q => decide (inputs.length ≤ q)
        | none => false
      let xorGen := match qs with
        | [some q] => inGen && decide (inputs.length ≤ q) && Compiler.retNeverControl gs q
        | _ => false
      pure (Json.mkObj (base ++ [("gates", gatesJ gs), ("num_qubits", toJson s.qc.numQubits),
        ("ret_qubits", Json.arr (qs.map optNatJ).toArray),
        ("xor_general", toJson xorGen), ("fun_general", toJson (inGen && above)),
        ("choices_left", toJson s.choices.length)]))

def handle (op : String) (j : Json) : Option (R Json) :=
  match op with
  | "c15.gates" => some (gatesOp j)
  | "c15.kdefault" => some (kdefaultOp j)
  | "c15.predict" => some (predictOp j)
  | "c15.decode" => some (decodeOp j)
  | "c15.or2xor" => some (or2xorOp j)
  | "c15.oracle_class" => some (oracleClassOp j)
  | _ => none

end QV.Drive.C15
