import QV.Drive.Util
import QV.Drive.CircJson
import QV.Drive.C09
import QV.Drive.BExpJson
import QV.Model.Grover
/-! JSON handlers for C15 (Grover): `c15.gates`, `c15.kdefault`, `c15.predict`, `c15.decode`. -/
namespace QV.Drive.C15
open Lean QV QV.Grover QV.Drive

/-- `c15.gates`: the constructor's gate list for `(n, oracle gates, nq, ret, k)` -/
def gatesOp (j : Json) : R Json := do
  let n ← j.getObjValAs? Nat "n"
  let og ← parseGates (← j.getObjVal? "og")
  let nq ← j.getObjValAs? Nat "nq"
  let ret ← j.getObjValAs? Nat "ret"
  let k ← j.getObjValAs? Nat "k"
  let q := getQuirks j
  pure (Json.mkObj [("gates", gatesJ (groverGates q n og nq ret k)),
    ("num_qubits", toJson (groverNumQubits n nq)),
    ("output_qubits", toJson (outputQubits n))])

/-- `c15.kdefault`: default iteration count from both rational bounds on π -/
def kdefaultOp (j : Json) : R Json := do
  let n ← j.getObjValAs? Nat "n"
  let m ← j.getObjValAs? Nat "M"
  pure (Json.mkObj [("k", optNatJ (kDefault n m)), ("k_lo", optNatJ (kDefaultWith piLo n m))])

/-- `c15.predict`: exact prediction `(ps, pn, d)` of the reduced recurrence -/
def predictOp (j : Json) : R Json := do
  let n ← j.getObjValAs? Nat "n"
  let m ← j.getObjValAs? Nat "M"
  let k ← j.getObjValAs? Nat "k"
  let (ps, pn, d) := predict n m k
  pure (Json.mkObj [("ps", toJson ps), ("pn", toJson pn), ("d", toJson d),
    ("ok", toJson (entryOk n m k))])

/-- `c15.decode`: `Grover.decode_output` of a measured string -/
def decodeOp (j : Json) : R Json := do
  let t ← C09.parseTy (← j.getObjVal? "ty")
  let out ← getBits j "out"
  pure (Json.mkObj [("value", C09.valJ (decodeOutput t out)), ("size", toJson t.size)])

/-- `c15.or2xor`: the modelled `transform_or2xor` step on one expression, plus the solution set of a
sequential definition list `defs = [[sym, expr], …]` (each through the step) over `names` -/
def or2xorOp (j : Json) : R Json := do
  let q := getQuirks j
  let e ← parseBExp (← j.getObjVal? "e")
  pure (Json.mkObj [("out", bexpJ (or2xor q e))])

def handle (op : String) (j : Json) : Option (R Json) :=
  match op with
  | "c15.gates" => some (gatesOp j)
  | "c15.kdefault" => some (kdefaultOp j)
  | "c15.predict" => some (predictOp j)
  | "c15.decode" => some (decodeOp j)
  | "c15.or2xor" => some (or2xorOp j)
  | _ => none

end QV.Drive.C15
