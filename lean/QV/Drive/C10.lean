import QV.Drive.Util
import QV.Model.Api
/-! JSON driver for the API state machine (property C10): `c10.run` executes one history. -/
namespace QV.Drive.C10
open Lean QV QV.Api QV.Drive

def gateJ (g : Gate) : Json := Json.arr #[Json.str g.name, toJson g.wires, Json.str g.param]

def circJ (c : Circ) : Json :=
  Json.mkObj [("name", Json.str c.cname), ("nq", toJson c.nq),
    ("gates", Json.arr (c.gates.map gateJ).toArray),
    ("qmap", Json.arr (c.qmap.map (fun e => Json.arr #[Json.str e.1, toJson e.2])).toArray)]

def srcJ : Src → Json
  | .pool i => Json.arr #[Json.str "pool", toJson i]
  | .bound i k => Json.arr #[Json.str "bound", toJson i, Json.str k]
  | .oraclize c t e => Json.arr #[Json.str "oraclize", Json.str c, Json.str t, Json.str e]
  | .secret n s => Json.arr #[Json.str "secret", toJson n, toJson s]

partial def otreeJ : OTree → Json
  | .missing n => Json.mkObj [("missing", Json.str n)]
  | .notCallable => Json.str "notcallable"
  | .diverges => Json.str "diverges"
  | .node s kids => Json.mkObj [("src", srcJ s), ("kids", Json.arr (kids.map otreeJ).toArray)]

def optListJ : Option (List Nat) → Json
  | some l => toJson l
  | none => Json.null

def qffpJ (f : QFFp) : Json :=
  Json.mkObj [("k", Json.str "qf"), ("name", Json.str f.name), ("sig", Json.str f.info.sig),
    ("circ", circJ f.info.circ), ("inq", optListJ f.inq), ("outq", optListJ f.outq),
    ("orig", otreeJ f.orig)]

def fpJ : Fp → Json
  | .dead => Json.null
  | .qf f => qffpJ f
  | .unbound i defs => Json.mkObj [("k", Json.str "unb"), ("prog", toJson i), ("defs", toJson defs)]
  | .alg kind circ outq sub own =>
    Json.mkObj [("k", Json.str "alg"), ("cls", Json.str kind), ("circ", circJ circ),
      ("outq", toJson outq), ("sub", toJson sub),
      ("own", match own with | some f => qffpJ f | none => Json.null)]

def parseGate (j : Json) : R Gate := do
  let a ← j.getArr?
  pure { name := ← a[0]!.getStr?, wires := ← fromJson? a[1]!, param := ← a[2]!.getStr? }

def parseCirc (j : Json) : R Circ := do
  let gs ← (← (← j.getObjVal? "gates").getArr?).toList.mapM parseGate
  let qm ← (← (← j.getObjVal? "qmap").getArr?).toList.mapM (fun e => do
    let a ← e.getArr?
    pure ((← a[0]!.getStr?), (← a[1]!.getNat?)))
  pure { cname := ← j.getObjValAs? String "name", nq := ← j.getObjValAs? Nat "nq", gates := gs, qmap := qm }

def parseCompiled (j : Json) : R (Option Compiled) := do
  if j.isNull then return none
  pure (some { sig := ← j.getObjValAs? String "sig", argT := ← j.getObjValAs? String "argT",
               arg0 := ← j.getObjValAs? Nat "arg0", nargs := ← j.getObjValAs? Nat "nargs",
               nIn := ← j.getObjValAs? Nat "nIn", retBits := ← j.getObjValAs? (List String) "retBits",
               retBool := ← j.getObjValAs? Bool "retBool", circ := ← parseCirc (← j.getObjVal? "circ") })

def parseProg (j : Json) : R Prog := do
  pure { name := ← j.getObjValAs? String "name", callees := ← j.getObjValAs? (List String) "callees",
         annots := ← j.getObjValAs? (List String) "annots", params := ← j.getObjValAs? Bool "params" }

def parseOp (j : Json) : R Op := do
  let k ← j.getObjValAs? String "k"
  let r := (j.getObjValAs? Nat "ref").toOption.getD 0
  match k with
  | "compile" =>
    pure (.compile (← j.getObjValAs? Nat "prog") (← j.getObjValAs? (List Nat) "defs")
      ((j.getObjValAs? Bool "callable").toOption.getD false))
  | "bind" => pure (.bind r (← j.getObjValAs? String "pkey"))
  | "oraclize" => pure (.oraclize r (← j.getObjValAs? String "elem"))
  | "grover" =>
    pure (.grover r ((j.getObjValAs? String "elem").toOption) (← j.getObjValAs? Nat "iters"))
  | "dj" => pure (.dj r)
  | "simon" => pure (.simon r)
  | "bv" => pure (.bv r)
  | "secret_oracle" => pure (.secretOracle (← j.getObjValAs? Nat "n") (← j.getObjValAs? Nat "secret"))
  | other => pure (.readOnly other r)

def resultJ : Result → Json
  | .ok => Json.str "ok"
  | .raised => Json.str "raised"
  | .unknown => Json.str "unknown"

/-- run a history; per step: result, the fingerprints that changed (slot ↦ fp), user names in
the module namespace -/
def runHistory (q : Quirks) (P : Pool) (K : Oracle) (ops : List Op) : Json := Id.run do
  let mut s : ApiState := ApiState.init
  let mut prev : Array String := #[]
  let mut steps : Array Json := #[]
  for op in ops do
    let (s', res) := step q P K s op
    s := s'
    let n := s.objs.length
    let mut changed : Array (String × Json) := #[]
    let mut cur : Array String := #[]
    for r in [0:n] do
      let j := fpJ (fingerprint q P s r)
      let txt := j.compress
      cur := cur.push txt
      if prev.getD r "" != txt || r + 1 == n then
        changed := changed.push (toString r, j)
    prev := cur
    steps := steps.push (Json.mkObj [("result", resultJ res), ("fps", Json.mkObj changed.toList),
      ("ns", Json.arr (s.ns.map (fun e => Json.arr #[Json.str e.1, srcJ e.2])).toArray),
      ("defaults_empty", toJson (s.defaults.all List.isEmpty))])
  return Json.mkObj [("steps", Json.arr steps)]

def handle (op : String) (j : Json) : Option (R Json) :=
  match op with
  | "c10.run" => some do
    let q := getQuirks j
    let P ← (← (← j.getObjVal? "pool").getArr?).toList.mapM parseProg
    let tbl ← (← (← j.getObjVal? "table").getArr?).toList.mapM (fun e => do
      let a ← e.getArr?
      pure ((← a[0]!.getStr?), (← parseCompiled a[1]!)))
    let K : Oracle := fun key => dictGet tbl key
    let ops ← (← (← j.getObjVal? "ops").getArr?).toList.mapM parseOp
    pure (runHistory q P K ops)
  | _ => none

end QV.Drive.C10
