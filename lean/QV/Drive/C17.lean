import QV.Drive.Util
import QV.Drive.BExpJson
import QV.Drive.CircJson
import QV.Model.Tools
import QV.Model.Anf
/-! Driver handlers for C17 (command-line tools). -/
namespace QV.Drive.C17
open Lean QV QV.Tools QV.Drive

def parseBinding (j : Json) : R Binding := do
  let a ← j.getArr?
  let n ← a[0]!.getStr?
  let fn : Option Nat := match a[1]! with
    | .null => none
    | v => v.getNat?.toOption
  pure { name := n, fn := fn }

def optStr (j : Json) (k : String) : Option String :=
  match j.getObjVal? k with
  | .ok (.str s) => some s
  | _ => none

/-- `c17.select` -/
def select (j : Json) : R Json := do
  let bs ← (← (← j.getObjVal? "bindings").getArr?).toList.mapM parseBinding
  let ep := optStr j "entry"
  let l := parseStr bs
  pure (Json.mkObj [
    ("members", Json.arr (l.map (fun p => Json.arr #[Json.str p.1, toJson p.2])).toArray),
    ("selected", optNatJ (selectEntry ep l))])

def parseDefs (j : Json) : R Defs := do
  (← j.getArr?).toList.mapM (fun d => do
    let a ← d.getArr?
    pure (← a[0]!.getStr?, ← parseBExp a[1]!))

/-- `c17.combined` -/
def combinedOp (j : Json) : R Json := do
  let q := getQuirks j
  let rets ← j.getObjValAs? (List String) "rets"
  let exprs ← parseDefs (← j.getObjVal? "exprs")
  pure (Json.mkObj [("combined", bexpJ (combined q rets exprs)),
    ("no_intermediates", toJson (noIntermediates rets exprs))])

/-- normal-form calls logged from the real run: `[form, input, output | {"error": …}]` -/
def parseNF (j : Json) : R NF := do
  let rows ← (← j.getArr?).toList.mapM (fun r => do
    let a ← r.getArr?
    let f ← a[0]!.getStr?
    let i ← parseBExp a[1]!
    let o : Except String BExp ← match a[2]!.getObjValAs? String "error" with
      | .ok e => pure (Except.error e)
      | .error _ => do pure (Except.ok (← parseBExp a[2]!))
    pure (Form.ofString f, i, o))
  pure (fun form e =>
    match rows.find? (fun r => r.1 == form && r.2.1 == e) with
    | some r => r.2.2
    | none => .error "nf call not in the log")

def dimacsJ (d : Dimacs) : List (String × Json) :=
  [("nvars", toJson d.nvars), ("clauses", toJson d.clauses), ("text", Json.str d.text)]

/-- `c17.output` -/
def outputOp (j : Json) : R Json := do
  let q := getQuirks j
  let form := Form.ofString (← j.getObjValAs? String "form")
  let fmt := if (← j.getObjValAs? String "format") == "dimacs" then Format.dimacs else Format.sympy
  let c ← parseBExp (← j.getObjVal? "combined")
  let nf ← parseNF (← j.getObjVal? "nf")
  let order ← j.getObjValAs? (List String) "order"
  match py2bexpOutput q nf form fmt c order with
  | .error e => pure (Json.mkObj [("error", Json.str e)])
  | .ok (.expr e) => pure (Json.mkObj [("kind", Json.str "expr"), ("expr", bexpJ e)])
  | .ok (.dimacs w d) =>
    pure (Json.mkObj ([("kind", Json.str "dimacs"), ("warned", toJson w),
      ("stdout", Json.str ((Printed.dimacs w d).stdoutText (fun _ => "")))] ++ dimacsJ d))

/-- `c17.dimacs`: `convert_to_dimacs` alone, given its internal `to_cnf` result -/
def dimacsOp (j : Json) : R Json := do
  let q := getQuirks j
  let cnf ← parseBExp (← j.getObjVal? "cnf")
  let order ← j.getObjValAs? (List String) "order"
  match toDimacs q cnf order with
  | .error e => pure (Json.mkObj [("error", Json.str e)])
  | .ok d => pure (Json.mkObj (dimacsJ d))

/-- `c17.qasm` -/
def qasmOp (j : Json) : R Json := do
  let name ← j.getObjValAs? String "name"
  let qubits ← (← (← j.getObjVal? "qubits").getArr?).toList.mapM (fun p => do
    let a ← p.getArr?
    pure (← a[0]!.getStr?, ← a[1]!.getNat?))
  let n ← j.getObjValAs? Nat "n"
  let gates ← parseGates (← j.getObjVal? "gates")
  let ver ← j.getObjValAs? String "version"
  let qc : QCirc := { name := name, qubitMap := qubits, numQubits := n, gates := gates }
  pure (Json.mkObj [("stdout", Json.str (exportQasm (qasmVersion ver) qc ++ "\n"))])

/-- `c17.anf`: the model's `to_anf` of an expression — its sorted variables, the monomials (by
halves and through sympy's rounds) and the expression -/
def anfOp (j : Json) : R Json := do
  let e ← parseBExp (← j.getObjVal? "expr")
  let monosJ (l : List (List String)) : Json := Json.arr (l.map (fun m => toJson m)).toArray
  pure (Json.mkObj [("vars", toJson (QV.Anf.vars e)),
    ("monomials", monosJ (QV.Anf.anfTerms e)),
    ("monomials_rounds", monosJ (QV.Anf.anfTermsButterfly e)),
    ("expr", bexpJ (QV.Anf.anfOf e))])

def handle (op : String) (j : Json) : Option (Except String Json) :=
  match op with
  | "c17.select" => some (select j)
  | "c17.combined" => some (combinedOp j)
  | "c17.output" => some (outputOp j)
  | "c17.dimacs" => some (dimacsOp j)
  | "c17.qasm" => some (qasmOp j)
  | "c17.anf" => some (anfOp j)
  | _ => none

end QV.Drive.C17
