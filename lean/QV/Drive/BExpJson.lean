import Lean.Data.Json
import QV.Base.BExp
/-! JSON form of `BExp`: ["tt"] ["ff"] ["sym",n] ["not",e] ["and",e…] ["or",e…] ["xor",e…] ["ite",c,t,e] ["imp",a,b] -/
namespace QV.Drive
open Lean QV

partial def parseBExp (j : Json) : Except String BExp := do
  let a ← j.getArr?
  if a.size == 0 then throw "empty bexp"
  let tag ← a[0]!.getStr?
  let rest := a.toList.drop 1
  match tag with
  | "tt" => pure .tt
  | "ff" => pure .ff
  | "sym" => return .sym (← a[1]!.getStr?)
  | "not" => return .not (← parseBExp a[1]!)
  | "and" => return .and (← rest.mapM parseBExp)
  | "or" => return .or (← rest.mapM parseBExp)
  | "xor" => return .xor (← rest.mapM parseBExp)
  | "ite" => return .ite (← parseBExp a[1]!) (← parseBExp a[2]!) (← parseBExp a[3]!)
  | "imp" => return .imp (← parseBExp a[1]!) (← parseBExp a[2]!)
  | t => throw s!"bad bexp tag {t}"

partial def bexpJ : BExp → Json
  | .tt => Json.arr #[Json.str "tt"]
  | .ff => Json.arr #[Json.str "ff"]
  | .sym n => Json.arr #[Json.str "sym", Json.str n]
  | .not e => Json.arr #[Json.str "not", bexpJ e]
  | .and l => Json.arr (#[Json.str "and"] ++ (l.map bexpJ).toArray)
  | .or l => Json.arr (#[Json.str "or"] ++ (l.map bexpJ).toArray)
  | .xor l => Json.arr (#[Json.str "xor"] ++ (l.map bexpJ).toArray)
  | .ite c t e => Json.arr #[Json.str "ite", bexpJ c, bexpJ t, bexpJ e]
  | .imp a b => Json.arr #[Json.str "imp", bexpJ a, bexpJ b]

end QV.Drive
