import QV.Drive.Util
import QV.Drive.CircJson
import QV.Model.CircuitOps
/-! JSON handlers for C14 (circuit composition operators).
circuit: {"n":2,"gates":[gate+{"wid":5}],"computed":[…],"qmap":[["q0",0],…],"enh":false,
          "name":"qc","ids":[gatesId,computedId,qmapId]} -/
namespace QV.Drive.C14
open Lean QV QV.Drive QV.CircuitOps

def parseH (j : Json) : R HGate := do
  let g ← parseGate j
  let wid : Nat := (j.getObjValAs? Nat "wid").toOption.getD 0
  pure { g := g, wid := wid }

def hJ (h : HGate) : Json := (gateJ h.g).setObjVal! "wid" (toJson h.wid)

def parseKV (j : Json) : R (String × Nat) := do
  let a ← j.getArr?
  return (← a[0]!.getStr?, ← a[1]!.getNat?)

def parseCirc (j : Json) : R Circ := do
  let n ← j.getObjValAs? Nat "n"
  let gates ← (← (← j.getObjVal? "gates").getArr?).toList.mapM parseH
  let computed ← (← (← j.getObjVal? "computed").getArr?).toList.mapM parseH
  let qmap ← (← (← j.getObjVal? "qmap").getArr?).toList.mapM parseKV
  let enh := (j.getObjValAs? Bool "enh").toOption.getD false
  let name := (j.getObjValAs? String "name").toOption.getD "qc"
  let ids ← j.getObjValAs? (List Nat) "ids"
  pure { numQubits := n, gates := gates, computed := computed, qmap := qmap, enhanced := enh,
         name := name, gatesId := ids.getD 0 0, computedId := ids.getD 1 0, qmapId := ids.getD 2 0 }

def circJ (c : Circ) : Json :=
  Json.mkObj [("n", toJson c.numQubits), ("gates", Json.arr (c.gates.map hJ).toArray),
    ("computed", Json.arr (c.computed.map hJ).toArray),
    ("qmap", Json.arr (c.qmap.map (fun kv => Json.arr #[Json.str kv.1, toJson kv.2])).toArray),
    ("enh", toJson c.enhanced), ("name", Json.str c.name),
    ("ids", toJson [c.gatesId, c.computedId, c.qmapId])]

def errJ : Option Err → Json
  | none => Json.null
  | some e => Json.str e.tag

def reply (r : Except Err (Circ × Nat)) (key : String) : Json :=
  match r with
  | .ok (c, _) => Json.mkObj [("err", Json.null), (key, circJ c)]
  | .error e => Json.mkObj [("err", Json.str e.tag)]

def handle (op : String) (j : Json) : Option (R Json) :=
  let q := getQuirks j
  match op with
  | "c14.append_circuit" => some do
      let a ← parseCirc (← j.getObjVal? "a")
      let b ← parseCirc (← j.getObjVal? "b")
      let qs ← j.getObjValAs? (List Nat) "qs"
      let nx ← j.getObjValAs? Nat "next"
      pure (reply (appendCircuit a b qs nx) "a")
  | "c14.iadd" => some do
      let a ← parseCirc (← j.getObjVal? "a")
      let b ← parseCirc (← j.getObjVal? "b")
      let nx ← j.getObjValAs? Nat "next"
      pure (reply (iaddCirc a b nx) "a")
  | "c14.iadd_gate" => some do
      let a ← parseCirc (← j.getObjVal? "a")
      let h ← parseH (← j.getObjVal? "g")
      pure (match iaddGate a h with
        | .ok c => Json.mkObj [("err", Json.null), ("a", circJ c)]
        | .error e => Json.mkObj [("err", Json.str e.tag)])
  | "c14.add" => some do
      let a ← parseCirc (← j.getObjVal? "a")
      let b ← parseCirc (← j.getObjVal? "b")
      let nx ← j.getObjValAs? Nat "next"
      pure (reply (add a b nx) "r")
  | "c14.copy" => some do
      let a ← parseCirc (← j.getObjVal? "a")
      let v := (j.getObjValAs? Bool "vanilla").toOption.getD false
      let nx ← j.getObjValAs? Nat "next"
      pure (reply (.ok (copy a v nx)) "r")
  | "c14.repeat" => some do
      let a ← parseCirc (← j.getObjVal? "a")
      let n ← j.getObjValAs? Nat "times"
      let nx ← j.getObjValAs? Nat "next"
      pure (reply («repeat» q a n nx) "r")
  | "c14.remove_identities" => some do
      let a ← parseCirc (← j.getObjVal? "a")
      let nx ← j.getObjValAs? Nat "next"
      let r := removeIdentities q a nx
      let base := reply r "a"
      pure (base.setObjVal! "triggers" (toJson a.riTriggers))
  | "c14.qft" => some do
      let a ← parseCirc (← j.getObjVal? "a")
      let wl ← j.getObjValAs? (List Nat) "wl"
      let nx ← j.getObjValAs? Nat "next"
      let inv := (j.getObjValAs? Bool "inverse").toOption.getD false
      let (c, _, e) := if inv then iqft a wl nx else qft a wl nx
      pure (Json.mkObj [("err", errJ e), ("a", circJ c)])
  | "c14.add_qubit" => some do
      let a ← parseCirc (← j.getObjVal? "a")
      let name := (j.getObjValAs? String "qname").toOption
      let (c, i) := a.addQubit name
      pure (Json.mkObj [("err", Json.null), ("a", circJ c), ("index", toJson i)])
  | _ => none

end QV.Drive.C14
