import QV.Drive.Util
import QV.Drive.BExpJson
import QV.Model.Call
/-! JSON handlers for C07 (`QV.Model.Call`).
A LogicFun is `{name, args:[[name,[bits…]],…], ret:[name,[bits…]], exps:[[sym,bexp],…]}`; an actual is
`{list:bool, nested:bool, bits:[bexp…]}`.
* `c07.bind`  {quirks, types, defs:[fun…] (already bound), fun, orders} -> {defs:[fun…]} (the new `env.defs`) | {error} (the definition is refused)
* `c07.call`  {quirks, defs:[fun…], name, actuals} -> {known:false} | {error} | {ok:[bexp…]}
* `c07.oraclize` {quirks, fun, name} -> {after, passed, called}
* `c07.triggers` {fun (bound), actuals, prefix, exps} -> trigger predicates -/
namespace QV.Drive.C07
open Lean QV QV.Call QV.Drive

def parseArg (j : Json) : R Arg := do
  let a ← j.getArr?
  if a.size != 2 then throw "bad arg"
  let bits ← (← a[1]!.getArr?).toList.mapM (·.getStr?)
  return { name := ← a[0]!.getStr?, bitvec := bits }

def argJ (a : Arg) : Json := Json.arr #[Json.str a.name, toJson a.bitvec]

def parseDefs (j : Json) : R Defs := do
  let a ← j.getArr?
  a.toList.mapM fun d => do
    let p ← d.getArr?
    if p.size != 2 then throw "bad definition"
    return (← p[0]!.getStr?, ← parseBExp p[1]!)

def defsJ (l : Defs) : Json := Json.arr (l.map fun d => Json.arr #[Json.str d.1, bexpJ d.2]).toArray

def parseFun (j : Json) : R LogicFun := do
  let args ← (← (← j.getObjVal? "args").getArr?).toList.mapM parseArg
  return { name := ← j.getObjValAs? String "name", args := args,
           ret := ← parseArg (← j.getObjVal? "ret"), exps := ← parseDefs (← j.getObjVal? "exps") }

def funJ (f : LogicFun) : Json :=
  Json.mkObj [("name", Json.str f.name), ("args", Json.arr (f.args.map argJ).toArray),
    ("ret", argJ f.ret), ("exps", defsJ f.exps)]

def parseActual (j : Json) : R Actual := do
  let bits ← (← (← j.getObjVal? "bits").getArr?).toList.mapM parseBExp
  let nested := match j.getObjValAs? Bool "nested" with | .ok b => b | .error _ => false
  return { isList := ← j.getObjValAs? Bool "list", nested := nested, bits := bits }

def getFuns (j : Json) (k : String) : R (List LogicFun) := do
  (← (← j.getObjVal? k).getArr?).toList.mapM parseFun

def getOrders (j : Json) : List (List String) :=
  match j.getObjValAs? (List (List String)) "orders" with
  | .ok l => l
  | .error _ => []

def bindOp (j : Json) : R Json := do
  let q := getQuirks j
  let types := match j.getObjValAs? (List String) "types" with | .ok l => l | .error _ => []
  let defs ← getFuns j "defs"
  let f ← parseFun (← j.getObjVal? "fun")
  match envBind q types defs (getOrders j) f with
  | .ok r => pure (Json.mkObj [("defs", Json.arr (r.map funJ).toArray)])
  | .error e => pure (Json.mkObj [("error", Json.str e)])

def callOp (j : Json) : R Json := do
  let q := getQuirks j
  let defs ← getFuns j "defs"
  let name ← j.getObjValAs? String "name"
  let acts ← (← (← j.getObjVal? "actuals").getArr?).toList.mapM parseActual
  match resolve defs name with
  | none => return Json.mkObj [("known", toJson false)]
  | some df =>
    match callSite q df acts with
    | .ok rs => pure (Json.mkObj [("ok", Json.arr (rs.map bexpJ).toArray)])
    | .error e => pure (Json.mkObj [("error", Json.str e)])

def oraclizeOp (j : Json) : R Json := do
  let q := getQuirks j
  let f ← parseFun (← j.getObjVal? "fun")
  let name ← j.getObjValAs? String "name"
  let r := oraclize q f name
  pure (Json.mkObj [("after", funJ r.calleeAfter), ("passed", funJ r.passed), ("called", Json.str r.calledName)])

def triggersOp (j : Json) : R Json := do
  let df ← parseFun (← j.getObjVal? "fun")
  let acts ← (← (← j.getObjVal? "actuals").getArr?).toList.mapM parseActual
  let idx := (df.args.zip acts).map (fun p => indexTrigger p.1 p.2)
  let seqT := match allPairs { argIndexFromName := true } df.args acts with
    | .ok pairs => seqTrigger (mkDict pairs)
    | .error _ => false
  pure (Json.mkObj [("index", toJson idx), ("seq", toJson seqT)])

def handle (op : String) (j : Json) : Option (Except String Json) :=
  match op with
  | "c07.bind" => some (bindOp j)
  | "c07.call" => some (callOp j)
  | "c07.oraclize" => some (oraclizeOp j)
  | "c07.triggers" => some (triggersOp j)
  | _ => none

end QV.Drive.C07
