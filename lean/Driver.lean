import Lean.Data.Json
import QV.Drive.C09
import QV.Drive.Comp
import QV.Drive.C11
import QV.Drive.C04
import QV.Drive.C14
import QV.Drive.C05
import QV.Drive.C18
import QV.Drive.C16
import QV.Drive.C17
import QV.Drive.C13
import QV.Drive.C15
import QV.Drive.C10
import QV.Drive.C07
import QV.Drive.C12
import QV.Drive.C08
import QV.Drive.C01
import QV.Drive.Ast2Ast
/-! `qvdriver`: one JSON request per input line, one JSON reply per output line. -/
open Lean

def dispatch (j : Json) : Except String Json := do
  let op ← j.getObjValAs? String "op"
  let handlers : List (String → Json → Option (Except String Json)) := [
    QV.Drive.C09.handle,
    QV.Drive.Comp.handle,
    QV.Drive.C11.handle,
    QV.Drive.C04.handle,
    QV.Drive.C14.handle,
    QV.Drive.C05.handle,
    QV.Drive.C18.handle,
    QV.Drive.C16.handle,
    QV.Drive.C17.handle,
    QV.Drive.C13.handle,
    QV.Drive.C15.handle,
    QV.Drive.C10.handle,
    QV.Drive.C07.handle,
    QV.Drive.C12.handle,
    QV.Drive.C08.handle,
    QV.Drive.C01.handle,
    QV.Drive.Ast2Ast.handle
  ]
  for h in handlers do
    if let some r := h op j then return ← r
  throw s!"unknown op {op}"

partial def loop (h : IO.FS.Stream) (out : IO.FS.Stream) : IO Unit := do
  let line ← h.getLine
  if line.isEmpty then return ()
  if line.trimAscii.isEmpty then
    loop h out
  else
    match Json.parse line >>= dispatch with
    | .ok j => out.putStrLn j.compress
    | .error e => out.putStrLn (Json.mkObj [("driver_error", Json.str e)]).compress
    loop h out

def main : IO Unit := do
  let out ← IO.getStdout
  loop (← IO.getStdin) out
  out.flush
