#!/usr/bin/env python3
"""Measurement script behind docs/notes/compiler-fixes.md (not part of the checks).

  QV_REPO=<repo copy> python3 docs/notes/compiler-fixes-measure.py run <quick|thorough|big> <seed> <out.json> [--events]
  python3 docs/notes/compiler-fixes-measure.py cmp <unpatched.json (run with --events)> <patched.json>

`run` compiles the case set of harness/compiler_common.py (the one `./check C02` uses for the same seed) with
the compiler found in QV_REPO, with uncompute on and off, and judges every compiled circuit on all 2^n inputs
with the independent simulator (wrong value = C02, dirty with uncompute on = C03, not an xor-oracle = C06);
`--events` asks the Lean compiler model for the events of each instance (meaningful on the unpatched tree only).
`cmp` prints failing instances before/after, attributed to the families by the unpatched run's events,
new failures, exceptions, and total qubits / gates.
"""
import json
import os
import random
import sys

HERE = os.path.dirname(os.path.abspath(__file__))
VERIF = os.path.dirname(os.path.dirname(HERE))
sys.path.insert(0, VERIF)


FAM = {"expqmap-cache": {"cacheHit", "xorRepl", "destAmongArgs"}, "inplace-not": {"inplaceNot"},
       "temp-uncomputed-early": {"markNamedTemp"}, "uncompute-stale": {"staleReplay"}}


class C:  pass

def main():
    tier, seed, outp = sys.argv[2], int(sys.argv[3]), sys.argv[4]
    ev = "--events" in sys.argv
    ctx = C(); ctx.seed = seed; ctx.rng = random.Random(f"C02-{seed}")
    if tier == "thorough":
        cases = cc.source_cases(ctx, 250, 200, 1500, suite_stride=1); max_in = 10
    elif tier == "big":
        cases = cc.source_cases(ctx, 600, 400, 4000, suite_stride=1); max_in = 10
    else:
        cases = cc.source_cases(ctx, 30, 25, 160, suite_stride=3); max_in = 9
    jobs = []
    for label, kind, payload in cases:
        opts = ["defaultOptimizer", "fastOptimizer"] if kind == "src" else [None]
        for optn in opts:
            for unc in (True, False):
                jobs.append((label, kind, payload, optn, unc, max_in))
    with mp.Pool(12) as pool:
        outs = pool.map(cc._worker, jobs, chunksize=4)
    recs = {}
    reqs, keys = [], []
    for job, out in zip(jobs, outs):
        key = f"{job[0]}|{job[3]}|{job[4]}"
        if "skip" in out:
            recs[key] = dict(skip=out["skip"]); continue
        code = out["code"]
        r = dict(rets=len(out["rets"]), nin=len(out["inputs"]))
        if "error" in code:
            r["error"] = code["error"]
        else:
            j = out["judge"]
            r.update(nq=code["num_qubits"], ng=len(code["gates"]), mapped=j["mapped"], classical=j["classical"],
                     wrong=j["wrong"] is not None, dirty=j["dirty"] is not None,
                     xor_bad=(j["xor_bad"] is not None) if len(out["rets"]) == 1 else None)
        r["prog"] = job[2] if job[1] == "src" else dict(inputs=job[2]["inputs"], defs=out["ej"], rets=out["rets"])
        recs[key] = r
        if ev:
            reqs.append(cc.model_request(out["inputs"], out["ej"], out["rets"], job[4], code["choices"])); keys.append((key, code))
    if ev:
        reps = common.run_driver(reqs)
        for (key, code), rep in zip(keys, reps):
            recs[key]["events"] = sorted(set(rep.get("events", []))) if "error" not in rep else []
            recs[key]["model_mismatch"] = cc.compare_model(code, rep)
            recs[key]["in_fragment"] = rep.get("in_fragment")
    json.dump(recs, open(outp, "w"))
    summary(recs)

def summary(recs):
    n = sum(1 for r in recs.values() if "skip" not in r)
    err = sum(1 for r in recs.values() if "error" in r)
    w_t = sum(1 for k, r in recs.items() if r.get("wrong") or r.get("mapped") is False)
    d = sum(1 for k, r in recs.items() if k.endswith("|True") and r.get("dirty") and r.get("mapped"))
    x = sum(1 for k, r in recs.items() if k.endswith("|True") and r.get("xor_bad") and r.get("mapped"))
    print(f"cases={n} raised={err} C02-fail={w_t} C03-fail={d} C06-fail={x}")



def compare(bpath, ppath):
    b = json.load(open(bpath)); p = json.load(open(ppath))
    def fails(k, r):
        unc = k.endswith("|True")
        return dict(C02=bool(r.get("wrong") or r.get("mapped") is False),
                    C03=bool(unc and r.get("mapped") and r.get("dirty")),
                    C06=bool(unc and r.get("mapped") and r.get("xor_bad")))
    for prop in ("C02", "C03", "C06"):
        tot_b = tot_p = 0; fam_b = {f: 0 for f in FAM}; fam_p = {f: 0 for f in FAM}; other_b = other_p = 0
        new = []; 
        for k, rb in b.items():
            if "skip" in rb: continue
            rp = p.get(k, {})
            fb = fails(k, rb)[prop]; fp = fails(k, rp)[prop] if "skip" not in rp else False
            evs = set(rb.get("events", []))
            fams = [f for f, e in FAM.items() if evs & e]
            if fb:
                tot_b += 1
                for f in fams: fam_b[f] += 1
                if not fams: other_b += 1
            if fp:
                tot_p += 1
                for f in fams: fam_p[f] += 1
                if not fams: other_p += 1
                if not fb: new.append(k)
        print(f"{prop}: failing before={tot_b} after={tot_p}  new-failing={len(new)}")
        for f in FAM: print(f"    {f:24s} before={fam_b[f]:4d} after={fam_p[f]:4d}")
        print(f"    {'(no event)':24s} before={other_b:4d} after={other_p:4d}")
        for k in new[:8]: print("    NEW:", k, "events(base)=", b[k].get("events"))
    # errors / resources
    eb = sum(1 for r in b.values() if "error" in r); ep = sum(1 for r in p.values() if "error" in r)
    newerr = [k for k, r in p.items() if "error" in r and "error" not in b.get(k, {})]
    print(f"compiler raised: before={eb} after={ep} new={len(newerr)}")
    for k in newerr[:5]: print("   NEWERR", k, p[k]["error"][:100])
    dq = dg = 0; nqb = ngb = 0; more_q = []
    for k, rb in b.items():
        rp = p.get(k, {})
        if "nq" in rb and "nq" in rp:
            dq += rp["nq"] - rb["nq"]; dg += rp["ng"] - rb["ng"]; nqb += rb["nq"]; ngb += rb["ng"]
            if rp["nq"] > rb["nq"]: more_q.append(k)
    print(f"total qubits {nqb} -> {nqb+dq} ({dq:+d}); total gates {ngb} -> {ngb+dg} ({dg:+d}); cases with more qubits: {len(more_q)}")


if __name__ == "__main__":
    if len(sys.argv) >= 5 and sys.argv[1] == "run":
        from harness import common, compiler_common as cc
        import multiprocessing as mp
        main()
    elif len(sys.argv) == 4 and sys.argv[1] == "cmp":
        compare(sys.argv[2], sys.argv[3])
    else:
        print(__doc__)
