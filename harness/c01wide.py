"""C01, the largest shipped widths: programs over Qint[12] / Qint[16] values (and narrower variables with
literals from 256), evaluated on SAMPLED rows.

The other streams of `harness/c01.py` judge a program on its whole truth table, which bounds them at about ten
argument bits: no Qint[12] / Qint[16] variable, no product whose padded operands exceed the largest result type,
no carry into bit 15 ever occurs there.  Here a program has up to 48 argument bits; `qf.expressions` (the definition
list, in order) is evaluated by the harness' own evaluator on row numbers chosen at the boundaries of the width table:

  per argument leaf of width w: 0, 1, 2^w - 2, 2^w - 1 and 2^k - 1, 2^k, 2^k + 1 for every k < w;
  rows: each boundary value of each leaf with the other leaves at 1 / max / a boundary value / a uniform value;
        directed rows whose exact result is 2^(W-1) - 1, 2^(W-1), 2^(W-1) + 1, 2^W - 1, 2^W, 2^W + 1 (W = the width
        of the return type, of the widest argument, and 16) under + - * ^ (the top bit set, the carry out of it);
        all-zero, all-max; uniform pseudo-random rows.

The systematic slice uses its own fixed pseudo-random stream (the same rows for every VERIF_SEED); the randomised
variants draw programs and rows from `ctx.rng`.

What the real library can translate at all bounds the products: the expressions of `QintImp.mul` are built by sympy
constructors whose cost explodes with the number of non-constant partial products (Qint[8] * Qint[8] of two variables
takes 80 s, Qint[12] * Qint[12] does not end within the hour; `a * 300` 12 s, `300 * a` 0.3 s: the outer loop runs over
the LEFT operand, rows of a `False` bit vanish).  The products of this stream therefore have a left operand with at
most three bits that are not `False` after padding (a literal with few set bits, a Qint[2] / Qint[3] variable) or a
right operand that is a literal with one or two set bits; their operands pad to Qint[12] / Qint[16], so the padded
sizes sum to 24 / 32 > 16 and partial products, sums and carries land on and beyond bit 15.
"""
from __future__ import annotations

import random

from . import pysem

WIDE = (12, 16)
ARITH = ["+", "-", "&", "|", "^"]
CMPS = ["==", "!=", "<", "<=", ">", ">="]


# ----------------------------------------------------------------------------- rows
def boundary(w):
    """boundary values of a w-bit unsigned value: 0, 1, 2^k - 1, 2^k, 2^k + 1 (k < w), 2^w - 2, 2^w - 1"""
    m = 2 ** w
    vals = {0, 1, m - 1, m - 2}
    for k in range(1, w):
        vals |= {2 ** k - 1, 2 ** k, 2 ** k + 1}
    return sorted(v for v in vals if 0 <= v < m)


def leaves(args):
    """[(offset, width, is_bool)] of the argument leaves (bool or sized), in bit order"""
    out, off = [], 0

    def walk(t):
        nonlocal off
        if t[0] == "tuple":
            for x in t[1]:
                walk(x)
        else:
            w = pysem.ty_bits(t)
            out.append((off, w, t == pysem.BOOL))
            off += w

    for _, t in args:
        walk(t)
    return out


def pack(lv, vals):
    k = 0
    for (off, w, _), v in zip(lv, vals):
        k |= (v % 2 ** w) << off
    return k


def sample_rows(args, ret, rng, cap):
    """row numbers for a program with these argument / return types; at most `cap`, deterministic given rng.
    -> (rows, kinds) with kinds = how many rows of each kind were kept"""
    lv = leaves(args)
    n = len(lv)
    bnd = [[0, 1] if b else boundary(w) for (_, w, b) in lv]
    mx = [2 ** w - 1 for (_, w, _) in lv]
    rows, kinds = [], {}

    def put(vals, kind):
        k = pack(lv, vals)
        if k not in seen:
            seen.add(k)
            rows.append((kind, k))

    seen = set()
    put([0] * n, "corner")
    put(mx, "corner")
    # directed: the exact result of a binary operator on two integer leaves hits the top bit / wraps
    ints = [i for i, (_, w, b) in enumerate(lv) if not b]
    rw = pysem.ty_size(ret) if ret[0] in ("qint",) else None
    targets = set()
    for W in {rw, max([lv[i][1] for i in ints] or [2]), 16}:
        if W:
            targets |= {2 ** (W - 1) - 1, 2 ** (W - 1), 2 ** (W - 1) + 1, 2 ** W - 1, 2 ** W, 2 ** W + 1}
    directed = []
    for i in ints:
        for j in ints:
            if i == j:
                continue
            others = [x for x in (1, 2, 3, mx[j], mx[j] // 2 + 1, rng.choice(bnd[j]), rng.randrange(mx[j] + 1)) if x <= mx[j]]
            for b in others:
                for T in sorted(targets):
                    cands = [T - b, T + b, T ^ b]
                    if b:
                        cands += [T // b, -(-T // b)]
                    for a in cands:
                        if 0 <= a <= mx[i]:
                            vals = [rng.choice(bnd[x]) if x not in (i, j) else 0 for x in range(n)]
                            vals[i], vals[j] = a, b
                            directed.append(vals)
    if len(ints) == 1:
        i = ints[0]
        for T in sorted(targets):
            for c in (1, 2, 3, 7, 8, 9, 11, 256, 257, 300):
                for a in (T // c, -(-T // c), T - c, T + c):
                    if 0 <= a <= mx[i]:
                        vals = [rng.choice(bnd[x]) for x in range(n)]
                        vals[i] = a
                        directed.append(vals)
    rng.shuffle(directed)
    for vals in directed[: max(cap // 3, 8)]:
        put(vals, "directed")
    # axis: every boundary value of every leaf, the other leaves at 1 / max / a boundary value / uniform
    axis = []
    for i in range(n):
        for v in bnd[i]:
            for mode in ("one", "max", "bnd", "uni"):
                vals = []
                for x in range(n):
                    if x == i:
                        vals.append(v)
                    elif mode == "one":
                        vals.append(1)
                    elif mode == "max":
                        vals.append(mx[x])
                    elif mode == "bnd":
                        vals.append(rng.choice(bnd[x]))
                    else:
                        vals.append(rng.randrange(mx[x] + 1))
                axis.append((mode, vals))
    # keep every boundary value at least once (mode bnd first), then the other companions
    order = [a for a in axis if a[0] == "bnd"] + [a for a in axis if a[0] == "max"] + \
            [a for a in axis if a[0] == "one"] + [a for a in axis if a[0] == "uni"]
    n_rand = max(cap // 8, 6)
    for mode, vals in order:
        if len(rows) >= cap - n_rand:
            break
        put(vals, "boundary")
    for _ in range(n_rand * 4):
        if len(rows) >= cap:
            break
        put([rng.randrange(m + 1) for m in mx], "random")
    for kind, _ in rows:
        kinds[kind] = kinds.get(kind, 0) + 1
    return [k for _, k in rows], kinds


# ----------------------------------------------------------------------------- programs
def _p(out, tag, sig, ret, body, heavy=False, profiles=None, thorough_only=False):
    k = len(out)
    lines = body if isinstance(body, list) else ["return " + body]
    src = f"def wd_{k}({sig}) -> {ret}:\n" + "\n".join("\t" + l for l in lines)
    out.append(dict(tag="wide:" + tag, src=src, heavy=heavy, profiles=profiles, thorough_only=thorough_only))


PAIRS = [(12, 12), (16, 16), (12, 16), (16, 12), (8, 16), (16, 5), (2, 12), (16, 2)]
PAIRS_THOROUGH = [(7, 12), (12, 3), (6, 16), (16, 8), (4, 16), (12, 8)]
# (width of the variable, literal): 255 / 256 / 4095 / 4096 / 32768 / 65535 = the edges of the constant types
VAR_CONST = [(12, 4095), (16, 65535), (8, 256), (12, 4096), (16, 32768), (8, 4095), (12, 255), (16, 256), (8, 65535),
             (12, 2048), (16, 4096), (5, 300)]


def programs(thorough):
    """the systematic slice: list of dict(tag, src, heavy, profiles)"""
    out = []
    # every binary operator on two variables, ordered width pairs with at least one Qint[12] / Qint[16]
    for op in ARITH + CMPS:
        ret = "bool" if op in CMPS else "Qint[16]"
        for i, (wl, wr) in enumerate(PAIRS + PAIRS_THOROUGH):
            _p(out, f"{op}:vv", f"a: Qint[{wl}], b: Qint[{wr}]", ret, f"a {op} b",
               profiles=("none", "fast", "default") if i == 2 else ("none", "default") if i < 2 else None,
               thorough_only=i >= len(PAIRS))
    # variable op literal / literal op variable; narrower variables with literals from 256
    for oi, op in enumerate(ARITH + CMPS):
        ret = "bool" if op in CMPS else "Qint[16]"
        for ci, (w, c) in enumerate(VAR_CONST):
            quick = (ci + oi) % 3 == 0
            _p(out, f"{op}:vc", f"a: Qint[{w}]", ret, f"a {op} {c}", thorough_only=not quick,
               profiles=("none", "fast", "default") if ci % 4 == 0 else None)
            _p(out, f"{op}:cv", f"a: Qint[{w}]", ret, f"{c} {op} a", thorough_only=not ((ci + oi) % 3 == 1))
    for w in WIDE:
        for s in (0, 1, w // 2, w - 1, w):
            for op in ("<<", ">>"):
                _p(out, op, f"a: Qint[{w}]", f"Qint[{w}]", f"a {op} {s}", profiles=("none", "fast", "default"))
        _p(out, "~", f"a: Qint[{w}]", f"Qint[{w}]", "~a", profiles=("none", "fast", "default"))
        for i in (0, w // 2, w - 1):
            _p(out, "bit", f"a: Qint[{w}]", "bool", f"a[{i}]")
    _p(out, "<<", "a: Qint[12]", "Qint[16]", "a << 3")
    _p(out, ">>", "a: Qint[16]", "Qint[12]", "a >> 3")
    _p(out, "~", "a: Qint[12]", "Qint[16]", "~a")
    _p(out, "~", "a: Qint[16], b: Qint[12]", "Qint[16]", "~a + ~b")
    for w, c in ((12, 1), (12, 2), (12, 2048), (12, 4096), (16, 256), (16, 32768), (16, 4096)):
        _p(out, "%", f"a: Qint[{w}]", "Qint[16]", f"a % {c}")
    # the value returned is wider / narrower than the declared type
    for (wl, wr), rets in (((12, 12), (16, 8, 2)), ((16, 16), (12, 8, 2)), ((8, 16), (12,)), ((12, 5), (16,))):
        for rw in rets:
            _p(out, "ret", f"a: Qint[{wl}], b: Qint[{wr}]", f"Qint[{rw}]", "a + b")
    _p(out, "ret", "a: Qint[12]", "Qint[16]", "a")
    _p(out, "ret", "a: Qint[16]", "Qint[12]", "a")
    _p(out, "ret", "a: Qint[16], b: Qint[16]", "Qint[8]", "a - b")
    _p(out, "ret", "a: Qint[16], b: Qint[12]", "Qint[12]", "a ^ b")
    # if-expressions and min / max (they widen the narrower branch)
    for wl, wr in ((12, 16), (16, 12), (16, 16), (2, 16), (16, 8), (12, 12)):
        _p(out, "ifexp", f"c: bool, a: Qint[{wl}], b: Qint[{wr}]", "Qint[16]", "a if c else b", **dict(profiles=("none", "default")))
        _p(out, "ifexp-cmp", f"a: Qint[{wl}], b: Qint[{wr}]", "Qint[16]", "a - b if a > b else b - a")
    for wl, wr in ((12, 16), (16, 12), (16, 16)):
        _p(out, "minmax", f"a: Qint[{wl}], b: Qint[{wr}]", "Qint[16]", "max(a, b)")
        _p(out, "minmax", f"a: Qint[{wl}], b: Qint[{wr}]", "Qint[16]", "min(a, b)")
    # compound expressions, statements, containers of wide values
    D = dict(profiles=("none", "default"))
    _p(out, "expr", "a: Qint[16], b: Qint[12], c: Qint[8]", "Qint[16]", "(a + b) - c", **D)
    _p(out, "expr", "a: Qint[16], b: Qint[12]", "Qint[16]", "(a + b) ^ (a - b) | (b << 3)")
    _p(out, "expr", "a: Qint[16], b: Qint[16]", "bool", "(a + 1) > b")
    _p(out, "expr", "a: Qint[12], b: Qint[12]", "bool", "(a + b) == 4096")
    _p(out, "expr", "a: Qint[16], b: Qint[16]", "bool", "a - b >= 32768 or a == b")
    _p(out, "expr", "a: Qint[12], b: Qint[16], c: Qint[16]", "Qint[16]", "(a & b) + (b | c) - (a ^ c)")
    _p(out, "expr", "a: Qint[16], b: Qint[16]", "Qint[16]", "(a >> 8) + (b << 8)")
    _p(out, "stmt", "a: Qint[16], b: Qint[12]", "Qint[16]", ["c = a", "c += b", "c ^= a", "c -= 1", "return c"], **D)
    _p(out, "stmt", "a: Qint[16], b: Qint[16]", "Qint[16]",
       ["d = a", "if a > b:", "\td = a - b", "else:", "\td = b - a", "return d"], **D)
    _p(out, "stmt", "a: Qint[16]", "Qint[16]", ["s = a", "for i in range(3):", "\ts = s + 30000", "return s"])
    _p(out, "stmt", "a: Qint[12], c: bool", "Qint[16]",
       ["r = a", "if c:", "\tr = r + 61440", "\tr = r + a", "return r"])
    _p(out, "stmt", "a: Qint[16]", "Qint[4]", ["n = 0", "for i in [0, 7, 15]:", "\tn = n + 1 if a[i] else n", "return n"])
    _p(out, "tuple", "t: Tuple[Qint[16], Qint[12]]", "Qint[16]", "t[0] - t[1]")
    _p(out, "tuple", "a: Qint[16], b: Qint[16]", "Tuple[Qint[16], bool]", "(a + b, a < b)")
    _p(out, "tuple", "t: Qlist[Qint[16], 3]", "Qint[16]", "sum(t)")
    _p(out, "tuple", "t: Qlist[Qint[12], 2], u: Qlist[Qint[12], 2]", "bool", "t == u")
    _p(out, "tuple", "t: Qlist[Qint[16], 2], i: Qint[2]", "Qint[16]", "t[i] + 1")
    # products whose padded operand sizes sum to more than the largest result type (24 / 32 > 16)
    H = dict(heavy=True)
    N = dict(heavy=True, profiles=("none",))
    T = dict(heavy=True, profiles=("none",), thorough_only=True)
    for w, e, kw in (
        (8, "a * 256", H), (8, "a * 257", H), (8, "a * 384", H), (8, "512 * a", H), (8, "300 * a", N),
        (8, "a * 2048", H),
        (12, "a * 8", H), (12, "a * 16", H), (12, "a * 2049", H), (12, "9 * a", H), (12, "11 * a", N),
        (12, "a * 9", N), (12, "a * 17", T), (12, "a * 24", T), (12, "4097 * a", H),
        (16, "a * 32768", H), (16, "a * 2", H), (16, "a * 256", H), (16, "3 * a", H), (16, "7 * a", N),
        (16, "32769 * a", H), (16, "40000 * a", T),
        (4, "a * 4096", H), (6, "a * 1024", H), (4, "a * 4095", T), (2, "a * 65535", T),
    ):
        _p(out, "*:const", f"a: Qint[{w}]", "Qint[16]", e, **kw)
    for wl, wr, kw in ((2, 16, H), (2, 12, H), (3, 16, T), (3, 12, N), (12, 2, T), (4, 12, T), (4, 16, T)):
        _p(out, "*:vv", f"a: Qint[{wl}], b: Qint[{wr}]", "Qint[16]", "a * b", **kw)
    # two variables: a mask leaves the left operand with one to three bits that are not `False` (sympy folds
    # `And(a.i, False)`), the rows of the schoolbook loop that remain are chosen by the mask
    for wl, wr, e, kw in (
        (16, 16, "(a & 32769) * b", H), (16, 16, "(a & 49152) * b", H), (16, 16, "(a & 16385) * b", H),
        (16, 16, "(a & 32768) * b", H), (16, 16, "(a & 1) * b", H), (16, 16, "(a & 32771) * b", H),
        (12, 12, "(a & 2049) * b", H), (12, 12, "(a & 3072) * b", H), (16, 12, "(a & 32769) * b", H),
        (12, 16, "(a & 2049) * b", H), (16, 16, "a * (b & 32768)", H), (16, 16, "a * (b & 1)", H),
        (12, 12, "a * (b & 2048)", H), (16, 16, "(a & 24577) * b", T), (16, 16, "(a & 7) * b", T),
    ):
        _p(out, "*:mask", f"a: Qint[{wl}], b: Qint[{wr}]", "Qint[16]", e, **kw)
    for e in ("32768 * a", "49152 * a", "32771 * a", "49153 * a"):
        _p(out, "*:const", "a: Qint[16]", "Qint[16]", e, **H)
    for e in ("2049 * a", "3073 * a"):
        _p(out, "*:const", "a: Qint[12]", "Qint[16]", e, **H)
    _p(out, "*:ret", "a: Qint[12]", "Qint[8]", "a * 16", **H)
    _p(out, "*:ret", "a: Qint[12]", "Qint[12]", "a * 8", **H)
    _p(out, "*:expr", "a: Qint[16], b: Qint[16]", "Qint[16]", "(a & 255) * 256 + (b & 255)", **H)
    _p(out, "*:expr", "a: Qint[12], b: Qint[2]", "Qint[16]", "b * a + a", **H)
    _p(out, "*:expr", "a: Qint[8], b: Qint[8]", "bool", "a * 256 > b * 257", **N)
    _p(out, "*:stmt", "a: Qint[8]", "Qint[16]", ["c = a", "c *= 256", "c += a", "return c"], **H)
    _p(out, "*:pow", "a: Qint[2]", "Qint[16]", "a ** 4", **N)
    if not thorough:
        out = [p for p in out if not p["thorough_only"]]
    return out


def gen_program(rng, k):
    """random member of the class: 1-3 arguments, at least one Qint[12] / Qint[16]; an expression of depth <= 2 over
    + - & | ^ << >> ~, literals at the edges of the constant types, products only in the shapes the library can
    translate (variable * 2^k, small-literal * variable); returned as Qint[8 / 12 / 16], or compared / selected"""
    n = rng.randint(1, 3)
    widths = [rng.choice(WIDE)] + [rng.choice([2, 3, 4, 5, 6, 7, 8, 12, 16]) for _ in range(n - 1)]
    rng.shuffle(widths)
    names = ["a", "b", "c"][:n]
    heavy = [False]
    lits = [1, 2, 3, 255, 256, 257, 4095, 4096, 4097, 32767, 32768, 65535]

    def atom():
        if rng.random() < 0.75:
            return rng.choice(names)
        return str(rng.choice(lits))

    def expr(d):
        if d <= 0 or rng.random() < 0.2:
            return atom()
        r = rng.random()
        if r < 0.62:
            x, y = expr(d - 1), expr(d - 1)
            if x.isdigit() and y.isdigit():      # a constant sub-expression is folded before the library types it
                x = rng.choice(names)
            return f"({x} {rng.choice(ARITH)} {y})"
        if r < 0.76:
            x = expr(d - 1)
            if x.isdigit():
                x = rng.choice(names)
            return f"({x} {rng.choice(['<<', '>>'])} {rng.choice([0, 1, 3, 8, 11, 15])})"
        if r < 0.84:
            x = expr(d - 1)
            return f"(~{x})" if not x.lstrip("-").isdigit() else f"(~{rng.choice(names)})"
        if r < 0.92:
            heavy[0] = True
            v = rng.choice(names)
            if rng.random() < 0.5:
                return f"({v} * {2 ** rng.randint(1, 15)})"
            return f"({rng.choice([2, 3, 5, 256, 257, 4096, 32768])} * {v})"
        return f"({expr(d - 1)} if {rng.choice(names)} {rng.choice(CMPS)} {atom()} else {expr(d - 1)})"

    r = rng.random()
    if r < 0.3:
        ret, e = "bool", f"{expr(2)} {rng.choice(CMPS)} {expr(1)}"
    else:
        ret, e = f"Qint[{rng.choice([8, 12, 16, 16])}]", expr(2)
    sig = ", ".join(f"{v}: Qint[{w}]" for v, w in zip(names, widths))
    return dict(tag="rand:wide", src=f"def fnw_{k}({sig}) -> {ret}:\n\treturn {e}", heavy=heavy[0],
                profiles=("none", "default") if k % 3 == 0 else ("none",))


# ----------------------------------------------------------------------------- library functions one by one
def arith_cases(thorough):
    """`QintImp` functions on operands of the largest widths, on sampled rows: dict(fn, l, r[, k])"""
    out = []
    fns = ["eq", "neq", "gt", "lt", "lte", "gte", "add", "sub", "xor", "and", "or"]
    pairs = [(12, 12), (16, 16), (12, 16), (16, 12), (2, 16), (16, 3), (8, 12)]
    for fn in fns:
        for wl, wr in pairs:
            out.append(dict(fn=fn, l=["var", "a", wl], r=["var", "b", wr]))
        for w, cw, cv in ((12, 12, 4095), (16, 16, 65535), (16, 16, 32768), (8, 12, 256), (12, 16, 4096), (16, 2, 1)):
            out.append(dict(fn=fn, l=["var", "a", w], r=["const", cw, cv]))
            out.append(dict(fn=fn, l=["const", cw, cv], r=["var", "a", w]))
    for w in WIDE:
        for k in (0, 1, w // 2, w - 1, w, w + 1):
            out.append(dict(fn="shl", l=["var", "a", w], r=["const", 2, 0], k=k))
            out.append(dict(fn="shr", l=["var", "a", w], r=["const", 2, 0], k=k))
        out.append(dict(fn="not", l=["var", "a", w], r=["const", 2, 0]))
        for cv in (1, 2, 256, 2 ** (w - 1)):
            out.append(dict(fn="mod", l=["var", "a", w], r=["const", w, cv]))
    # products: the constant typed as `const_to_qtype` types the literal (least of Qint2/4/6/8/12/16)
    def cw_of(v):
        return pysem.const_ty(v)[1]

    for w, cv, side in ((8, 256, "r"), (8, 257, "r"), (8, 384, "r"), (8, 512, "l"), (8, 300, "l"), (8, 2048, "r"),
                        (12, 8, "r"), (12, 16, "r"), (12, 2049, "r"), (12, 9, "l"), (12, 11, "l"), (12, 4097, "l"),
                        (16, 32768, "r"), (16, 2, "r"), (16, 256, "r"), (16, 3, "l"), (16, 7, "l"), (16, 32769, "l"),
                        (4, 4096, "r"), (6, 1024, "r")):
        v, c = ["var", "a", w], ["const", cw_of(cv), cv]
        out.append(dict(fn="mul", l=v if side == "r" else c, r=c if side == "r" else v))
    for wl, wr in ((2, 16), (2, 12), (3, 12)) + (((3, 16),) if thorough else ()):
        out.append(dict(fn="mul", l=["var", "a", wl], r=["var", "b", wr]))
    # ["mvar", name, w, mask]: a variable whose bits outside the mask are `False` (what `a & mask` translates to)
    for wl, ml, wr in ((16, 32769, 16), (16, 49152, 16), (16, 16385, 16), (16, 32768, 16), (16, 1, 16), (16, 32771, 16),
                       (12, 2049, 12), (12, 3072, 12), (16, 32769, 12), (12, 2049, 16)):
        out.append(dict(fn="mul", l=["mvar", "a", wl, ml], r=["var", "b", wr]))
    for wl, wr, mr in ((16, 16, 32768), (16, 16, 1), (12, 12, 2048)):
        out.append(dict(fn="mul", l=["var", "a", wl], r=["mvar", "b", wr, mr]))
    for w, cv in ((16, 32768), (16, 49152), (16, 32771), (16, 49153), (12, 2049), (12, 3073)):
        out.append(dict(fn="mul", l=["const", cw_of(cv), cv], r=["var", "a", w]))
    if thorough:
        out.append(dict(fn="mul", l=["var", "a", 12], r=["const", 4, 9]))
        out.append(dict(fn="mul", l=["var", "a", 12], r=["const", 6, 17]))
    return out


def arith_rows(case, rng, cap):
    """row numbers for a library-function case (operands packed like the variables of `c01.arith`)"""
    args = [(o[1], pysem.qint(o[2])) for o in (case["l"], case["r"]) if o[0] in ("var", "mvar")]
    fn = case["fn"]
    ret = pysem.BOOL if fn in ("eq", "neq", "gt", "lt", "lte", "gte") else pysem.qint(16)
    return sample_rows(args, ret, rng, cap)
