"""Program and expression-list generators shared by the front-end and compiler checks.

All random choices come from the `rng` passed in.  Function names come from a pool that avoids
the library's module globals and the locals of QlassF.from_function (a program called `copy` or
`f` breaks the interpreter for later cases: that is C10's business, exercised only there).
"""
from __future__ import annotations

import json
import os

HERE = os.path.dirname(os.path.dirname(os.path.abspath(__file__)))


def suite_programs():
    """programs taken once from the repository's own tests (static corpus)"""
    return json.load(open(os.path.join(HERE, "corpus", "suite_programs.json")))


# ------------------------------------------------------------------ python programs

BOOL_VARS = ["a", "b", "c", "d", "e"]


def gen_bool_expr(rng, vars_, depth):
    if depth <= 0 or rng.random() < 0.2:
        v = rng.choice(vars_)
        return v if rng.random() < 0.75 else f"(not {v})"
    r = rng.random()
    if r < 0.3:
        return f"({gen_bool_expr(rng, vars_, depth - 1)} and {gen_bool_expr(rng, vars_, depth - 1)})"
    if r < 0.55:
        return f"({gen_bool_expr(rng, vars_, depth - 1)} or {gen_bool_expr(rng, vars_, depth - 1)})"
    if r < 0.75:
        return f"({gen_bool_expr(rng, vars_, depth - 1)} ^ {gen_bool_expr(rng, vars_, depth - 1)})"
    if r < 0.83:
        return f"(not {gen_bool_expr(rng, vars_, depth - 1)})"
    if r < 0.9:
        op = rng.choice(["==", "!="])
        return f"({gen_bool_expr(rng, vars_, depth - 1)} {op} {gen_bool_expr(rng, vars_, depth - 1)})"
    if r < 0.96:
        return (f"({gen_bool_expr(rng, vars_, depth - 1)} if {gen_bool_expr(rng, vars_, depth - 1)} "
                f"else {gen_bool_expr(rng, vars_, depth - 1)})")
    n = rng.randint(3, 4)
    op = rng.choice([" and ", " or "])
    return "(" + op.join(gen_bool_expr(rng, vars_, depth - 2) for _ in range(n)) + ")"


def gen_bool_program(rng, k, nvars=None, depth=None, stmts=None):
    nvars = nvars or rng.randint(2, 5)
    depth = depth or rng.randint(2, 4)
    vars_ = BOOL_VARS[:nvars]
    args = ", ".join(f"{v}: bool" for v in vars_)
    body = []
    names = list(vars_)
    stmts = rng.choice([0, 0, 1, 2]) if stmts is None else stmts
    for i in range(stmts):
        t = f"t{i}"
        body.append(f"\t{t} = {gen_bool_expr(rng, names, depth - 1)}")
        names.append(t)
    body.append(f"\treturn {gen_bool_expr(rng, names, depth)}")
    return f"def fnb_{k}({args}) -> bool:\n" + "\n".join(body)


INT_WIDTHS = [2, 3, 4]


def gen_int_expr(rng, ivars, bvars, depth, allow_mul=True):
    """ivars: list of (name, width)"""
    if depth <= 0 or rng.random() < 0.25:
        if rng.random() < 0.7 and ivars:
            return rng.choice(ivars)[0]
        return str(rng.choice([0, 1, 2, 3, 4, 5, 6, 7, 8, 10, 12, 15, 16]))
    r = rng.random()
    a = gen_int_expr(rng, ivars, bvars, depth - 1, allow_mul)
    b = gen_int_expr(rng, ivars, bvars, depth - 1, allow_mul)
    if r < 0.25:
        return f"({a} + {b})"
    if r < 0.4:
        return f"({a} - {b})"
    if r < 0.5 and allow_mul:
        return f"({a} * {b})"
    if r < 0.6:
        return f"({a} ^ {b})"
    if r < 0.7:
        return f"({a} & {b})"
    if r < 0.78:
        return f"({a} | {b})"
    if r < 0.86:
        return f"({a} {rng.choice(['<<', '>>'])} {rng.randint(0, 3)})"
    if r < 0.92 and ivars:
        return f"(~{rng.choice(ivars)[0]})"
    c = gen_cmp(rng, ivars, bvars, depth - 1)
    return f"({a} if {c} else {b})"


def gen_cmp(rng, ivars, bvars, depth):
    r = rng.random()
    if bvars and r < 0.2:
        return rng.choice(bvars)
    op = rng.choice(["==", "!=", "<", "<=", ">", ">="])
    return f"({gen_int_expr(rng, ivars, bvars, depth, False)} {op} {gen_int_expr(rng, ivars, bvars, depth, False)})"


def gen_int_program(rng, k, max_bits=8):
    n = rng.randint(1, 3)
    ivars, bvars, args, bits = [], [], [], 0
    for i in range(n):
        name = "abc"[i]
        if rng.random() < 0.2 and bits + 1 <= max_bits:
            bvars.append(name)
            args.append(f"{name}: bool")
            bits += 1
        else:
            w = rng.choice(INT_WIDTHS)
            if bits + w > max_bits:
                w = 2
            if bits + w > max_bits:
                continue
            ivars.append((name, w))
            args.append(f"{name}: Qint[{w}]")
            bits += w
    if not ivars:
        ivars.append(("a", 2))
        args = ["a: Qint[2]"] + [x for x in args if not x.startswith("a:")]
    depth = rng.randint(1, 3)
    if rng.random() < 0.4:
        ret, body = "bool", gen_cmp(rng, ivars, bvars, depth)
    else:
        ret, body = f"Qint[{rng.choice([2, 3, 4, 6, 8])}]", gen_int_expr(rng, ivars, bvars, depth)
    return f"def fni_{k}({', '.join(args)}) -> {ret}:\n\treturn {body}"


STATEMENT_PROGRAMS = [
    "def st_0(a: Qint[2], b: bool) -> Qint[2]:\n\tc = a\n\tif b:\n\t\tc = a + 1\n\treturn c",
    "def st_1(a: Qint[2], b: bool) -> Qint[2]:\n\tc = a\n\tif b:\n\t\tc = a + 1\n\telse:\n\t\tc = a + 2\n\treturn c",
    "def st_2(a: Qint[2]) -> Qint[4]:\n\ts = 0\n\tfor i in range(3):\n\t\ts += a\n\treturn s",
    "def st_3(a: Tuple[bool, bool, bool]) -> bool:\n\tr = False\n\tfor x in a:\n\t\tr = r ^ x\n\treturn r",
    "def st_4(a: Qint[2], b: Qint[2]) -> Tuple[Qint[2], bool]:\n\treturn (a + b, a > b)",
    "def st_5(a: Qint[4]) -> Qint[4]:\n\tb = a\n\tb += 3\n\tb = b ^ a\n\treturn b",
    "def st_6(a: Qlist[Qint[2], 3], i: Qint[2]) -> Qint[2]:\n\treturn a[i]",
    "def st_7(a: Qint[2], b: Qint[2]) -> Qint[2]:\n\tc, d = a, b\n\treturn c + d",
    "def st_8(a: bool, b: bool, c: bool) -> bool:\n\tt = a and b\n\tu = t or c\n\tv = t ^ u\n\treturn v and not t",
    "def st_9(a: Qint[3]) -> bool:\n\treturn a[0] and (a[1] or not a[2])",
    "def st_10(a: Qint[2], b: Qint[2]) -> Qint[2]:\n\treturn max(a, b)",
    "def st_11(a: Qint[2], b: Qint[2]) -> Qint[2]:\n\treturn min(a, b)",
    "def st_12(a: Tuple[Qint[2], Qint[2]]) -> Qint[2]:\n\treturn sum(a)",
    "def st_13(a: Tuple[bool, bool, bool]) -> bool:\n\treturn all(a)",
    "def st_14(a: Tuple[bool, bool, bool]) -> bool:\n\treturn any(a)",
    "def st_15(a: Qchar) -> bool:\n\treturn a == 'z'",
    "def st_16(a: Qint[2]) -> Qint[2]:\n\tc = [1, 2, 3, 0]\n\treturn c[a]",
    "def st_17(a: Qint[2], b: Qint[2]) -> bool:\n\treturn a + 1 == b",
    "def st_18(a: Qfixed[1, 2], b: Qfixed[1, 2]) -> Qfixed[1, 2]:\n\treturn a + b",
    "def st_19(a: Qfixed[1, 3], b: Qfixed[1, 3]) -> bool:\n\treturn a > b",
    "def st_20(a: Qint[4]) -> Qint[4]:\n\treturn a % 4",
    "def st_21(a: Qint[2], b: Qint[2], c: bool) -> Qint[2]:\n\td = a if c else b\n\treturn d - 1",
    "def st_22(a: bool, b: bool) -> Tuple[bool, bool]:\n\treturn (a and b, a ^ b)",
    "def st_23(a: Qint[2]) -> Qint[4]:\n\treturn a * a",
    "def st_24(a: Qint[2], b: Qint[2]) -> bool:\n\treturn (a ^ b) == 3 or a < b",
    # if statements whose (compound) condition guards several assignments / an else branch: the condition holder
    # symbol is read by more than one generated definition
    "def st_25(a: bool, b: bool, c: Qint[2]) -> Qint[2]:\n\td = c\n\te = c\n\tif a and b:\n\t\td = c + 1\n\t\te = c + 2\n\treturn d ^ e",
    "def st_26(a: bool, b: bool, c: bool) -> bool:\n\td = c\n\te = not c\n\tif a or b:\n\t\td = not c\n\t\te = c\n\telse:\n\t\te = a\n\treturn d and e",
    "def st_27(a: Qint[2], b: Qint[2]) -> Qint[2]:\n\tc = a\n\td = b\n\tif a > b:\n\t\tc = b\n\t\td = a\n\treturn c + d",
    "def st_28(a: bool, b: bool) -> bool:\n\tc = False\n\td = False\n\tif a:\n\t\tc = b\n\t\td = not b\n\treturn c or d",
    # locals whose names merely start like the return symbol or like internal helpers
    "def st_29(a: bool, b: bool, c: bool) -> bool:\n\t_retval = a and b\n\t_retry = _retval or c\n\treturn _retry ^ a",
    "def st_30(a: Qint[2], b: Qint[2]) -> Qint[2]:\n\t_ret_lo = a ^ b\n\t_return_code = _ret_lo + 1\n\treturn _return_code",
    "def st_31(a: bool, b: bool) -> Tuple[bool, bool]:\n\t_retx = a and not b\n\tanc_0 = _retx or b\n\treturn (anc_0, _retx ^ a)",
    "def st_32(a: bool, b: bool, c: bool, d: bool) -> bool:\n\tt = a and not d\n\tu = not b\n\treturn (t or c) and u",
]


# ------------------------------------------------------------------ definition lists (sympy level)

def gen_bexp(rng, syms, depth, allow=("and", "or", "xor", "not")):
    """random JSON BExp over symbol names `syms`"""
    if depth <= 0 or rng.random() < 0.25:
        s = ["sym", rng.choice(syms)]
        return s if rng.random() < 0.75 else ["not", s]
    k = rng.choice(allow)
    if k == "not":
        return ["not", gen_bexp(rng, syms, depth - 1, allow)]
    n = 2 if rng.random() < 0.75 else rng.randint(3, 4)
    return [k] + [gen_bexp(rng, syms, depth - 1, allow) for _ in range(n)]


def gen_defs(rng, k, max_inputs=5):
    """a definition list as the front-end could hand it to the compiler:
    inputs, [(name, bexp json)], ret names; intermediates, re-binding, several ret bits"""
    n = rng.randint(2, max_inputs)
    inputs = [f"v{i}" for i in range(n)]
    names = list(inputs)
    defs = []
    for i in range(rng.choice([0, 0, 1, 2, 3])):
        nm = rng.choice([f"m{i}", f"m{i}", f"__m{i}"])
        defs.append([nm, gen_bexp(rng, names, rng.randint(1, 3))])
        names.append(nm)
    nret = rng.choice([1, 1, 1, 2, 3])
    rets = ["_ret"] if nret == 1 else [f"_ret.{i}" for i in range(nret)]
    for r in rets:
        defs.append([r, gen_bexp(rng, names, rng.randint(1, 4))])
    return dict(name=f"defs_{k}", inputs=inputs, defs=defs, rets=rets)


# Shapes for the compiler checks (C02/C03/C06) that the random generators hit rarely: return bits that share a
# qubit or are constants (fewer qubits than inputs + return bits), a returned variable that another statement
# reads, user names that merely start with `_ret`, a parameter that is re-bound and the same expression text
# evaluated before and after, wide `or`s with compound operands below a binary `or`, conditional expressions
# (expanded after CSE).  Every program is compiled with both optimizer profiles.
COMPILER_SHAPE_PROGRAMS = [
    "def sh_0(a: Qint[4]) -> Qint[8]:\n\treturn a + 3",
    "def sh_1() -> Qint[4]:\n\tc, d = 1, 2\n\treturn c + d",
    "def sh_2(a: Qint[3], b: bool) -> Qint[8]:\n\treturn 10 - a",
    "def sh_3(a: bool, b: bool, c: bool, d: bool) -> Tuple[bool, bool, bool, bool]:\n\tt = a and b\n\treturn (t, t, c ^ d, t)",
    "def sh_4(a: bool, b: bool) -> Tuple[bool, bool, bool]:\n\treturn (a, a, b)",
    "def sh_5(a: bool, b: bool) -> Tuple[bool, bool]:\n\treturn (False, a and b)",
    "def sh_6(a: bool) -> bool:\n\treturn True",
    "def sh_7(a: Qint[2]) -> Qint[4]:\n\treturn a",
    "def sh_8(a: bool, b: bool, c: bool) -> Tuple[bool, bool]:\n\tt = (a and b) or c\n\treturn (t, not t)",
    "def sh_9(a: bool, b: bool, c: bool) -> bool:\n\tp = a and b\n\tq = p or c\n\treturn p",
    "def sh_10(a: bool, b: bool, c: bool) -> bool:\n\tp = a and b\n\tq = p or c\n\treturn q and p",
    "def sh_11(a: bool, b: bool, c: bool) -> bool:\n\t_ret_lo = (a and b) or (not c)\n\treturn _ret_lo and a",
    "def sh_12(a: bool, b: bool, c: bool) -> Tuple[bool, bool]:\n\t_retx = (a or b) and c\n\t_ret_1 = _retx ^ a\n\treturn (_retx or b, _ret_1 and c)",
    "def sh_13(a: bool, b: bool, c: bool) -> bool:\n\tx = (a or b) and c\n\ta = not a\n\ty = (a or b) and c\n\treturn x ^ y",
    "def sh_14(a: bool, b: bool, c: bool) -> Tuple[bool, bool]:\n\tx = (a and b) or c\n\tb = a ^ b\n\ty = (a and b) or c\n\tb = not b\n\tz = (a and b) or c\n\treturn (x ^ y, y ^ z)",
    "def sh_15(a: bool, b: bool, c: bool) -> Tuple[bool, bool]:\n\treturn (a or b or c, not a and not b and not c)",
    "def sh_16(a: bool, b: bool, c: bool, d: bool) -> bool:\n\treturn (a and not (c or d)) or ((c or d) and not b)",
    "def sh_17(a: bool, b: bool, c: bool, d: bool, e: bool) -> bool:\n\treturn (((a and b) or (b and c) or (c and d) or (d and a)) and e) or (a and c)",
    "def sh_18(a: bool, b: bool, c: bool, d: bool, e: bool) -> bool:\n\treturn ((((a and b) or c or d or (not e)) and (b ^ e)) or (c and e))",
    "def sh_19(a: bool, b: bool, c: bool, d: bool) -> Tuple[bool, bool]:\n\tt = (c if a else b) and d\n\treturn (t or b, (c if a else t) != d)",
    "def sh_20(a: bool, b: bool, c: bool, d: bool) -> Tuple[bool, bool]:\n\tt = (c if a else b) or d\n\tu = (b if t else c) and a\n\treturn ((c if a else b) ^ u, t and (b if t else c))",
    "def sh_21(a: Qint[2], b: Qint[2]) -> Tuple[Qint[2], Qint[2], bool]:\n\tc = a + b\n\ta = c ^ b\n\td = a + b\n\treturn (c, d, c == d)",
    "def sh_22(a: bool, b: bool, c: bool) -> Tuple[bool, bool, bool]:\n\tt = a and b\n\tu = t\n\tv = u or c\n\treturn (u, t, v)",
    "def sh_23(a: bool, b: bool) -> Tuple[bool, bool]:\n\tt = a ^ b\n\tt = t and a\n\tt = t or b\n\treturn (t, a)",
]


def gen_defs_rebind(rng, k, max_inputs=4):
    """a definition list with what `gen_defs` leaves out: names bound twice, an INPUT that is re-bound, the same
    expression (structurally) before and after a re-binding and in several definitions (cache hits), names that
    merely start with `_ret`, a return bit that is a bare name / a constant / equal to another return bit,
    definitions nobody reads, return bits defined before the last intermediate.  Like the front end, no definition
    reads its own target except in the guarded form of an `if` statement (`t = (t & ~g) | (g & e)`); a re-binding
    that reads the old value goes through the temporary `__<name>`."""
    n = rng.randint(2, max_inputs)
    inputs = [f"v{i}" for i in range(n)]
    names = list(inputs)
    pool = [gen_bexp(rng, inputs, rng.randint(1, 2)) for _ in range(rng.randint(1, 3))]

    def expr(depth):
        r = rng.random()
        if r < 0.35:
            return rng.choice(pool)
        if r < 0.5:
            k_ = rng.choice(["and", "or", "xor"])
            return [k_, rng.choice(pool), gen_bexp(rng, names, max(depth - 1, 0))]
        if r < 0.6:
            return ["not", rng.choice(pool)]
        e = gen_bexp(rng, names, depth)
        if e[0] != "sym" and rng.random() < 0.5:
            pool.append(e)
        return e

    nret = rng.choice([1, 1, 2, 3])
    rets = ["_ret"] if nret == 1 else [f"_ret.{i}" for i in range(nret)]
    pending = list(rets)
    defs = []
    steps = rng.randint(2, 6)
    for i in range(steps):
        r = rng.random()
        if r < 0.2:
            nm = rng.choice(inputs)  # an input is re-bound
        elif r < 0.4 and [x for x in names if x not in inputs]:
            nm = rng.choice([x for x in names if x not in inputs])  # bound again
        elif r < 0.5:
            nm = rng.choice(["_ret_lo", "_retx", "_ret_1"])
        elif r < 0.6:
            nm = f"__m{i}"
        else:
            nm = f"m{i}"
        e = expr(rng.randint(1, 3))
        if reads(e, nm):
            # the front end never hands over a definition that reads its own target: visit_Assign / visit_AugAssign
            # go through the temporary `__<name>`, visit_If builds the guarded form `t = (t & ~g) | (g & e)`
            if rng.random() < 0.3 and len(names) > 1:
                g = rng.choice([x for x in names if x != nm])
                clean = subst_sym(e, nm, rng.choice([x for x in names if x != nm]))
                # as the front end hands it over: (t & ~g) | (g & e)
                defs.append([nm, ["or", ["and", ["sym", nm], ["not", ["sym", g]]], ["and", ["sym", g], clean]]])
            else:
                defs.append(["__" + nm, e])
                defs.append([nm, ["sym", "__" + nm]])
        else:
            defs.append([nm, e])
        if nm not in names:
            names.append(nm)
        if pending and rng.random() < 0.3:
            defs.append([pending.pop(0), ret_expr(rng, names, expr)])
    for r_ in pending:
        defs.append([r_, ret_expr(rng, names, expr)])
    return dict(name=f"defsr_{k}", inputs=inputs, defs=defs, rets=rets)


def reads(e, nm):
    if e[0] == "sym":
        return e[1] == nm
    return any(reads(x, nm) for x in e[1:] if isinstance(x, list))


def subst_sym(e, nm, other):
    if e[0] == "sym":
        return ["sym", other] if e[1] == nm else e
    return [e[0]] + [subst_sym(x, nm, other) if isinstance(x, list) else x for x in e[1:]]


def ret_expr(rng, names, expr):
    r = rng.random()
    if r < 0.2:
        return ["sym", rng.choice(names)]
    if r < 0.25:
        return ["tt"] if rng.random() < 0.5 else ["ff"]
    return expr(rng.randint(1, 3))
