"""C16 - Deutsch-Jozsa, Bernstein-Vazirani, Simon circuits meet textbook guarantees.

Always-on search on the real code: the real algorithm objects are built for every
constant/balanced function on 1..3 bits (several argument types and expression forms, samples on
4 bits), every secret on 1..5 bits (`secret_oracle` for 2..5 bits, a bool function for 1 bit,
linear functions on tuple types), every period on 2..4 bits with several two-to-one functions
each.  For each object: the exact output distribution on the object's `output_qubits` from the
harness' own state-vector simulator (harness/circ.py) is compared with the textbook guarantee
computed from the truth table the function was generated from; every outcome with non-zero
probability is passed through `decode_output` / `decode_counts` and compared with an
independent decoding of the measured bits.
Correspondence: the algorithm circuit's gate list == `QV.Algo.{dj,bv,simon}Gates`, amplitudes of
the real gate list == `QV.Amp.run` (integer amplitudes / 2^{h/2}), `runClassical` of the black
box == harness classical simulator, `decode_output` == `QV.Algo.{djDecode,argDecode}`.
Repeated use / argument purity of the decoders (`purity_block`): every reading (str, int, List[bool]; exact, longer,
shorter) is decoded several times on ONE object - by the algorithm object, a second object of the same class and an
object of the other class on the same function -, the caller's object is compared with its snapshot after every call,
every call is judged by the same independent decoding and compared with the stateless model; `decode_counts` three
times on one dict.  Configurations: `case["profile"]` (default / fast optimizer profile) is part of every case.
The theorems' hypothesis (black box = clean xor-oracle on classical basis states) is checked per
black box with the classical simulator; a black box that fails it is skipped and counted (it is
a C02/C03/C06 matter).
"""
from __future__ import annotations

import importlib
import itertools
import json
import math

from . import circ, e2e
from .common import Ctx, Result

LEVEL = "proof"
TOL = 1e-9
FID_DECODE = "C16-dj-decode-nonint"
FID_INTPAD = "C16-decode-int-padright"


# ----------------------------------------------------------------------------- functions

def anf(tt, n):
    c = list(tt)
    for i in range(n):
        for x in range(2 ** n):
            if x >> i & 1:
                c[x] ^= c[x ^ (1 << i)]
    return [m for m in range(2 ** n) if c[m]]


def expr_anf(tt, n, var):
    ms = anf(tt, n)
    if not ms:
        return "False"
    terms = []
    for m in ms:
        if m == 0:
            terms.append("True")
        else:
            terms.append("(" + " & ".join(var(i) for i in range(n) if m >> i & 1) + ")")
    return " ^ ".join(terms)


def expr_dnf(tt, n, var):
    ones = [x for x in range(2 ** n) if tt[x]]
    if not ones:
        return "False"
    if len(ones) == 2 ** n:
        return "True"
    terms = []
    for x in ones:
        lits = [(var(i) if x >> i & 1 else f"(not {var(i)})") for i in range(n)]
        terms.append("(" + " and ".join(lits) + ")")
    return " or ".join(terms)


# argument types: name -> (n, python source of the type, model type JSON, variable of bit i)
def arg_types(n):
    out = []
    if n == 1:
        out.append(("bool", "bool", ["bool"], lambda i: "x"))
        return out
    out.append((f"Qint[{n}]", f"Qint[{n}]", ["qint", n], lambda i: f"x[{i}]"))
    out.append((f"Tuple[{','.join(['bool'] * n)}]", f"Tuple[{','.join(['bool'] * n)}]",
                ["tuple"] + [["bool"]] * n, lambda i: f"x[{i}]"))
    out.append((f"Qlist[bool,{n}]", f"Qlist[bool,{n}]", ["tuple"] + [["bool"]] * n, lambda i: f"x[{i}]"))
    if n >= 3:
        w = n - 1
        out.append((f"Tuple[bool,Qint[{w}]]", f"Tuple[bool,Qint[{w}]]", ["tuple", ["bool"], ["qint", w]],
                    lambda i: "x[0]" if i == 0 else f"x[1][{i - 1}]"))
    return out


def expected_value(tj, bits):
    """independent decoding of the measured bits (bits[k] = qubit k) in the argument type"""
    if tj[0] == "bool":
        return {"b": bool(bits[0])}
    if tj[0] == "qint":
        return {"i": sum(1 << k for k, b in enumerate(bits[: tj[1]]) if b)}
    if tj[0] == "tuple":
        vals, pos = [], 0
        for t in tj[1:]:
            sz = 1 if t[0] == "bool" else t[1]
            vals.append(expected_value(t, bits[pos: pos + sz]))
            pos += sz
        return {"t": vals}
    raise ValueError(tj)


def code_value(v):
    if isinstance(v, bool):
        return {"b": v}
    if isinstance(v, (tuple, list)):
        return {"t": [code_value(e) for e in v]}
    if hasattr(v, "value"):
        return {"i": int(v.value)}
    if isinstance(v, int):
        return {"i": int(v)}
    return {"?": repr(v)}


def bool_src(ty_src, body):
    return f"def f(x: {ty_src}) -> bool:\n    return {body}\n"


def simon_src(ty_src, n, table, var):
    outs = []
    for j in range(n):
        tt = [bool(table[x] >> j & 1) for x in range(2 ** n)]
        outs.append(expr_anf(tt, n, var))
    rty = ",".join(["bool"] * n)
    return f"def f(x: {ty_src}) -> Tuple[{rty}]:\n    return ({', '.join(outs)})\n"


def parity(v):
    return bin(v).count("1") & 1


# ----------------------------------------------------------------------------- configuration

def profile_kw(case):
    """keyword arguments of `QlassF.from_function` for the optimizer profile recorded in the case"""
    prof = case.get("profile", "default")
    if prof == "default":
        return {}
    bo = importlib.import_module("qlasskit.boolopt.bool_optimizer")
    return dict(bool_optimizer=getattr(bo, {"fast": "fastOptimizer"}[prof]))


# ----------------------------------------------------------------------------- repeated use / argument purity

PURITY_OUTCOMES = 8   # outcomes per algorithm object (evenly spaced over the possible ones) in the systematic slice
VARIANTS = 2          # randomised call sequences per algorithm object


def expected_decode(algo, tj, ybits):
    if algo == "dj":
        return "Constant" if not any(ybits) else "Balanced"
    return expected_value(tj, ybits)


def readings_of(full, ybits):
    """every way the measured outcome `full` (qubit 0 rightmost; `ybits[k]` = output qubit k) can be handed to a
    decoder: (label, reading, model key).  By construction each of them denotes the same measured output bits:
    a str / List[bool] longer than n carries the other qubits on the left, a shorter one has its zero low-order
    end dropped (format_outcome's right padding), an int is the number the digit string denotes."""
    short = "".join("1" if b else "0" for b in reversed(ybits))
    bl = lambda t: [c == "1" for c in t]  # noqa: E731
    reps = [("str-long", full, ("s", full)), ("str-exact", short, ("s", short)),
            ("int-long", int(full, 2), ("i", int(full, 2))), ("int-exact", int(short, 2), ("i", int(short, 2))),
            ("list-exact", bl(short), ("s", short)), ("list-long", bl(full), ("s", full))]
    stripped = short.rstrip("0")
    if stripped != short:
        reps += [("str-short", stripped, ("s", stripped)), ("list-short", bl(stripped), ("s", stripped))]
    return reps


def same_object(obj, snap):
    if type(obj) is not type(snap):
        return False
    if isinstance(obj, list):
        return len(obj) == len(snap) and all(type(x) is bool and x is y for x, y in zip(obj, snap))
    return obj == snap


def purity_block(case, out, a, other, cls, qf, A, outcomes, N, active_quirks):
    """REPEATED USE and ARGUMENT PURITY of `decode_output`: every reading object is decoded several times by the
    same algorithm object, by a second object of the same class and (Deutsch-Jozsa <-> Bernstein-Vazirani) by an
    object of the other class built on the same function; each call must report the measured outcome (the
    per-call oracle), the caller's object must be bit for bit what it was before the first call, and each call is
    compared with the (stateless) model's decoding of the original reading."""
    import random
    algo, n, tj = case["algo"], case["n"], case["tj"]
    cross, calgo = None, None
    if algo in ("dj", "bv"):
        calgo = "bv" if algo == "dj" else "dj"
        try:
            cross = (A.BernsteinVazirani if algo == "dj" else A.DeutschJozsa)(qf)
        except Exception:  # noqa
            cross = None
    decoders = {"a": (a, algo), "b": (other, algo), "c": (cross, calgo)}
    stats = dict(objects=0, calls=0, by_reading={}, by_sequence={}, variants=0)
    out["purity"] = stats
    model_reqs = {}      # (decoder algo, model key, quirks on) -> request
    model_uses = {}      # id(request) -> [(label, call number, who, got)]
    int_cands = out.setdefault("int_candidates", [])
    reported = set()

    def model_req(dalgo, key, quirks_on=True):
        k = (dalgo, key, quirks_on)
        if k not in model_reqs:
            r = dict(op="c16.decode", algo=dalgo, ty=tj, n=n, quirks=list(active_quirks) if quirks_on else [])
            if key[0] == "s":
                r["istr"] = key[1]
            else:
                r["istr"] = ""
                r["int"] = key[1]
            model_reqs[k] = r
            model_uses[id(r)] = []
        return model_reqs[k]

    def run_sequence(label, reading, key, ybits, seq, kind):
        snap = list(reading) if isinstance(reading, list) else reading
        stats["objects"] += 1
        stats["by_reading"][label] = stats["by_reading"].get(label, 0) + 1
        sk = "".join(seq)
        stats["by_sequence"][sk] = stats["by_sequence"].get(sk, 0) + 1
        for k, who in enumerate(seq, 1):
            dec, dalgo = decoders[who]
            if dec is None:
                continue
            expd = expected_decode(dalgo, tj, ybits)
            try:
                d = dec.decode_output(reading)
                got = d if dalgo == "dj" else code_value(d)
            except Exception as e:  # noqa
                got = f"raised {type(e).__name__}: {e}"
            stats["calls"] += 1
            whos = {"a": "the algorithm object", "b": "a second object of the same class", "c": f"a {calgo} object on the same function"}[who]
            info = dict(reading_kind=label, reading=snap if not isinstance(snap, list) else [bool(x) for x in snap],
                        sequence=sk, call=k, decoder=whos, slice=kind)
            if not same_object(reading, snap):
                if ("pure", label) not in reported:
                    reported.add(("pure", label))
                    out["violations"].append(dict(what=f"decode_output modified the caller's {label} reading (call #{k} of sequence {sk})",
                                                  code=repr(reading)[:300], expected=repr(snap)[:300], **info))
                # go on: the later calls on the (now different) object are still judged against the measured outcome
            if got != expd:
                first = who not in seq[:k - 1]
                v = dict(what=(f"decode_output({snap!r}) by {whos} does not report the measured outcome" if first else
                               f"decode_output: call #{k} on the same {label} reading object (sequence {sk}) by {whos} does not report "
                               "the measured outcome; its first call on this object did"), code=got, expected=expd, **info)
                if label.startswith("int") and dalgo != "dj":
                    int_cands.append(dict(v=v, key=key, n=n, asis=model_req(dalgo, key, True), fixed=model_req(dalgo, key, False)))
                elif ("res", label, who) not in reported:
                    reported.add(("res", label, who))
                    out["violations"].append(v)
            if len(model_reqs) < 120 or (dalgo, key, True) in model_reqs:
                model_uses[id(model_req(dalgo, key, True))].append((label, k, sk, whos, got))

    # systematic slice: the same for every seed
    sel = outcomes
    if len(outcomes) > PURITY_OUTCOMES:
        step = (len(outcomes) - 1) / (PURITY_OUTCOMES - 1)
        sel = [outcomes[round(j * step)] for j in range(PURITY_OUTCOMES)]
    for full, ybits in sel:
        for label, reading, key in readings_of(full, ybits):
            seq = ["a", "a", "a", "b"] + (["c"] if cross is not None else []) + ["a"]
            run_sequence(label, reading, key, ybits, seq, "systematic")
    # randomised variants: a random outcome, a random mutable reading (also longer than the register, with
    # arbitrary bits on the left), a random sequence of decoders
    rng = random.Random(f"C16-variant-{case.get('vseed', 0)}")
    avail = [w for w in ("a", "b", "c") if decoders[w][0] is not None]
    for _ in range(VARIANTS if outcomes else 0):
        full, ybits = outcomes[rng.randrange(len(outcomes))]
        reps = [r for r in readings_of(full, ybits) if r[0].startswith("list")]
        junk = "".join(rng.choice("01") for _ in range(rng.randint(1, 3)))
        reps.append(("list-longer", [c == "1" for c in junk + full], ("s", junk + full)))
        label, reading, key = reps[rng.randrange(len(reps))]
        seq = [rng.choice(avail) for _ in range(rng.randint(2, 6))]
        stats["variants"] += 1
        run_sequence(label, reading, key, ybits, seq, "random")

    for r in model_reqs.values():
        uses = model_uses[id(r)]

        def chk(rep, _uses=uses, _r=r):
            for label, k, sk, whos, got in _uses:
                if rep.get("out") != got:
                    return dict(what=f"decode_output of a {label} reading, call #{k} of sequence {sk} by {whos}, differs from the model's "
                                     "decoding of the original reading", code=got, model=rep,
                                reading=_r.get("int", _r.get("istr")))
            return None
        out["reqs"].append((r, chk))


# ----------------------------------------------------------------------------- one case

def bits_of(v, w):
    return [bool(v >> k & 1) for k in range(w)]


def strip_ids(gj):
    return [dict(c=d["c"], n=d["n"], g=d["g"], w=list(d["w"]), p=d["p"]) for d in gj]


def eval_case(case, active_quirks=()):
    """Everything about one algorithm object on the real code.
    Returns dict(skip=..., violations=[...], reqs=[(request, checker)], known=[...])."""
    from qlasskit import QlassF
    A = importlib.import_module("qlasskit.algorithms")
    out = dict(skip=None, violations=[], reqs=[], known_candidates=[])
    algo, n = case["algo"], case["n"]
    tj = case["tj"]
    try:
        with e2e.ChoiceLog() as chlog:
            if case.get("secret_oracle"):
                from qlasskit.algorithms.bernsteinvazirani import secret_oracle
                qf = secret_oracle(n, case["secret"])
            else:
                qf = QlassF.from_function(case["src"], **profile_kw(case))
    except Exception as e:  # noqa
        out["skip"] = f"compile-raised:{type(e).__name__}"
        return out
    try:
        cls = {"dj": A.DeutschJozsa, "bv": A.BernsteinVazirani, "simon": A.Simon}[algo]
        a = cls(qf)
        qc = a.circuit()
        gj = circ.qc_to_json(qc)
        N = qc.num_qubits
        outq = list(a.output_qubits)
    except Exception as e:  # noqa
        out["violations"].append(dict(what=f"building the algorithm object raised {type(e).__name__}: {e}"))
        return out
    fc = qf.circuit()
    oj = circ.qc_to_json(fc)
    m = N - n
    # ---- the black box: hypothesis of the theorems, checked classically
    bad = [d for d in oj if not (circ.is_classical(d) or d["c"] in ("Barrier", "NopGate"))]
    if bad or any(len(set(d["w"])) != len(d["w"]) for d in oj) or fc.num_qubits != N or m < 1:
        out["skip"] = "blackbox-not-classical"
        return out
    ret = None
    if algo in ("dj", "bv"):
        try:
            ret = fc["_ret"]
        except Exception:  # noqa
            out["skip"] = "blackbox-no-ret"
            return out
        if not (n <= ret < N):
            out["skip"] = "blackbox-ret-overlaps-input"
            return out
        tt = case["tt"]
        states = []
        g = []
        for x in range(2 ** n):
            st0 = bits_of(x, n) + [False] * m
            g.append(circ.run_classical(oj, st0)[ret])
            for r in (False, True):
                st = bits_of(x, n) + [False] * m
                st[ret] = r
                res = circ.run_classical(oj, st)
                exp = list(st)
                exp[ret] = r ^ g[x]
                states.append((st, res))
                if res != exp:
                    out["skip"] = "blackbox-not-clean-xor"
        if out["skip"]:
            return out
        if g != [bool(b) for b in tt]:
            if case.get("secret_oracle"):
                # the generator is part of the property: a clean oracle of another function
                out["violations"].append(dict(what="secret_oracle(n, s) compiles to a clean xor-oracle of a function other than x.s",
                                              code=[int(b) for b in g], expected=list(tt)))
                return out
            out["skip"] = "blackbox-wrong-function"
            return out
    else:
        table = case["table"]
        F = {}
        states = []
        for x in range(2 ** n):
            st = bits_of(x, n) + [False] * m
            res = circ.run_classical(oj, st)
            states.append((st, res))
            if res[:n] != st[:n]:
                out["skip"] = "blackbox-changes-input"
                return out
            F[x] = tuple(res[n:])
        s = case["s"]
        for x in range(2 ** n):
            for x2 in range(2 ** n):
                if (F[x] == F[x2]) != (x2 == x or x2 == x ^ s):
                    out["skip"] = "blackbox-not-two-to-one"
        try:
            rq = [fc[f"_ret.{j}"] for j in range(n)]
            for x in range(2 ** n):
                if [F[x][q - n] for q in rq] != bits_of(table[x], n):
                    out["skip"] = "blackbox-wrong-function"
        except Exception:  # noqa
            out["skip"] = "blackbox-no-ret"
        if out["skip"]:
            return out
    # ---- is this instance covered end to end by C16_end_to_end_fragment?
    out["e2e"] = "no-form"
    e2e_req = e2e.request(qf, chlog)
    if e2e_req is not None:
        def e2e_check(rep, _oj=oj, _nq=fc.num_qubits, _ret=ret):
            try:
                rq = [_ret] if _ret is not None else [fc[r] for r in e2e_req["ret"]]
            except Exception:  # noqa
                rq = []
            status, detail = e2e.verdict(rep, _oj, _nq, rq, kind="fun" if algo == "simon" else "xor")
            out["e2e"] = status
            if status == "mismatch":
                return dict(what="black box definition list is in the class of an end-to-end theorem but the compiler model run "
                            "on the logged ancilla choices does not reproduce the black box circuit of this instance", **detail)
            return None
        out["reqs"].append((e2e_req, e2e_check))
    # ---- correspondence requests
    code_gates = strip_ids(gj)
    out["reqs"].append((dict(op="c16.gates", algo=algo, n=n, ret=ret or 0, oracle=oj),
                        lambda rep: None if (strip_ids(rep.get("gates", [])) == code_gates and rep.get("output_qubits") == outq)
                        else dict(what="gate list / output qubits of the algorithm object differ from the model",
                                  code=dict(gates=code_gates, output_qubits=outq), model=rep)))
    st_strs = ["".join("1" if b else "0" for b in st) for st, _ in states]
    res_strs = ["".join("1" if b else "0" for b in r) for _, r in states]
    out["reqs"].append((dict(op="c16.classical", gates=oj, states=st_strs),
                        lambda rep: None if rep.get("out") == res_strs else
                        dict(what="runClassical of the black box differs", code=res_strs, model=rep)))
    # ---- exact distribution of the real circuit, independent simulator
    sv = circ.run_sv(N, gj)
    dist = [0.0] * (2 ** n)
    for i, amp in enumerate(sv):
        y = sum(((i >> q) & 1) << k for k, q in enumerate(outq))
        dist[y] += abs(amp) ** 2

    def amps_check(rep):
        if not rep.get("supported"):
            return dict(what="model has no amplitude semantics for a gate of the algorithm circuit", model=rep.get("supported"))
        sc = 2 ** (-rep["h"] / 2)
        am = rep["amps"]
        if len(am) != len(sv):
            return dict(what="amplitude table size differs", code=len(sv), model=len(am))
        for i, (x, y) in enumerate(zip(sv, am)):
            if abs(x - y * sc) > TOL:
                return dict(what="amplitude of the real gate list differs from the model's", code=[i, str(x)], model=[i, y, rep["h"]])
        return None

    if N <= 11:
        out["reqs"].append((dict(op="c16.amps", nq=N, gates=gj), amps_check))
    if len(outq) != n or sorted(outq) != list(range(n)):
        out["violations"].append(dict(what="output_qubits are not the n input qubits", code=outq, expected=list(range(n))))
        return out
    if algo == "dj":
        exp0 = 1.0 if case["kind"] == "const" else 0.0
        if abs(dist[0] - exp0) > TOL:
            out["violations"].append(dict(what=f"Deutsch-Jozsa: P(all zeros) for a {case['kind']} function", code=dist[0], expected=exp0))
    elif algo == "bv":
        sct = case["secret"]
        if abs(dist[sct] - 1.0) > TOL:
            out["violations"].append(dict(what="Bernstein-Vazirani: P(secret) != 1", code=dist, expected=sct))
    else:
        s = case["s"]
        good = [y for y in range(2 ** n) if parity(y & s) == 0]
        for y in range(2 ** n):
            e = 1.0 / len(good) if y in good else 0.0
            if abs(dist[y] - e) > TOL:
                out["violations"].append(dict(what="Simon: outcome distribution", code=dist, expected=dict(y=y, p=e, s=s)))
                break
    # ---- decoded outputs of every outcome that can occur
    counts, exp_counts = {}, {}
    decode_reqs = 0
    outcomes = []
    for i, amp in enumerate(sv):
        p = abs(amp) ** 2
        if p < 1e-12:
            continue
        full = format(i, f"0{N}b")
        ybits = [bool((i >> q) & 1) for q in outq]
        short = "".join("1" if b else "0" for b in reversed(ybits))
        c = max(1, round(p * 2 ** 16))
        counts[full] = c
        outcomes.append((full, ybits))
        if algo == "dj":
            expd = "Constant" if not any(ybits) else "Balanced"
            ekey = expd
        else:
            expd = expected_value(tj, ybits)
            ekey = json.dumps(expd, sort_keys=True)
        exp_counts[ekey] = exp_counts.get(ekey, 0) + c
        for istr in (full, short):
            try:
                d = a.decode_output(istr)
                got = d if algo == "dj" else code_value(d)
            except Exception as e:  # noqa
                got = f"raised {type(e).__name__}: {e}"
            if got != expd:
                v = dict(what=f"decode_output({istr!r}) does not report the measured outcome", code=got, expected=expd, istr=istr)
                if algo == "dj":
                    out["known_candidates"].append((v, istr))
                else:
                    out["violations"].append(v)
            if decode_reqs < 8:
                decode_reqs += 1
                out["reqs"].append((dict(op="c16.decode", algo=algo, ty=tj, n=n, istr=istr, quirks=list(active_quirks)),
                                    (lambda got, istr: lambda rep: None if rep.get("out") == got else
                                     dict(what=f"decode_output({istr!r}) differs from the model", code=got, model=rep))(got, istr)))
    def canon_counts(obj, cd):
        try:
            dc = obj.decode_counts(cd)
            got = {}
            for k, c in dc.items():
                kk = k if algo == "dj" else json.dumps(code_value(k), sort_keys=True)
                got[kk] = got.get(kk, 0) + c
            return got
        except Exception as e:  # noqa
            return f"raised {type(e).__name__}: {e}"

    # decode_counts twice on the SAME dict object (then by a second algorithm object): every call
    # aggregates the measured outcomes, the caller's dict is left as it was (keys, order, values)
    cd = dict(counts)
    snap_items = list(cd.items())
    try:
        other = cls(qf)
    except Exception as e:  # noqa
        other = None
        out["violations"].append(dict(what=f"building a second algorithm object on the same function raised {type(e).__name__}: {e}"))
    for k, obj in enumerate([a, a] + ([other] if other is not None else []), 1):
        got_counts = canon_counts(obj, cd)
        who = "the same object" if obj is a else "a second algorithm object"
        if got_counts != exp_counts and not out["known_candidates"]:
            out["violations"].append(dict(what=f"decode_counts (call #{k} on the same counts dict, {who}) does not aggregate the measured outcomes",
                                          code=got_counts, expected=exp_counts, call=k))
            break
        if list(cd.items()) != snap_items or any(type(kk) is not str or type(vv) is not int for kk, vv in cd.items()):
            out["violations"].append(dict(what=f"decode_counts (call #{k}) modified the caller's counts dict",
                                          code=[[str(kk), vv] for kk, vv in cd.items()][:40], expected=[list(x) for x in snap_items][:40], call=k))
            break
    purity_block(case, out, a, other, cls, qf, A, outcomes, N, active_quirks)
    return out


# ----------------------------------------------------------------------------- case lists

def dj_cases(ctx: Ctx):
    rng = ctx.rng
    cases = []
    for n in (1, 2, 3):
        for ti, (tname, tsrc, tj, var) in enumerate(arg_types(n)):
            for bits in itertools.product([False, True], repeat=2 ** n):
                cnt = sum(bits)
                kind = "const" if cnt in (0, 2 ** n) else ("bal" if 2 * cnt == 2 ** n else None)
                if kind is None:
                    continue
                # quick tier: the first argument type gets every function; the other types of
                # 3 bits get both constants and a sample of the balanced ones
                if n == 3 and ti > 0 and kind == "bal" and not ctx.thorough and rng.random() > 0.2:
                    continue
                forms = ["anf"]
                if n <= 2 or ctx.thorough or (ti == 0 and rng.random() < 0.25):
                    forms.append("dnf")
                for form in forms:
                    body = (expr_anf if form == "anf" else expr_dnf)(bits, n, var)
                    cases.append(dict(algo="dj", n=n, ty=tname, tj=tj, form=form, kind=kind,
                                      tt=[int(b) for b in bits], src=bool_src(tsrc, body)))
    # samples on 4 (and, thorough, 5) bits
    for n, k in ((4, 40 if ctx.thorough else 8), (5, 10 if ctx.thorough else 0)):
        tname, tsrc, tj, var = arg_types(n)[0]
        for j in range(k):
            if j < 2:
                bits = [bool(j)] * 2 ** n
                kind = "const"
            else:
                ones = set(rng.sample(range(2 ** n), 2 ** (n - 1)))
                bits = [x in ones for x in range(2 ** n)]
                kind = "bal"
            cases.append(dict(algo="dj", n=n, ty=tname, tj=tj, form="anf", kind=kind,
                              tt=[int(b) for b in bits], src=bool_src(tsrc, expr_anf(bits, n, var))))
    return cases


def bv_cases(ctx: Ctx):
    cases = []
    for sct in (0, 1):
        tname, tsrc, tj, var = arg_types(1)[0]
        tt = [parity(x & sct) for x in range(2)]
        cases.append(dict(algo="bv", n=1, ty=tname, tj=tj, secret=sct, tt=tt, src=bool_src(tsrc, expr_anf(tt, 1, var))))
    for n in (2, 3, 4, 5):
        for sct in range(2 ** n):
            tt = [parity(x & sct) for x in range(2 ** n)]
            cases.append(dict(algo="bv", n=n, ty=f"Qint[{n}]", tj=["qint", n], secret=sct, tt=tt, secret_oracle=True,
                              src=f"secret_oracle({n}, {sct})"))
    for n in (2, 3) + ((4,) if ctx.thorough else ()):
        for tname, tsrc, tj, var in arg_types(n)[1:]:
            for sct in range(2 ** n):
                tt = [parity(x & sct) for x in range(2 ** n)]
                cases.append(dict(algo="bv", n=n, ty=tname, tj=tj, secret=sct, tt=tt, src=bool_src(tsrc, expr_anf(tt, n, var))))
    return cases


def simon_cases(ctx: Ctx):
    rng = ctx.rng
    cases = []
    per = 6 if ctx.thorough else 2
    for n in (2, 3, 4):
        types = arg_types(n)
        for s in range(1, 2 ** n):
            reps = sorted({min(x, x ^ s) for x in range(2 ** n)})
            for j in range(per):
                tname, tsrc, tj, var = types[0] if j % 2 == 0 else types[rng.randrange(len(types))]
                vals = rng.sample(range(2 ** n), len(reps))
                table = [0] * 2 ** n
                for r, v in zip(reps, vals):
                    table[r] = v
                    table[r ^ s] = v
                cases.append(dict(algo="simon", n=n, ty=tname, tj=tj, s=s, table=table, src=simon_src(tsrc, n, table, var)))
    return cases


def fast_systematic_cases():
    """CONFIGURATION slice, the same for every seed: every function form once more under
    `bool_optimizer=fastOptimizer` (no merge_expressions / apply_cse: assignments and shared sub-expressions reach
    the compiler as they were written)."""
    cases = []
    # Deutsch-Jozsa: per width x argument type x expression form: a constant, the parity, a single variable /
    # non-linear balanced functions
    for n in (1, 2, 3):
        fns = [("const", lambda x: True), ("bal", lambda x: bool(parity(x)))]
        if n == 2:
            fns.append(("bal", lambda x: bool(x >> 1 & 1)))
        if n == 3:
            fns.append(("bal", lambda x: bool(((x & 1) & (x >> 1 & 1)) ^ (x >> 2 & 1))))
            fns.append(("bal", lambda x: bin(x).count("1") >= 2))
        for tname, tsrc, tj, var in arg_types(n):
            for form in ("anf", "dnf"):
                for kind, fn in fns:
                    bits = [bool(fn(x)) for x in range(2 ** n)]
                    body = (expr_anf if form == "anf" else expr_dnf)(bits, n, var)
                    cases.append(dict(algo="dj", n=n, ty=tname, tj=tj, form=form, kind=kind, tt=[int(b) for b in bits],
                                      src=bool_src(tsrc, body), profile="fast"))
    # Bernstein-Vazirani: the bool function, the source text secret_oracle generates (an assignment `s=QintN(secret)`
    # in front of the return), the linear functions on tuple types
    tname, tsrc, tj, var = arg_types(1)[0]
    cases.append(dict(algo="bv", n=1, ty=tname, tj=tj, secret=1, tt=[0, 1], src=bool_src(tsrc, expr_anf([0, 1], 1, var)), profile="fast"))
    for n in (2, 3, 4, 5):
        sct = 2 ** (n - 1) + 1
        tt = [parity(x & sct) for x in range(2 ** n)]
        src = (f"def oracle(x: Qint[{n}]) -> bool:\n  s=Qint{n}({sct})\n  return ("
               + "^".join(f"(x[{i}]&s[{i}])" for i in range(n)) + ")")
        cases.append(dict(algo="bv", n=n, ty=f"Qint[{n}]", tj=["qint", n], secret=sct, tt=tt, form="secret-src", src=src, profile="fast"))
    for n in (2, 3):
        for tname, tsrc, tj, var in arg_types(n)[1:]:
            for sct in (2 ** n - 1, 2 ** (n - 1)):
                tt = [parity(x & sct) for x in range(2 ** n)]
                cases.append(dict(algo="bv", n=n, ty=tname, tj=tj, secret=sct, tt=tt, src=bool_src(tsrc, expr_anf(tt, n, var)), profile="fast"))
    # Simon: per width x argument type: periods 1 and 1...1, f(x) = rank of min(x, x ^ s)
    for n in (2, 3, 4):
        for ti, (tname, tsrc, tj, var) in enumerate(arg_types(n)):
            for s in (1, 2 ** n - 1):
                if n == 4 and ti > 0 and s == 1:
                    continue
                reps = sorted({min(x, x ^ s) for x in range(2 ** n)})
                table = [reps.index(min(x, x ^ s)) for x in range(2 ** n)]
                cases.append(dict(algo="simon", n=n, ty=tname, tj=tj, s=s, table=table, src=simon_src(tsrc, n, table, var), profile="fast"))
    return cases


def drawn_at_random(case, ctx):
    """cases whose function is drawn from ctx.rng (the others are enumerated and the same for every seed)"""
    if case["algo"] == "simon":
        return True
    if case["algo"] == "dj" and case["kind"] == "bal":
        return case["n"] >= 4 or (case["n"] == 3 and not ctx.thorough and case["ty"] != arg_types(3)[0][0])
    return False


def all_cases(ctx: Ctx):
    import random
    cases = dj_cases(ctx) + bv_cases(ctx) + simon_cases(ctx)
    prng = random.Random(f"C16-config-{ctx.seed}")
    for c in cases:
        c["profile"] = "fast" if (drawn_at_random(c, ctx) and not c.get("secret_oracle") and prng.random() < 0.3) else "default"
    cases += fast_systematic_cases()
    vrng = random.Random(f"C16-variants-{ctx.seed}")
    for c in cases:
        c["vseed"] = vrng.getrandbits(32)
    return cases


# ----------------------------------------------------------------------------- run

def active_quirks(ctx: Ctx):
    return sorted({f.get("quirk") for f in ctx.findings if f.get("_active") and f.get("quirk")})


def judge(ctx: Ctx, res: Result, case, out, replies):
    """turn one evaluated case (+ the model's replies to its requests) into verdicts"""
    pub = {k: v for k, v in case.items() if k != "tj"}
    pub["tj"] = case["tj"]
    for v in out["violations"]:
        res.violation(pub, v["what"], **{k: x for k, x in v.items() if k != "what"})
    dis = []
    if replies is not None:
        for (req, chk), rep in zip(out["reqs"], replies):
            d = chk(rep)
            if d is not None:
                dis.append((req, d))
                res.disagree(pub, d["what"], **{k: x for k, x in d.items() if k != "what"})
    # attribution of wrong DJ decodings to the listed finding
    fd = next((f for f in ctx.findings if f["id"] == FID_DECODE and f.get("status", "open") == "open" and f.get("_active")), None)
    for v, istr in out["known_candidates"]:
        is_known = False
        if fd is not None and replies is not None and case["algo"] == "dj" and case["kind"] == "const" \
                and v["expected"] == "Constant" and v["code"] == "Balanced":
            # precise trigger: non-numeric argument type, all output bits 0; and the quirk-model
            # must reproduce the code's answer on this very string
            for (req, chk), rep in zip(out["reqs"], replies):
                if req["op"] == "c16.decode" and req["istr"] == istr and "djDecodeEqZero" in req["quirks"] \
                        and rep.get("trigger") is True and rep.get("out") == v["code"]:
                    is_known = True
        if is_known:
            res.known(FID_DECODE)
        else:
            res.violation(pub, v["what"], **{k: x for k, x in v.items() if k != "what"})
    # attribution of wrong decodings of int readings to the listed finding: precise trigger = an int reading with
    # fewer binary digits than the register has qubits, handed to a decoder that interprets the bits in the argument
    # type (Bernstein-Vazirani, Simon); the quirk-model must give the code's value on this very integer and the
    # repaired model the expected one
    fi = next((f for f in ctx.findings if f["id"] == FID_INTPAD and f.get("status", "open") == "open" and f.get("_active")), None)
    seen = set()
    for c in out.get("int_candidates", []):
        v = c["v"]
        is_known = False
        if fi is not None and replies is not None and c["key"][0] == "i" and len(bin(c["key"][1])[2:]) < c["n"] \
                and fi.get("quirk") in c["asis"]["quirks"]:
            ra = next((rep for (req, _), rep in zip(out["reqs"], replies) if req is c["asis"]), None)
            rf = next((rep for (req, _), rep in zip(out["reqs"], replies) if req is c["fixed"]), None)
            if ra is not None and rf is not None and ra.get("out") == v["code"] and rf.get("out") == v["expected"]:
                is_known = True
        if is_known:
            res.known(FID_INTPAD)
        elif (v["reading_kind"], v["decoder"]) not in seen:
            seen.add((v["reading_kind"], v["decoder"]))
            res.violation(pub, v["what"], **{k: x for k, x in v.items() if k != "what"})


def run(ctx: Ctx) -> Result:
    res = Result("C16")
    res.rule = ("nontrivial = the black box compiled to a clean classical xor-oracle (resp. two-to-one map) "
                "and the algorithm object was built, simulated and decoded")
    quirks = active_quirks(ctx)
    cases = all_cases(ctx)
    evaluated = []
    skips = {}
    pur = dict(objects=0, calls=0, variants=0, by_reading={}, by_sequence={})
    for case in cases:
        out = eval_case(case, quirks)
        bucket = f"{case['algo']}-n{case['n']}-{case.get('profile', 'default')}"
        for k, v in (out.get("purity") or {}).items():
            if isinstance(v, dict):
                for kk, vv in v.items():
                    pur[k][kk] = pur[k].get(kk, 0) + vv
            else:
                pur[k] += v
        if out["skip"]:
            sk = out["skip"] + ("" if case.get("profile", "default") == "default" else f" [{case['profile']}Optimizer]")
            skips[sk] = skips.get(sk, 0) + 1
            res.count({k: v for k, v in case.items()}, nontrivial=False, bucket=bucket + "-skipped")
            continue
        res.count({k: v for k, v in case.items()}, nontrivial=True, bucket=bucket)
        evaluated.append((case, out))
    # the generator of Bernstein-Vazirani oracles itself
    try:
        from qlasskit.algorithms.bernsteinvazirani import secret_oracle
        secret_oracle(1, 1)
        res.notes.append("secret_oracle(1, s) builds")
    except Exception as e:  # noqa
        res.notes.append(f"secret_oracle(1, s) raises {type(e).__name__} (no Qint[1] type); 1-bit secrets are run through a bool function")
    # model correspondence in one batch
    reqs = [r for _, out in evaluated for r, _ in out["reqs"]]
    replies = ctx.model(reqs)
    pos = 0
    for case, out in evaluated:
        k = len(out["reqs"])
        judge(ctx, res, case, out, None if replies is None else replies[pos: pos + k])
        pos += k
    tally = e2e.Tally()
    for case, out in evaluated:
        tally.add(out.get("e2e", "no-form") if replies is not None else "no-form", case["algo"])
    res.extra["end_to_end"] = dict(covered=tally.covered, covered_fragment_only=tally.covered_fragment,
                                   instances=tally.total, by_algo=tally.by)
    res.notes.append(
        f"{tally.covered} of {tally.total} evaluated instances are covered end to end by a Lean theorem "
        f"({tally.covered_fragment} by C16_end_to_end_fragment - one tree-like definition, one return bit -, the others by "
        "C16_end_to_end_general - class inGeneralClean, one return bit, return qubit not an argument qubit and never a "
        "control - and, for Simon, C16_end_to_end_simon_general - inGeneralClean, any number of return bits, every return "
        "name on a non-argument qubit; side conditions evaluated on the model's output): the black box's definition list "
        "lies in the class AND the compiler model, run on the ancilla choices logged from the real compilation, emits "
        "exactly the black box circuit inside this algorithm circuit (a difference would be a disagreement); per algorithm "
        f"fragment->any/evaluated: {tally.by_text()}; the remaining instances rest on the per-instance check of the real "
        "circuit, as before")
    res.extra["skipped_blackboxes"] = skips
    profs = {}
    for case in cases:
        k = f"{case['algo']}:{case.get('profile', 'default')}"
        profs[k] = profs.get(k, 0) + 1
    res.extra["configurations"] = dict(by_algo_profile=profs, systematic_fast=len(fast_systematic_cases()),
                                       drawn_fast=sum(1 for c in cases if c.get("profile") == "fast") - len(fast_systematic_cases()))
    res.extra["repeated_use"] = dict(reading_objects=pur["objects"], decode_output_calls=pur["calls"], random_variants=pur["variants"],
                                     by_reading=dict(sorted(pur["by_reading"].items())),
                                     by_sequence=dict(sorted(pur["by_sequence"].items(), key=lambda kv: (-kv[1], kv[0]))[:12]),
                                     outcomes_per_object=PURITY_OUTCOMES, decode_counts_calls_per_object=3)
    res.notes.append(
        f"repeated use / argument purity: {pur['objects']} reading objects ({dict(sorted(pur['by_reading'].items()))}), "
        f"{pur['calls']} decode_output calls; systematic slice (same for every seed): up to {PURITY_OUTCOMES} possible outcomes per "
        "algorithm object x readings str/int/List[bool] (exact, longer, shorter) x the sequence a,a,a,b[,c],a (a = the object, b = a "
        "second object of the same class, c = Bernstein-Vazirani <-> Deutsch-Jozsa on the same function) on ONE reading object, the "
        f"object compared with its snapshot after every call; {pur['variants']} randomised sequences (random outcome, list reading "
        "also longer than the register with arbitrary left bits, 2-6 random decoders); decode_counts 3x on one dict (twice the object, "
        "once a second object), dict compared with its snapshot; every call judged by the textbook decoding of the measured bits and "
        "compared with the stateless model's decoding of the original reading")
    res.notes.append(
        f"configurations: {profs}; systematic: every function form once more under bool_optimizer=fastOptimizer "
        f"({len(fast_systematic_cases())} instances, same for every seed); the functions drawn at random draw the profile (30% fast)")
    res.exhaustive = True
    res.notes.append("exhaustive: constant/balanced functions on 1..3 bits (x argument types), secrets on 1..5 bits, "
                     "periods on 2..4 bits; sampled: 4/5-bit Deutsch-Jozsa, the two-to-one functions per period")
    if skips:
        res.notes.append(f"black boxes not meeting the clean-xor-oracle hypothesis (skipped, C02/C03/C06): {skips}")
    res.assumptions.append("amplitude semantics of H/Z/X/CX/CCX/MCX in QV.Amp (compared with harness/circ.py's state-vector "
                           "simulator on every algorithm circuit of the run; that simulator is validated against qiskit)")
    return res


# ----------------------------------------------------------------------------- findings / replay

def witness_fails(ctx: Ctx, f):
    """does the recorded witness still violate the property on the real code?"""
    w = f.get("witness", {})
    if f.get("id") == FID_DECODE:
        from qlasskit import QlassF
        A = importlib.import_module("qlasskit.algorithms")
        qf = QlassF.from_function(w["src"])
        a = A.DeutschJozsa(qf)
        return a.decode_output(w["istr"]) != w["expected"]
    if f.get("id") == FID_INTPAD:
        A = importlib.import_module("qlasskit.algorithms")
        from qlasskit.algorithms.bernsteinvazirani import secret_oracle
        a = A.BernsteinVazirani(secret_oracle(w["n"], w["secret"]))
        return code_value(a.decode_output(w["reading_int"])) != {"i": w["expected"]}
    return None


def replay(ctx: Ctx, payload):
    first = payload.get("first") or {}
    case = first.get("case")
    if not case or "algo" not in case:
        print("nothing to replay (no failing input in this file)")
        return 2
    print("replaying", json.dumps({k: v for k, v in case.items() if k != "src"}))
    print(case.get("src", ""))
    for f in ctx.findings:
        try:
            f["_active"] = bool(witness_fails(ctx, f)) if f.get("status", "open") == "open" else False
        except Exception:  # noqa
            f["_active"] = False
    res = Result("C16")
    out = eval_case(case, active_quirks(ctx))
    if out["skip"]:
        print("skipped:", out["skip"])
        return 0
    replies = ctx.model([r for r, _ in out["reqs"]])
    judge(ctx, res, case, out, replies)
    for v in res.violations:
        print("VIOLATION:", json.dumps({k: x for k, x in v.items() if k != "case"}, default=str)[:2000])
    for d in res.disagreements:
        print("DISAGREEMENT:", json.dumps({k: x for k, x in d.items() if k != "case"}, default=str)[:2000])
    return 1 if (res.violations or res.disagreements) else 0
