"""C16 - Deutsch-Jozsa, Bernstein-Vazirani, Simon circuits meet textbook guarantees.

Always-on search on the real code: the real algorithm objects are built for every
constant/balanced function on 1..3 bits (several argument types and expression forms, samples on
4 bits), every secret on 1..5 bits (`secret_oracle` for 2..5 bits, a bool function for 1 bit,
linear functions on tuple types), every period on 2..4 bits with several two-to-one functions
each.  For each object: the exact output distribution on the object's `output_qubits` from the
harness' own state-vector simulator (harness/circ.py) is compared with the textbook guarantee
computed from the truth table the function was generated from; every outcome with non-zero
probability is passed through `decode_output` / `decode_counts` and compared with an
independent decoding of the measured bits.
Correspondence: the algorithm circuit's gate list == `QV.Algo.{dj,bv,simon}Gates`, amplitudes of
the real gate list == `QV.Amp.run` (integer amplitudes / 2^{h/2}), `runClassical` of the black
box == harness classical simulator, `decode_output` == `QV.Algo.{djDecode,argDecode}`.
The theorems' hypothesis (black box = clean xor-oracle on classical basis states) is checked per
black box with the classical simulator; a black box that fails it is skipped and counted (it is
a C02/C03/C06 matter).
"""
from __future__ import annotations

import importlib
import itertools
import json
import math

from . import circ, e2e
from .common import Ctx, Result

LEVEL = "proof"
TOL = 1e-9
FID_DECODE = "C16-dj-decode-nonint"


# ----------------------------------------------------------------------------- functions

def anf(tt, n):
    c = list(tt)
    for i in range(n):
        for x in range(2 ** n):
            if x >> i & 1:
                c[x] ^= c[x ^ (1 << i)]
    return [m for m in range(2 ** n) if c[m]]


def expr_anf(tt, n, var):
    ms = anf(tt, n)
    if not ms:
        return "False"
    terms = []
    for m in ms:
        if m == 0:
            terms.append("True")
        else:
            terms.append("(" + " & ".join(var(i) for i in range(n) if m >> i & 1) + ")")
    return " ^ ".join(terms)


def expr_dnf(tt, n, var):
    ones = [x for x in range(2 ** n) if tt[x]]
    if not ones:
        return "False"
    if len(ones) == 2 ** n:
        return "True"
    terms = []
    for x in ones:
        lits = [(var(i) if x >> i & 1 else f"(not {var(i)})") for i in range(n)]
        terms.append("(" + " and ".join(lits) + ")")
    return " or ".join(terms)


# argument types: name -> (n, python source of the type, model type JSON, variable of bit i)
def arg_types(n):
    out = []
    if n == 1:
        out.append(("bool", "bool", ["bool"], lambda i: "x"))
        return out
    out.append((f"Qint[{n}]", f"Qint[{n}]", ["qint", n], lambda i: f"x[{i}]"))
    out.append((f"Tuple[{','.join(['bool'] * n)}]", f"Tuple[{','.join(['bool'] * n)}]",
                ["tuple"] + [["bool"]] * n, lambda i: f"x[{i}]"))
    out.append((f"Qlist[bool,{n}]", f"Qlist[bool,{n}]", ["tuple"] + [["bool"]] * n, lambda i: f"x[{i}]"))
    if n >= 3:
        w = n - 1
        out.append((f"Tuple[bool,Qint[{w}]]", f"Tuple[bool,Qint[{w}]]", ["tuple", ["bool"], ["qint", w]],
                    lambda i: "x[0]" if i == 0 else f"x[1][{i - 1}]"))
    return out


def expected_value(tj, bits):
    """independent decoding of the measured bits (bits[k] = qubit k) in the argument type"""
    if tj[0] == "bool":
        return {"b": bool(bits[0])}
    if tj[0] == "qint":
        return {"i": sum(1 << k for k, b in enumerate(bits[: tj[1]]) if b)}
    if tj[0] == "tuple":
        vals, pos = [], 0
        for t in tj[1:]:
            sz = 1 if t[0] == "bool" else t[1]
            vals.append(expected_value(t, bits[pos: pos + sz]))
            pos += sz
        return {"t": vals}
    raise ValueError(tj)


def code_value(v):
    if isinstance(v, bool):
        return {"b": v}
    if isinstance(v, (tuple, list)):
        return {"t": [code_value(e) for e in v]}
    if hasattr(v, "value"):
        return {"i": int(v.value)}
    if isinstance(v, int):
        return {"i": int(v)}
    return {"?": repr(v)}


def bool_src(ty_src, body):
    return f"def f(x: {ty_src}) -> bool:\n    return {body}\n"


def simon_src(ty_src, n, table, var):
    outs = []
    for j in range(n):
        tt = [bool(table[x] >> j & 1) for x in range(2 ** n)]
        outs.append(expr_anf(tt, n, var))
    rty = ",".join(["bool"] * n)
    return f"def f(x: {ty_src}) -> Tuple[{rty}]:\n    return ({', '.join(outs)})\n"


def parity(v):
    return bin(v).count("1") & 1


# ----------------------------------------------------------------------------- one case

def bits_of(v, w):
    return [bool(v >> k & 1) for k in range(w)]


def strip_ids(gj):
    return [dict(c=d["c"], n=d["n"], g=d["g"], w=list(d["w"]), p=d["p"]) for d in gj]


def eval_case(case, active_quirks=()):
    """Everything about one algorithm object on the real code.
    Returns dict(skip=..., violations=[...], reqs=[(request, checker)], known=[...])."""
    from qlasskit import QlassF
    A = importlib.import_module("qlasskit.algorithms")
    out = dict(skip=None, violations=[], reqs=[], known_candidates=[])
    algo, n = case["algo"], case["n"]
    tj = case["tj"]
    try:
        with e2e.ChoiceLog() as chlog:
            if case.get("secret_oracle"):
                from qlasskit.algorithms.bernsteinvazirani import secret_oracle
                qf = secret_oracle(n, case["secret"])
            else:
                qf = QlassF.from_function(case["src"])
    except Exception as e:  # noqa
        out["skip"] = f"compile-raised:{type(e).__name__}"
        return out
    try:
        cls = {"dj": A.DeutschJozsa, "bv": A.BernsteinVazirani, "simon": A.Simon}[algo]
        a = cls(qf)
        qc = a.circuit()
        gj = circ.qc_to_json(qc)
        N = qc.num_qubits
        outq = list(a.output_qubits)
    except Exception as e:  # noqa
        out["violations"].append(dict(what=f"building the algorithm object raised {type(e).__name__}: {e}"))
        return out
    fc = qf.circuit()
    oj = circ.qc_to_json(fc)
    m = N - n
    # ---- the black box: hypothesis of the theorems, checked classically
    bad = [d for d in oj if not (circ.is_classical(d) or d["c"] in ("Barrier", "NopGate"))]
    if bad or any(len(set(d["w"])) != len(d["w"]) for d in oj) or fc.num_qubits != N or m < 1:
        out["skip"] = "blackbox-not-classical"
        return out
    ret = None
    if algo in ("dj", "bv"):
        try:
            ret = fc["_ret"]
        except Exception:  # noqa
            out["skip"] = "blackbox-no-ret"
            return out
        if not (n <= ret < N):
            out["skip"] = "blackbox-ret-overlaps-input"
            return out
        tt = case["tt"]
        states = []
        g = []
        for x in range(2 ** n):
            st0 = bits_of(x, n) + [False] * m
            g.append(circ.run_classical(oj, st0)[ret])
            for r in (False, True):
                st = bits_of(x, n) + [False] * m
                st[ret] = r
                res = circ.run_classical(oj, st)
                exp = list(st)
                exp[ret] = r ^ g[x]
                states.append((st, res))
                if res != exp:
                    out["skip"] = "blackbox-not-clean-xor"
        if out["skip"]:
            return out
        if g != [bool(b) for b in tt]:
            if case.get("secret_oracle"):
                # the generator is part of the property: a clean oracle of another function
                out["violations"].append(dict(what="secret_oracle(n, s) compiles to a clean xor-oracle of a function other than x.s",
                                              code=[int(b) for b in g], expected=list(tt)))
                return out
            out["skip"] = "blackbox-wrong-function"
            return out
    else:
        table = case["table"]
        F = {}
        states = []
        for x in range(2 ** n):
            st = bits_of(x, n) + [False] * m
            res = circ.run_classical(oj, st)
            states.append((st, res))
            if res[:n] != st[:n]:
                out["skip"] = "blackbox-changes-input"
                return out
            F[x] = tuple(res[n:])
        s = case["s"]
        for x in range(2 ** n):
            for x2 in range(2 ** n):
                if (F[x] == F[x2]) != (x2 == x or x2 == x ^ s):
                    out["skip"] = "blackbox-not-two-to-one"
        try:
            rq = [fc[f"_ret.{j}"] for j in range(n)]
            for x in range(2 ** n):
                if [F[x][q - n] for q in rq] != bits_of(table[x], n):
                    out["skip"] = "blackbox-wrong-function"
        except Exception:  # noqa
            out["skip"] = "blackbox-no-ret"
        if out["skip"]:
            return out
    # ---- is this instance covered end to end by C16_end_to_end_fragment?
    out["e2e"] = "no-form"
    e2e_req = e2e.request(qf, chlog)
    if e2e_req is not None:
        def e2e_check(rep, _oj=oj, _nq=fc.num_qubits, _ret=ret):
            try:
                rq = [_ret] if _ret is not None else [fc[r] for r in e2e_req["ret"]]
            except Exception:  # noqa
                rq = []
            status, detail = e2e.verdict(rep, _oj, _nq, rq, kind="fun" if algo == "simon" else "xor")
            out["e2e"] = status
            if status == "mismatch":
                return dict(what="black box definition list is in the class of an end-to-end theorem but the compiler model run "
                            "on the logged ancilla choices does not reproduce the black box circuit of this instance", **detail)
            return None
        out["reqs"].append((e2e_req, e2e_check))
    # ---- correspondence requests
    code_gates = strip_ids(gj)
    out["reqs"].append((dict(op="c16.gates", algo=algo, n=n, ret=ret or 0, oracle=oj),
                        lambda rep: None if (strip_ids(rep.get("gates", [])) == code_gates and rep.get("output_qubits") == outq)
                        else dict(what="gate list / output qubits of the algorithm object differ from the model",
                                  code=dict(gates=code_gates, output_qubits=outq), model=rep)))
    st_strs = ["".join("1" if b else "0" for b in st) for st, _ in states]
    res_strs = ["".join("1" if b else "0" for b in r) for _, r in states]
    out["reqs"].append((dict(op="c16.classical", gates=oj, states=st_strs),
                        lambda rep: None if rep.get("out") == res_strs else
                        dict(what="runClassical of the black box differs", code=res_strs, model=rep)))
    # ---- exact distribution of the real circuit, independent simulator
    sv = circ.run_sv(N, gj)
    dist = [0.0] * (2 ** n)
    for i, amp in enumerate(sv):
        y = sum(((i >> q) & 1) << k for k, q in enumerate(outq))
        dist[y] += abs(amp) ** 2

    def amps_check(rep):
        if not rep.get("supported"):
            return dict(what="model has no amplitude semantics for a gate of the algorithm circuit", model=rep.get("supported"))
        sc = 2 ** (-rep["h"] / 2)
        am = rep["amps"]
        if len(am) != len(sv):
            return dict(what="amplitude table size differs", code=len(sv), model=len(am))
        for i, (x, y) in enumerate(zip(sv, am)):
            if abs(x - y * sc) > TOL:
                return dict(what="amplitude of the real gate list differs from the model's", code=[i, str(x)], model=[i, y, rep["h"]])
        return None

    if N <= 11:
        out["reqs"].append((dict(op="c16.amps", nq=N, gates=gj), amps_check))
    if len(outq) != n or sorted(outq) != list(range(n)):
        out["violations"].append(dict(what="output_qubits are not the n input qubits", code=outq, expected=list(range(n))))
        return out
    if algo == "dj":
        exp0 = 1.0 if case["kind"] == "const" else 0.0
        if abs(dist[0] - exp0) > TOL:
            out["violations"].append(dict(what=f"Deutsch-Jozsa: P(all zeros) for a {case['kind']} function", code=dist[0], expected=exp0))
    elif algo == "bv":
        sct = case["secret"]
        if abs(dist[sct] - 1.0) > TOL:
            out["violations"].append(dict(what="Bernstein-Vazirani: P(secret) != 1", code=dist, expected=sct))
    else:
        s = case["s"]
        good = [y for y in range(2 ** n) if parity(y & s) == 0]
        for y in range(2 ** n):
            e = 1.0 / len(good) if y in good else 0.0
            if abs(dist[y] - e) > TOL:
                out["violations"].append(dict(what="Simon: outcome distribution", code=dist, expected=dict(y=y, p=e, s=s)))
                break
    # ---- decoded outputs of every outcome that can occur
    counts, exp_counts = {}, {}
    decode_reqs = 0
    for i, amp in enumerate(sv):
        p = abs(amp) ** 2
        if p < 1e-12:
            continue
        full = format(i, f"0{N}b")
        ybits = [bool((i >> q) & 1) for q in outq]
        short = "".join("1" if b else "0" for b in reversed(ybits))
        c = max(1, round(p * 2 ** 16))
        counts[full] = c
        if algo == "dj":
            expd = "Constant" if not any(ybits) else "Balanced"
            ekey = expd
        else:
            expd = expected_value(tj, ybits)
            ekey = json.dumps(expd, sort_keys=True)
        exp_counts[ekey] = exp_counts.get(ekey, 0) + c
        for istr in (full, short):
            try:
                d = a.decode_output(istr)
                got = d if algo == "dj" else code_value(d)
            except Exception as e:  # noqa
                got = f"raised {type(e).__name__}: {e}"
            if got != expd:
                v = dict(what=f"decode_output({istr!r}) does not report the measured outcome", code=got, expected=expd, istr=istr)
                if algo == "dj":
                    out["known_candidates"].append((v, istr))
                else:
                    out["violations"].append(v)
            if decode_reqs < 8:
                decode_reqs += 1
                out["reqs"].append((dict(op="c16.decode", algo=algo, ty=tj, n=n, istr=istr, quirks=list(active_quirks)),
                                    (lambda got, istr: lambda rep: None if rep.get("out") == got else
                                     dict(what=f"decode_output({istr!r}) differs from the model", code=got, model=rep))(got, istr)))
    try:
        dc = a.decode_counts(dict(counts))
        got_counts = {}
        for k, c in dc.items():
            kk = k if algo == "dj" else json.dumps(code_value(k), sort_keys=True)
            got_counts[kk] = got_counts.get(kk, 0) + c
    except Exception as e:  # noqa
        got_counts = f"raised {type(e).__name__}: {e}"
    if got_counts != exp_counts and not out["known_candidates"]:
        out["violations"].append(dict(what="decode_counts does not aggregate the measured outcomes", code=got_counts, expected=exp_counts))
    return out


# ----------------------------------------------------------------------------- case lists

def dj_cases(ctx: Ctx):
    rng = ctx.rng
    cases = []
    for n in (1, 2, 3):
        for ti, (tname, tsrc, tj, var) in enumerate(arg_types(n)):
            for bits in itertools.product([False, True], repeat=2 ** n):
                cnt = sum(bits)
                kind = "const" if cnt in (0, 2 ** n) else ("bal" if 2 * cnt == 2 ** n else None)
                if kind is None:
                    continue
                # quick tier: the first argument type gets every function; the other types of
                # 3 bits get both constants and a sample of the balanced ones
                if n == 3 and ti > 0 and kind == "bal" and not ctx.thorough and rng.random() > 0.2:
                    continue
                forms = ["anf"]
                if n <= 2 or ctx.thorough or (ti == 0 and rng.random() < 0.25):
                    forms.append("dnf")
                for form in forms:
                    body = (expr_anf if form == "anf" else expr_dnf)(bits, n, var)
                    cases.append(dict(algo="dj", n=n, ty=tname, tj=tj, form=form, kind=kind,
                                      tt=[int(b) for b in bits], src=bool_src(tsrc, body)))
    # samples on 4 (and, thorough, 5) bits
    for n, k in ((4, 40 if ctx.thorough else 8), (5, 10 if ctx.thorough else 0)):
        tname, tsrc, tj, var = arg_types(n)[0]
        for j in range(k):
            if j < 2:
                bits = [bool(j)] * 2 ** n
                kind = "const"
            else:
                ones = set(rng.sample(range(2 ** n), 2 ** (n - 1)))
                bits = [x in ones for x in range(2 ** n)]
                kind = "bal"
            cases.append(dict(algo="dj", n=n, ty=tname, tj=tj, form="anf", kind=kind,
                              tt=[int(b) for b in bits], src=bool_src(tsrc, expr_anf(bits, n, var))))
    return cases


def bv_cases(ctx: Ctx):
    cases = []
    for sct in (0, 1):
        tname, tsrc, tj, var = arg_types(1)[0]
        tt = [parity(x & sct) for x in range(2)]
        cases.append(dict(algo="bv", n=1, ty=tname, tj=tj, secret=sct, tt=tt, src=bool_src(tsrc, expr_anf(tt, 1, var))))
    for n in (2, 3, 4, 5):
        for sct in range(2 ** n):
            tt = [parity(x & sct) for x in range(2 ** n)]
            cases.append(dict(algo="bv", n=n, ty=f"Qint[{n}]", tj=["qint", n], secret=sct, tt=tt, secret_oracle=True,
                              src=f"secret_oracle({n}, {sct})"))
    for n in (2, 3) + ((4,) if ctx.thorough else ()):
        for tname, tsrc, tj, var in arg_types(n)[1:]:
            for sct in range(2 ** n):
                tt = [parity(x & sct) for x in range(2 ** n)]
                cases.append(dict(algo="bv", n=n, ty=tname, tj=tj, secret=sct, tt=tt, src=bool_src(tsrc, expr_anf(tt, n, var))))
    return cases


def simon_cases(ctx: Ctx):
    rng = ctx.rng
    cases = []
    per = 6 if ctx.thorough else 2
    for n in (2, 3, 4):
        types = arg_types(n)
        for s in range(1, 2 ** n):
            reps = sorted({min(x, x ^ s) for x in range(2 ** n)})
            for j in range(per):
                tname, tsrc, tj, var = types[0] if j % 2 == 0 else types[rng.randrange(len(types))]
                vals = rng.sample(range(2 ** n), len(reps))
                table = [0] * 2 ** n
                for r, v in zip(reps, vals):
                    table[r] = v
                    table[r ^ s] = v
                cases.append(dict(algo="simon", n=n, ty=tname, tj=tj, s=s, table=table, src=simon_src(tsrc, n, table, var)))
    return cases


# ----------------------------------------------------------------------------- run

def active_quirks(ctx: Ctx):
    return sorted({f.get("quirk") for f in ctx.findings if f.get("_active") and f.get("quirk")})


def judge(ctx: Ctx, res: Result, case, out, replies):
    """turn one evaluated case (+ the model's replies to its requests) into verdicts"""
    pub = {k: v for k, v in case.items() if k != "tj"}
    pub["tj"] = case["tj"]
    for v in out["violations"]:
        res.violation(pub, v["what"], **{k: x for k, x in v.items() if k != "what"})
    dis = []
    if replies is not None:
        for (req, chk), rep in zip(out["reqs"], replies):
            d = chk(rep)
            if d is not None:
                dis.append((req, d))
                res.disagree(pub, d["what"], **{k: x for k, x in d.items() if k != "what"})
    # attribution of wrong DJ decodings to the listed finding
    fd = next((f for f in ctx.findings if f["id"] == FID_DECODE and f.get("status", "open") == "open" and f.get("_active")), None)
    for v, istr in out["known_candidates"]:
        is_known = False
        if fd is not None and replies is not None and case["algo"] == "dj" and case["kind"] == "const" \
                and v["expected"] == "Constant" and v["code"] == "Balanced":
            # precise trigger: non-numeric argument type, all output bits 0; and the quirk-model
            # must reproduce the code's answer on this very string
            for (req, chk), rep in zip(out["reqs"], replies):
                if req["op"] == "c16.decode" and req["istr"] == istr and "djDecodeEqZero" in req["quirks"] \
                        and rep.get("trigger") is True and rep.get("out") == v["code"]:
                    is_known = True
        if is_known:
            res.known(FID_DECODE)
        else:
            res.violation(pub, v["what"], **{k: x for k, x in v.items() if k != "what"})


def run(ctx: Ctx) -> Result:
    res = Result("C16")
    res.rule = ("nontrivial = the black box compiled to a clean classical xor-oracle (resp. two-to-one map) "
                "and the algorithm object was built, simulated and decoded")
    quirks = active_quirks(ctx)
    cases = dj_cases(ctx) + bv_cases(ctx) + simon_cases(ctx)
    evaluated = []
    skips = {}
    for case in cases:
        out = eval_case(case, quirks)
        bucket = f"{case['algo']}-n{case['n']}"
        if out["skip"]:
            skips[out["skip"]] = skips.get(out["skip"], 0) + 1
            res.count({k: v for k, v in case.items()}, nontrivial=False, bucket=bucket + "-skipped")
            continue
        res.count({k: v for k, v in case.items()}, nontrivial=True, bucket=bucket)
        evaluated.append((case, out))
    # the generator of Bernstein-Vazirani oracles itself
    try:
        from qlasskit.algorithms.bernsteinvazirani import secret_oracle
        secret_oracle(1, 1)
        res.notes.append("secret_oracle(1, s) builds")
    except Exception as e:  # noqa
        res.notes.append(f"secret_oracle(1, s) raises {type(e).__name__} (no Qint[1] type); 1-bit secrets are run through a bool function")
    # model correspondence in one batch
    reqs = [r for _, out in evaluated for r, _ in out["reqs"]]
    replies = ctx.model(reqs)
    pos = 0
    for case, out in evaluated:
        k = len(out["reqs"])
        judge(ctx, res, case, out, None if replies is None else replies[pos: pos + k])
        pos += k
    tally = e2e.Tally()
    for case, out in evaluated:
        tally.add(out.get("e2e", "no-form") if replies is not None else "no-form", case["algo"])
    res.extra["end_to_end"] = dict(covered=tally.covered, covered_fragment_only=tally.covered_fragment,
                                   instances=tally.total, by_algo=tally.by)
    res.notes.append(
        f"{tally.covered} of {tally.total} evaluated instances are covered end to end by a Lean theorem "
        f"({tally.covered_fragment} by C16_end_to_end_fragment - one tree-like definition, one return bit -, the others by "
        "C16_end_to_end_general - class inGeneralClean, one return bit, return qubit not an argument qubit and never a "
        "control - and, for Simon, C16_end_to_end_simon_general - inGeneralClean, any number of return bits, every return "
        "name on a non-argument qubit; side conditions evaluated on the model's output): the black box's definition list "
        "lies in the class AND the compiler model, run on the ancilla choices logged from the real compilation, emits "
        "exactly the black box circuit inside this algorithm circuit (a difference would be a disagreement); per algorithm "
        f"fragment->any/evaluated: {tally.by_text()}; the remaining instances rest on the per-instance check of the real "
        "circuit, as before")
    res.extra["skipped_blackboxes"] = skips
    res.exhaustive = True
    res.notes.append("exhaustive: constant/balanced functions on 1..3 bits (x argument types), secrets on 1..5 bits, "
                     "periods on 2..4 bits; sampled: 4/5-bit Deutsch-Jozsa, the two-to-one functions per period")
    if skips:
        res.notes.append(f"black boxes not meeting the clean-xor-oracle hypothesis (skipped, C02/C03/C06): {skips}")
    res.assumptions.append("amplitude semantics of H/Z/X/CX/CCX/MCX in QV.Amp (compared with harness/circ.py's state-vector "
                           "simulator on every algorithm circuit of the run; that simulator is validated against qiskit)")
    return res


# ----------------------------------------------------------------------------- findings / replay

def witness_fails(ctx: Ctx, f):
    """does the recorded witness still violate the property on the real code?"""
    w = f.get("witness", {})
    if f.get("id") == FID_DECODE:
        from qlasskit import QlassF
        A = importlib.import_module("qlasskit.algorithms")
        qf = QlassF.from_function(w["src"])
        a = A.DeutschJozsa(qf)
        return a.decode_output(w["istr"]) != w["expected"]
    return None


def replay(ctx: Ctx, payload):
    first = payload.get("first") or {}
    case = first.get("case")
    if not case or "algo" not in case:
        print("nothing to replay (no failing input in this file)")
        return 2
    print("replaying", json.dumps({k: v for k, v in case.items() if k != "src"}))
    print(case.get("src", ""))
    for f in ctx.findings:
        try:
            f["_active"] = bool(witness_fails(ctx, f)) if f.get("status", "open") == "open" else False
        except Exception:  # noqa
            f["_active"] = False
    res = Result("C16")
    out = eval_case(case, active_quirks(ctx))
    if out["skip"]:
        print("skipped:", out["skip"])
        return 0
    replies = ctx.model([r for r, _ in out["reqs"]])
    judge(ctx, res, case, out, replies)
    for v in res.violations:
        print("VIOLATION:", json.dumps({k: x for k, x in v.items() if k != "case"}, default=str)[:2000])
    for d in res.disagreements:
        print("DISAGREEMENT:", json.dumps({k: x for k, x in d.items() if k != "case"}, default=str)[:2000])
    return 1 if (res.violations or res.disagreements) else 0
