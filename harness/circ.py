"""Real QCircuit <-> JSON gate lists (see lean/QV/Drive/CircJson.lean), generators, simulators."""
from __future__ import annotations

import cmath
import math

CLASSICAL = ("X", "CX", "CCX", "MCX")


def gate_to_json(g, w, p, ids=None):
    """(gate object, wires, param) of the real library -> JSON.  `ids` maps id(gate) -> small int."""
    from qlasskit.qcircuit import gates as G

    c = type(g).__name__
    d = {"c": c, "n": 0, "g": "", "w": list(w), "p": None, "id": 0}
    if c == "MCX":
        d["n"] = g.n_controls
    elif c == "MCtrl":
        d["n"] = g.n_controls
        d["g"] = g.gate.name
    elif c not in ("I", "X", "Y", "Z", "H", "S", "T", "P", "Swap", "CX", "CZ", "CP", "CCX", "Barrier", "NopGate"):
        d["c"] = "?" + c
    if p is not None:
        d["p"] = param_text(p)
    if ids is not None:
        d["id"] = ids.setdefault(id(g), len(ids) + 1)
    return d


def param_text(p):
    if isinstance(p, float):
        return repr(p)
    return str(p)


def qc_to_json(qc, ids=None):
    if ids is None:
        ids = {}
    return [gate_to_json(g, w, p, ids) for g, w, p in qc.gates]


def make_gate(d):
    from qlasskit.qcircuit import gates as G

    c = d["c"]
    if c == "MCX":
        return G.MCX(d["n"])
    if c == "MCtrl":
        inner = {"X": G.X, "Z": G.Z, "H": G.H, "Y": G.Y, "S": G.S, "T": G.T, "P": G.P}[d["g"]]()
        return G.MCtrl(inner, d["n"])
    if c == "NopGate":
        return G.NopGate()
    return getattr(G, c)()


def new_qc(n, names=None, enhanced=False):
    """empty real circuit on n qubits; `names` = user-chosen qubit names (added one by one with add_qubit)"""
    from qlasskit.qcircuit import QCircuit, QCircuitEnhanced

    cls = QCircuitEnhanced if enhanced else QCircuit
    if names is None:
        return cls(n)
    assert len(names) == n
    qc = cls(0)
    for nm in names:
        qc.add_qubit(nm)
    return qc


def build_qc(n, gates_json, enhanced=False, share_ids=True, names=None):
    """real circuit with the given gates; equal 'id' > 0 -> the same gate object"""
    qc = new_qc(n, names, enhanced)
    objs = {}
    for d in gates_json:
        if share_ids and d.get("id", 0) and d["id"] in objs:
            g = objs[d["id"]]
        else:
            g = make_gate(d)
            if d.get("id", 0):
                objs[d["id"]] = g
        p = d.get("p")
        if isinstance(p, str):
            try:
                p = float(p)
            except ValueError:
                pass
        qc.append(g, list(d["w"]), p)
    return qc


def _param(d):
    p = d.get("p")
    if isinstance(p, str):
        try:
            p = float(p)
        except ValueError:
            pass
    return p


def build_api(recipe):
    """real circuit composed through the library's own API (the way gate objects come to be shared between
    positions of one circuit: the same sub-circuit appended twice, a circuit appended to itself, ...).

    recipe = {n, names?, subs: [{n, gates}], steps: [step]},  step =
      {op: "gate", g: gate}                       qc.append(new gate object, wires, param)
      {op: "iadd", sub: k}                        qc += subs[k]
      {op: "append_circuit", sub: k, qubits: []}  qc.append_circuit(subs[k], qubits)
      {op: "add", sub: k}                         qc = qc + subs[k]
      {op: "iadd_self"}                           qc += qc
      {op: "repeat", times: t}                    qc = qc.repeat(t)
    """
    subs = [build_qc(s["n"], s["gates"]) for s in recipe.get("subs", [])]
    qc = new_qc(recipe["n"], recipe.get("names"))
    for st in recipe["steps"]:
        op = st["op"]
        if op == "gate":
            qc.append(make_gate(st["g"]), list(st["g"]["w"]), _param(st["g"]))
        elif op == "iadd":
            qc += subs[st["sub"]]
        elif op == "append_circuit":
            qc.append_circuit(subs[st["sub"]], list(st["qubits"]))
        elif op == "add":
            qc = qc + subs[st["sub"]]
        elif op == "iadd_self":
            qc += qc
        elif op == "repeat":
            qc = qc.repeat(st["times"])
        else:
            raise ValueError(op)
    return qc


def expand_recipe(recipe):
    """the gate list a recipe denotes, computed here (not by the library): (gates without ids)"""
    out = []

    def strip(d, w=None):
        e = dict(d, id=0)
        e["w"] = list(d["w"] if w is None else w)
        return e

    for st in recipe["steps"]:
        op = st["op"]
        if op == "gate":
            out.append(strip(st["g"]))
        elif op in ("iadd", "add"):
            out.extend(strip(d) for d in recipe["subs"][st["sub"]]["gates"])
        elif op == "append_circuit":
            q = st["qubits"]
            out.extend(strip(d, [q[i] for i in d["w"]]) for d in recipe["subs"][st["sub"]]["gates"])
        elif op == "iadd_self":
            out.extend([strip(d) for d in out])
        elif op == "repeat":
            out = [strip(d) for _ in range(max(st["times"], 0)) for d in out]
        else:
            raise ValueError(op)
    return out


def api_case(recipe):
    """(n, gates, opts) of a circuit built through the library's composition API: the gate list is the harness' own
    expansion of the recipe (what an oracle judges), the ids are the identities of the gate objects of the circuit
    the API really built"""
    key = lambda d: (d["c"], d["n"], d["g"], tuple(d["w"]), d.get("p"))
    want = expand_recipe(recipe)
    opts = dict(recipe=recipe, names=recipe.get("names"))
    try:
        got = qc_to_json(build_api(recipe), {})
    except Exception as e:  # noqa
        opts["api_mismatch"] = f"{type(e).__name__}: {e}"
        return (recipe["n"], want, opts)
    if [key(d) for d in got] != [key(d) for d in want]:
        opts["api_mismatch"] = [[d["c"], d["w"]] for d in got]
        return (recipe["n"], want, opts)
    return (recipe["n"], got, opts)


def with_ids(gates_json, start=1):
    """copies of the gates carrying ids start, start+1, ...: appending the returned list twice to a case means
    'the same gate objects again' for build_qc"""
    return [dict(d, id=start + i) for i, d in enumerate(gates_json)]


def shared_positions(gates_json):
    """number of gates of the list whose gate object also occurs at an earlier position"""
    seen, k = set(), 0
    for d in gates_json:
        i = d.get("id", 0)
        if i:
            if i in seen:
                k += 1
            seen.add(i)
    return k


def name_schemes(n):
    """user-chosen qubit names whose textual order differs from the index order"""
    return {
        "default": None,
        "letters": [chr(ord("a") + (i * 7) % 26) for i in range(n)] if n <= 26 else [f"v{i}" for i in range(n)],
        "reversed-q": [f"q{n - 1 - i}" for i in range(n)],
        "shifted-q": [f"q{(i + 1) % n}" for i in range(n)],
        "padded": [f"q{i:02d}" for i in range(n)],
        "words": [f"{'xyzw'[i % 4]}{n - i}" for i in range(n)],
    }


def run_classical(gates_json, state):
    s = list(state)
    for d in gates_json:
        c = d["c"]
        if c in ("Barrier", "NopGate"):
            continue
        if c in CLASSICAL or (c == "MCtrl" and d["g"] == "X"):
            w = d["w"]
            if all(s[i] for i in w[:-1]):
                s[w[-1]] = not s[w[-1]]
        else:
            raise ValueError(f"non-classical gate {c}")
    return s


def is_classical(d):
    return d["c"] in CLASSICAL or (d["c"] == "MCtrl" and d["g"] == "X")


# ---------------------------------------------------------------- state-vector simulation

def _single(c, p):
    s2 = 1 / math.sqrt(2)
    if c == "I":
        return [[1, 0], [0, 1]]
    if c == "X":
        return [[0, 1], [1, 0]]
    if c == "Y":
        return [[0, -1j], [1j, 0]]
    if c == "Z":
        return [[1, 0], [0, -1]]
    if c == "H":
        return [[s2, s2], [s2, -s2]]
    if c == "S":
        return [[1, 0], [0, 1j]]
    if c == "T":
        return [[1, 0], [0, cmath.exp(1j * math.pi / 4)]]
    if c == "P":
        return [[1, 0], [0, cmath.exp(1j * float(p))]]
    raise ValueError(c)


def apply_gate_sv(state, n, d):
    """state: list of 2^n amplitudes, index bit k = qubit k"""
    c, w, p = d["c"], d["w"], d.get("p")
    if c in ("Barrier", "NopGate"):
        return state
    if c == "Swap":
        a, b = w
        out = list(state)
        for i in range(len(state)):
            ba, bb = (i >> a) & 1, (i >> b) & 1
            if ba != bb:
                j = i ^ (1 << a) ^ (1 << b)
                out[j] = state[i]
        return out
    if c in ("CX", "CCX", "MCX"):
        ctrls, tgt, m = w[:-1], w[-1], _single("X", None)
    elif c == "CZ":
        ctrls, tgt, m = w[:-1], w[-1], _single("Z", None)
    elif c == "CP":
        ctrls, tgt, m = w[:-1], w[-1], _single("P", p)
    elif c == "MCtrl":
        ctrls, tgt, m = w[:-1], w[-1], _single(d["g"], p)
    else:
        ctrls, tgt, m = [], w[0], _single(c, p)
    out = list(state)
    for i in range(len(state)):
        if (i >> tgt) & 1:
            continue
        if not all((i >> cc) & 1 for cc in ctrls):
            continue
        j = i | (1 << tgt)
        a0, a1 = state[i], state[j]
        out[i] = m[0][0] * a0 + m[0][1] * a1
        out[j] = m[1][0] * a0 + m[1][1] * a1
    return out


def unitary(n, gates_json):
    """columns: image of basis state k (list of lists U[row][col])"""
    cols = []
    for k in range(2 ** n):
        st = [0j] * (2 ** n)
        st[k] = 1
        for d in gates_json:
            st = apply_gate_sv(st, n, d)
        cols.append(st)
    return [[cols[c][r] for c in range(2 ** n)] for r in range(2 ** n)]


def run_sv(n, gates_json, state=None):
    st = state
    if st is None:
        st = [0j] * (2 ** n)
        st[0] = 1
    for d in gates_json:
        st = apply_gate_sv(st, n, d)
    return st


def mat_close(a, b, tol=1e-9):
    return all(abs(x - y) < tol for ra, rb in zip(a, b) for x, y in zip(ra, rb))


# ---------------------------------------------------------------- generators

SINGLE = ["X", "H", "Z", "Y", "S", "T", "I"]


def rand_gate(rng, n, classical_only=False, kinds=None, ids=False):
    """one random applied gate on n qubits as JSON"""
    if kinds is None:
        kinds = ["X", "CX", "CCX", "MCX"] if classical_only else [
            "X", "CX", "CCX", "MCX", "H", "Z", "Y", "S", "T", "P", "CP", "CZ", "Swap", "MCtrlZ", "MCtrlX", "Barrier", "I"]
    for _ in range(50):
        k = rng.choice(kinds)
        need = {"CX": 2, "CZ": 2, "CP": 2, "Swap": 2, "CCX": 3}.get(k, 1)
        if k in ("MCX", "MCtrlZ", "MCtrlX"):
            need = rng.randint(2, min(n, 4)) if n >= 2 else 99
        if k == "Barrier":
            need = 0
        if need > n:
            continue
        w = rng.sample(range(n), need)
        d = {"c": k, "n": 0, "g": "", "w": w, "p": None, "id": 0}
        if k == "MCX":
            d["n"] = need - 1
        elif k == "MCtrlZ":
            d.update(c="MCtrl", n=need - 1, g="Z")
        elif k == "MCtrlX":
            d.update(c="MCtrl", n=need - 1, g="X")
        if k in ("P", "CP"):
            d["p"] = repr(rng.choice([math.pi / 2, math.pi / 4, -math.pi / 8, 0.79, 1.0, 2 * math.pi / 3, 0.123456]))
        return d
    return {"c": "X", "n": 0, "g": "", "w": [0], "p": None, "id": 0}


def rand_circuit(rng, n, length, classical_only=False, kinds=None):
    return [rand_gate(rng, n, classical_only, kinds) for _ in range(length)]
