"""Correspondence of the Lean model of `qlasskit.ast2ast.ast2ast` (lean/QV/Model/Ast2Ast.lean) with the real pass.

`source_request(src)` serialises the CPython `ast` of the source text (before any pass) for the driver op
`c01.ast2ast`; `real_result(ast2ast, src)` runs the real pass on a fresh parse of the same text and
serialises the tree it returns (or the exception it raises) in the same canonical form; `compare` decides.
The serialisation is total: anything it has no form for becomes `["other", <class>]`, which the model
answers with `outside` (nothing is compared then).
"""
from __future__ import annotations

import ast

BUILTIN_RULES = ("if", "else", "elif", "if-in-else", "if-in-if-body", "for-range", "for-tuple", "for-list", "for-name",
                 "for-else", "augassign", "self-assign", "annassign", "multitarget", "fold-pre", "fold-post")


def sx(e):
    """expression -> canonical JSON"""
    try:
        return _sx(e)
    except Exception as ex:  # noqa - a malformed tree of the real pass must not stop the run
        return ["other", "malformed:" + type(ex).__name__]


def _sx(e):
    if isinstance(e, ast.Name):
        return ["name", e.id]
    if isinstance(e, ast.Constant):
        v = e.value
        if v is True or v is False:
            return ["const", "bool", v]
        if type(v) is int:
            return ["const", "int", v]
        if type(v) is str:
            return ["const", "str", v]
        return ["const", "other", type(v).__name__]
    if isinstance(e, ast.Subscript):
        if not isinstance(e.slice, ast.expr):
            return ["other", "subscript-slice:" + type(e.slice).__name__]
        return ["sub", _sx(e.value), _sx(e.slice)]
    if isinstance(e, ast.BoolOp):
        return ["boolop", "and" if isinstance(e.op, ast.And) else "or"] + [_sx(x) for x in e.values]
    if isinstance(e, ast.UnaryOp):
        return ["unop", type(e.op).__name__, _sx(e.operand)]
    if isinstance(e, ast.IfExp):
        return ["ite", _sx(e.test), _sx(e.body), _sx(e.orelse)]
    if isinstance(e, ast.Compare):
        if len(e.ops) != 1 or len(e.comparators) != 1:
            return ["other", "compare-chain"]
        return ["cmp", type(e.ops[0]).__name__, _sx(e.left), _sx(e.comparators[0])]
    if isinstance(e, ast.BinOp):
        return ["bin", type(e.op).__name__, _sx(e.left), _sx(e.right)]
    if isinstance(e, ast.Tuple):
        return ["tuple"] + [_sx(x) for x in e.elts]
    if isinstance(e, ast.List):
        return ["list"] + [_sx(x) for x in e.elts]
    if isinstance(e, ast.Call):
        if not isinstance(e.func, ast.Name) or e.keywords:
            return ["other", "call-form"]
        return ["call", e.func.id] + [_sx(x) for x in e.args]
    return ["other", type(e).__name__]


def ann_str(a):
    """annotations the type-annotation pass leaves alone: bool, Qint[k]"""
    if isinstance(a, ast.Name) and a.id == "bool":
        return "bool"
    if (isinstance(a, ast.Subscript) and isinstance(a.value, ast.Name) and a.value.id == "Qint"
            and isinstance(a.slice, ast.Constant) and type(a.slice.value) is int):
        return f"Qint[{a.slice.value}]"
    return None


def ss(s):
    try:
        return _ss(s)
    except Exception as ex:  # noqa
        return ["other", "malformed:" + type(ex).__name__]


def _ss(s):
    if isinstance(s, ast.Assign):
        return ["assign", [sx(t) for t in s.targets], sx(s.value)]
    if isinstance(s, ast.AugAssign):
        return ["aug", sx(s.target), type(s.op).__name__, sx(s.value)]
    if isinstance(s, ast.AnnAssign):
        a = ann_str(s.annotation)
        if a is None:
            return ["other", "AnnAssign-annotation"]
        return ["ann", sx(s.target), a, None if s.value is None else sx(s.value)]
    if isinstance(s, ast.Return):
        return ["ret", None if s.value is None else sx(s.value)]
    if isinstance(s, ast.Expr):
        if not hasattr(s, "value"):
            return ["other", "Expr-without-value"]
        return ["expr", sx(s.value)]
    if isinstance(s, ast.If):
        return ["if", sx(s.test), [ss(x) for x in s.body], [ss(x) for x in s.orelse]]
    if isinstance(s, ast.For):
        return ["for", sx(s.target), sx(s.iter), [ss(x) for x in s.body], [ss(x) for x in s.orelse]]
    return ["other", type(s).__name__]


def expr_rules(fn):
    """which expression-level rewrites of ast2ast the *source* of a function asks for (evidence only)"""
    out = set()
    names_const = set()
    for node in ast.walk(fn):
        if isinstance(node, ast.Call) and isinstance(node.func, ast.Name):
            f = node.func.id
            if f in ("len", "sum", "min", "max", "any", "all", "ord", "chr", "int", "float", "abs"):
                out.add("call:" + f)
                if node.args:
                    a = node.args[0]
                    kind = ("tuple-literal" if isinstance(a, ast.Tuple) else "list-literal" if isinstance(a, ast.List)
                            else "name" if isinstance(a, ast.Name) else "row" if isinstance(a, ast.Subscript)
                            else "call" if isinstance(a, ast.Call) else "other")
                    if f in ("len", "sum", "min", "max", "any", "all"):
                        out.add(f"unroll:{kind}" if len(node.args) == 1 else f"call:{f}:{min(len(node.args), 4)}-args")
        if isinstance(node, ast.Subscript):
            sl, v = node.slice, node.value
            if isinstance(sl, ast.Name):
                if isinstance(v, ast.Subscript) and isinstance(v.slice, ast.Name):
                    out.add("subscript:var-var")
                elif isinstance(v, ast.Name):
                    out.add("subscript:var")
                else:
                    out.add("subscript:var-on-" + type(v).__name__)
            elif isinstance(sl, ast.Subscript):
                out.add("subscript:by-subscript")
        if isinstance(node, ast.For) and isinstance(node.iter, ast.Subscript):
            out.add("for-row")
        if isinstance(node, ast.BinOp) and isinstance(node.op, ast.Pow):
            out.add("pow")
    return sorted(out)


def parse_fn(src):
    try:
        m = ast.parse(src)
    except SyntaxError:
        return None
    if not m.body or not isinstance(m.body[0], ast.FunctionDef):
        return None
    return m.body[0]


def source_request(src):
    fn = parse_fn(src)
    if fn is None:
        return None
    args = [[a.arg, sx(a.annotation) if a.annotation is not None else ["other", "no-annotation"]] for a in fn.args.args]
    return dict(op="c01.ast2ast", args=args, body=[ss(s) for s in fn.body], expr_rules=expr_rules(fn))


def real_result(ast2ast, src):
    fn = parse_fn(src)
    if fn is None:
        return None
    try:
        out = ast2ast(fn)
    except Exception as e:  # noqa - every exception is the pass rejecting the program
        return dict(exception=[type(e).__name__, str(e)])
    return dict(body=[ss(s) for s in out.body], tree=out)


def strip_unsupported(j):
    if isinstance(j, list):
        if j and j[0] == "unsupported":
            return ["unsupported"]
        return [strip_unsupported(x) for x in j]
    return j


def first_diff(a, b, path=""):
    if type(a) is not type(b):
        return path, a, b
    if isinstance(a, list):
        for i, (x, y) in enumerate(zip(a, b)):
            d = first_diff(x, y, f"{path}/{i}")
            if d:
                return d
        if len(a) != len(b):
            return f"{path}/len", len(a), len(b)
        return None
    return None if a == b else (path, a, b)


def compare(model, real, front=None):
    """-> (verdict, detail); verdict in: outside | agree-body | agree-exception | differ"""
    if model is None or "driver_error" in model:
        return "differ", dict(what="model driver error", model=model)
    if "outside" in model:
        return "outside", model["outside"]
    if "exception" in model:
        ty, key = model["exception"]
        if "exception" not in real:
            return "differ", dict(what="the model raises, the real pass returns a tree", model=model["exception"])
        rty, rmsg = real["exception"]
        if rty != ty or key not in rmsg:
            return "differ", dict(what="different exception", model=model["exception"], code=[rty, rmsg[:200]])
        return "agree-exception", ty + ": " + key
    if "exception" in real:
        return "differ", dict(what="the real pass raises, the model returns a tree",
                              code=[real["exception"][0], real["exception"][1][:200]])
    if model["body"] != real["body"]:
        d = first_diff(model["body"], real["body"])
        return "differ", dict(what="rewritten tree differs", at=d[0] if d else None,
                              model=d[1] if d else None, code=d[2] if d else None)
    if front is not None and strip_unsupported(front) != model.get("front"):
        d = first_diff(model.get("front"), strip_unsupported(front))
        return "differ", dict(what="Front syntax of the rewritten tree differs (toP / pexp)", at=d[0] if d else None,
                              model=d[1] if d else None, code=d[2] if d else None)
    return "agree-body", None


# ----------------------------------------------------------------------------- rewrite forms (correspondence only)
# One program per rewriting rule / quirk / exception of the pass.  They go through the ast2ast correspondence only:
# several are rejected later by translate_ast (an `if` nested in the body of an `if` reads `_iftarg<n>` before it is
# defined).  (`for … else` is also in the oracle stream of harness/c01.py since the repair 67bd58c.)
H2 = "def f(a: bool, b: bool, x: Qint[2], y: Qint[2]) -> Qint[2]:\n"
A2A_FORMS = [
    ("if-in-if-body", H2 + "\tr = x\n\tif a:\n\t\tr = r + 1\n\t\tif b:\n\t\t\tr = 3\n\treturn r"),
    ("if-in-if-body-else", H2 + "\tr = x\n\tif a:\n\t\tif b:\n\t\t\tr = 3\n\t\telse:\n\t\t\tr = 1\n\telse:\n\t\tr = 2\n\treturn r"),
    ("if-in-else-deep", H2 + "\tr = x\n\tif a:\n\t\tr = 1\n\telse:\n\t\tif b:\n\t\t\tr = 2\n\t\telse:\n\t\t\tif x > y:\n\t\t\t\tr = 3\n\t\t\telse:\n\t\t\t\tr = r + 1\n\treturn r"),
    ("if-return", H2 + "\tif a:\n\t\treturn x\n\treturn y"),
    ("if-expr-stmt", H2 + "\tr = x\n\tif a:\n\t\tr\n\treturn r"),
    ("if-ann", H2 + "\tr = x\n\tif a:\n\t\tr: Qint[2] = y\n\treturn r"),
    ("if-tuple-target", H2 + "\tr = x\n\ts = y\n\tif a:\n\t\tr, s = s, r\n\treturn r"),
    ("if-chained", H2 + "\tr = x\n\ts = y\n\tif a:\n\t\tr = s = y\n\treturn r"),
    ("if-aug", H2 + "\tr = x\n\tif a:\n\t\tr += y\n\telse:\n\t\tr -= 1\n\treturn r"),
    ("if-empty-after-fold", H2 + "\tr = x\n\tif a:\n\t\tif False:\n\t\t\tr = 1\n\treturn r"),
    ("if-const-test", H2 + "\tr = x\n\tif 1 < 2:\n\t\tr = y\n\telse:\n\t\tr = 0\n\treturn r"),
    ("if-const-test-else", H2 + "\tr = x\n\tif not True:\n\t\tr = y\n\telse:\n\t\tr = 0\n\treturn r"),
    ("if-dunder-known", H2 + "\t__r = x\n\tif a:\n\t\t__r = y\n\treturn x"),
    ("if-new-var", H2 + "\tif a:\n\t\tr = y\n\treturn x"),
    ("if-selfref-unknown", H2 + "\tif a:\n\t\tq = q + 1\n\treturn x"),
    ("for-tuple", H2 + "\tr = x\n\tfor i in (1, 2, 3):\n\t\tr = r + i\n\treturn r"),
    ("for-tuple-bools", H2 + "\tr = a\n\tfor v in (True, False):\n\t\tr = r ^ v\n\treturn x"),
    ("for-list", H2 + "\tr = x\n\tfor i in [3, 1]:\n\t\tr ^= i\n\treturn r"),
    ("for-range3", H2 + "\tr = x\n\tfor i in range(3, 0, -1):\n\t\tr = r + i\n\treturn r"),
    ("for-range-fold", H2 + "\tr = x\n\tfor i in range(1, 1 + 2):\n\t\tr = r + (i + 1) * 2\n\treturn r"),
    ("for-range-empty", H2 + "\tr = x\n\tfor i in range(0):\n\t\tr = r + i\n\treturn r"),
    ("for-range-var", H2 + "\tr = x\n\tn = 2\n\tfor i in range(n):\n\t\tr = r + i\n\treturn r"),
    ("for-range-noargs", H2 + "\tr = x\n\tfor i in range():\n\t\tr = r + i\n\treturn r"),
    ("for-range-step0", H2 + "\tr = x\n\tfor i in range(0, 2, 0):\n\t\tr = r + i\n\treturn r"),
    ("for-range-bool", H2 + "\tr = x\n\tfor i in range(True, 3):\n\t\tr = r + i\n\treturn r"),
    ("for-nested", H2 + "\tr = x\n\tfor i in (1, 2):\n\t\tfor j in range(i):\n\t\t\tr += j\n\treturn r"),
    ("for-shadow", H2 + "\tr = x\n\tfor i in range(2):\n\t\tfor i in range(2):\n\t\t\tr += i\n\treturn r"),
    ("for-assign-loopvar", H2 + "\tr = x\n\tfor i in range(2):\n\t\ti = i + 1\n\t\tr += i\n\treturn r"),
    ("for-aug-loopvar", H2 + "\tr = x\n\tfor i in range(2):\n\t\ti += 1\n\treturn r"),
    ("for-index", "def f(x: Qint[4]) -> Qint[4]:\n\tr = 0\n\tfor i in range(4):\n\t\tr = r + (1 if x[i] else 0)\n\treturn r"),
    ("for-index-expr", "def f(x: Qint[4]) -> bool:\n\tr = False\n\tfor i in range(3):\n\t\tr = r ^ x[i + 1]\n\treturn r"),
    ("for-if", H2 + "\tr = x\n\tfor i in range(3):\n\t\tif i == 1:\n\t\t\tr = r + 1\n\t\telif x > i:\n\t\t\tr = r ^ 1\n\treturn r"),
    ("if-for", H2 + "\tr = x\n\ti = 0\n\tif a:\n\t\tfor i in range(2):\n\t\t\tr = r + i\n\treturn r"),
    ("for-else", H2 + "\tr = x\n\tfor i in [1, 2]:\n\t\tr += i\n\telse:\n\t\tr = 0\n\treturn r"),
    ("for-name-arg", "def f(t: Tuple[Qint[2], Qint[2]], q: Qlist[bool, 3]) -> Qint[2]:\n\tr = 0\n\tfor v in t:\n\t\tr += v\n\tfor w in q:\n\t\tr = r + 1 if w else r\n\treturn r"),
    ("for-name-copy", "def f(t: Tuple[Qint[2], Qint[2]]) -> Qint[2]:\n\tu = t\n\tr = 0\n\tfor v in u:\n\t\tr += v\n\treturn r"),
    ("for-name-const", H2 + "\tu = (1, 2)\n\tr = x\n\tfor v in u:\n\t\tr += v\n\treturn r"),
    ("for-name-const-list", H2 + "\tu = [1, 2]\n\tr = x\n\tfor v in u:\n\t\tr += v\n\treturn r"),
    ("for-name-rebound", "def f(t: Tuple[Qint[2], Qint[2]]) -> Qint[2]:\n\tt = (1, 2, 3)\n\tr = 0\n\tfor v in t:\n\t\tr += v\n\treturn r"),
    ("for-name-scalar", H2 + "\tr = x\n\tfor v in y:\n\t\tr += v\n\treturn r"),
    ("for-name-matrix", "def f(m: Qmatrix[bool, 2, 3]) -> Qint[2]:\n\tr = 0\n\tfor row in m:\n\t\tr = r + 1\n\treturn r"),
    ("for-tuple-names", H2 + "\tr = x\n\tfor v in (x, y):\n\t\tr += v\n\treturn r"),
    ("for-tuple-subs", "def f(t: Tuple[Qint[2], Qint[2]]) -> Qint[2]:\n\tr = 0\n\tfor v in (t[1], t[0]):\n\t\tr += v\n\treturn r"),
    ("for-target-tuple", H2 + "\tr = x\n\tfor i, j in ((1, 2),):\n\t\tr += i\n\treturn r"),
    ("for-return", H2 + "\tfor i in range(2):\n\t\treturn x\n\treturn y"),
    ("ann", H2 + "\tr: Qint[2] = x\n\tr: Qint[2] = r + 1\n\treturn r"),
    ("ann-bool", H2 + "\tc: bool = a\n\tc: bool = not c\n\treturn x if c else y"),
    ("ann-novalue", H2 + "\tr: Qint[2]\n\tr = x\n\treturn r"),
    ("aug-all", H2 + "\tr = x\n\tr += y\n\tr -= 1\n\tr *= 2\n\tr ^= y\n\tr &= 3\n\tr |= 1\n\tr <<= 1\n\tr >>= 1\n\tr %= 4\n\treturn r"),
    ("aug-pow", H2 + "\tr = x\n\tr **= 2\n\treturn r"),
    ("aug-subscript-target", "def f(t: Tuple[bool, bool]) -> bool:\n\tt[0] ^= True\n\treturn t[0]"),
    ("aug-dunder", H2 + "\t__r = x\n\t__r += 1\n\treturn x"),
    ("assign-dunder-read", H2 + "\tr = __x\n\treturn r"),
    ("assign-selfref-arg", H2 + "\tx = x + y\n\tx = x\n\tx = (x)\n\ta = not a\n\treturn x if a else y"),
    ("assign-selfref-new", H2 + "\tq = 1\n\tq = q + x\n\treturn q"),
    ("assign-selfref-const", H2 + "\tx = 1\n\treturn x"),
    ("assign-subscript-target", "def f(t: Tuple[bool, bool]) -> bool:\n\tt[0] = True\n\treturn t[0]"),
    ("assign-tuple-value", H2 + "\tt = (x, y)\n\tt = (t[1], t[0])\n\treturn t[0]"),
    ("assign-list-value", H2 + "\tt = [x, y]\n\treturn t[1]"),
    ("multitarget", H2 + "\tp, q = x, y\n\t[p, q] = q, p\n\tt = (p, q)\n\tp, q = t\n\treturn p - q"),
    ("multitarget-nested", H2 + "\t(p, (q, r)) = (x, (y, x))\n\treturn p"),
    ("multitarget-in-if", H2 + "\tp = x\n\tq = y\n\tif a:\n\t\tp, q = q, p\n\treturn p"),
    ("pow", H2 + "\treturn x ** 3 + y ** 1 + (x ** 0) + 2 ** 3"),
    ("pow-neg", H2 + "\treturn x ** -1"),
    ("pow-bool", H2 + "\treturn x ** True + y ** False"),
    ("fold", H2 + "\treturn x + (3 * 2 - 1) + (7 // 2) + (7 % 4) + (1 << 3) + (9 >> 1) + (6 & 3) + (6 | 3) + (6 ^ 3) + (-5 // 2) + (-5 % 3)"),
    ("fold-bools", H2 + "\tc = (True & False) | (True ^ True)\n\td = True + True\n\treturn x + d if c else y"),
    ("fold-cmp", H2 + "\treturn x if (1 < 2) == True else y"),
    ("fold-unary", H2 + "\treturn x + (-1) + (+2) + (~0) + (3 if not 0 else 4)"),
    ("fold-div0", H2 + "\treturn x + 1 // 0"),
    ("fold-mod0", H2 + "\treturn x + 1 % 0"),
    ("fold-negshift", H2 + "\treturn x + (1 << -1)"),
    ("fold-ifexp", H2 + "\treturn (x if True else y) + (x if 0 else y)"),
    ("fold-boolop", H2 + "\treturn x if (True and a) else y"),
    ("reserved-iftarg", H2 + "\t_iftarg2 = a\n\treturn x"),
    ("reserved-temptup", H2 + "\t_temptup = a\n\treturn x"),
    ("reserved-arg", "def f(_iftarg9: bool, x: Qint[2]) -> Qint[2]:\n\treturn x"),
    ("bare-return", H2 + "\treturn"),
    ("expr-stmt", H2 + "\tx + 1\n\treturn x"),
    ("pass", H2 + "\tpass\n\treturn x"),
]
