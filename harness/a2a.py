"""Correspondence of the Lean model of `qlasskit.ast2ast.ast2ast` (lean/QV/Model/Ast2Ast.lean) with the real pass.

`source_request(src)` serialises the CPython `ast` of the source text (before any pass) for the driver op
`c01.ast2ast`; `real_result(ast2ast, src)` runs the real pass on a fresh parse of the same text and
serialises the tree it returns (or the exception it raises) in the same canonical form; `compare` decides.
The serialisation is total: anything it has no form for becomes `["other", <class>]`, which the model
answers with `outside` (nothing is compared then).
"""
from __future__ import annotations

import ast

BUILTIN_RULES = ("if", "else", "elif", "if-in-else", "if-in-if-body", "for-range", "for-tuple", "for-list", "for-name",
                 "for-else-dropped", "augassign", "self-assign", "annassign", "multitarget", "fold-pre", "fold-post")


def sx(e):
    """expression -> canonical JSON"""
    try:
        return _sx(e)
    except Exception as ex:  # noqa - a malformed tree of the real pass must not stop the run
        return ["other", "malformed:" + type(ex).__name__]


def _sx(e):
    if isinstance(e, ast.Name):
        return ["name", e.id]
    if isinstance(e, ast.Constant):
        v = e.value
        if v is True or v is False:
            return ["const", "bool", v]
        if type(v) is int:
            return ["const", "int", v]
        if type(v) is str:
            return ["const", "str", v]
        return ["const", "other", type(v).__name__]
    if isinstance(e, ast.Subscript):
        if not isinstance(e.slice, ast.expr):
            return ["other", "subscript-slice:" + type(e.slice).__name__]
        return ["sub", _sx(e.value), _sx(e.slice)]
    if isinstance(e, ast.BoolOp):
        return ["boolop", "and" if isinstance(e.op, ast.And) else "or"] + [_sx(x) for x in e.values]
    if isinstance(e, ast.UnaryOp):
        return ["unop", type(e.op).__name__, _sx(e.operand)]
    if isinstance(e, ast.IfExp):
        return ["ite", _sx(e.test), _sx(e.body), _sx(e.orelse)]
    if isinstance(e, ast.Compare):
        if len(e.ops) != 1 or len(e.comparators) != 1:
            return ["other", "compare-chain"]
        return ["cmp", type(e.ops[0]).__name__, _sx(e.left), _sx(e.comparators[0])]
    if isinstance(e, ast.BinOp):
        return ["bin", type(e.op).__name__, _sx(e.left), _sx(e.right)]
    if isinstance(e, ast.Tuple):
        return ["tuple"] + [_sx(x) for x in e.elts]
    if isinstance(e, ast.List):
        return ["list"] + [_sx(x) for x in e.elts]
    if isinstance(e, ast.Call):
        if not isinstance(e.func, ast.Name) or e.keywords:
            return ["other", "call-form"]
        return ["call", e.func.id] + [_sx(x) for x in e.args]
    return ["other", type(e).__name__]


def ann_str(a):
    """annotations the type-annotation pass leaves alone: bool, Qint[k]"""
    if isinstance(a, ast.Name) and a.id == "bool":
        return "bool"
    if (isinstance(a, ast.Subscript) and isinstance(a.value, ast.Name) and a.value.id == "Qint"
            and isinstance(a.slice, ast.Constant) and type(a.slice.value) is int):
        return f"Qint[{a.slice.value}]"
    return None


def ss(s):
    try:
        return _ss(s)
    except Exception as ex:  # noqa
        return ["other", "malformed:" + type(ex).__name__]


def _ss(s):
    if isinstance(s, ast.Assign):
        return ["assign", [sx(t) for t in s.targets], sx(s.value)]
    if isinstance(s, ast.AugAssign):
        return ["aug", sx(s.target), type(s.op).__name__, sx(s.value)]
    if isinstance(s, ast.AnnAssign):
        a = ann_str(s.annotation)
        if a is None:
            return ["other", "AnnAssign-annotation"]
        return ["ann", sx(s.target), a, None if s.value is None else sx(s.value)]
    if isinstance(s, ast.Return):
        return ["ret", None if s.value is None else sx(s.value)]
    if isinstance(s, ast.Expr):
        if not hasattr(s, "value"):
            return ["other", "Expr-without-value"]
        return ["expr", sx(s.value)]
    if isinstance(s, ast.If):
        return ["if", sx(s.test), [ss(x) for x in s.body], [ss(x) for x in s.orelse]]
    if isinstance(s, ast.For):
        return ["for", sx(s.target), sx(s.iter), [ss(x) for x in s.body], [ss(x) for x in s.orelse]]
    return ["other", type(s).__name__]


def tuple_arity(a):
    """number of elements `Environment.get_type(arg)` shows `__unroll_arg` after the type-annotation pass"""
    if isinstance(a, ast.Subscript) and isinstance(a.value, ast.Name):
        sl = a.slice
        if a.value.id == "Tuple" and isinstance(sl, ast.Tuple):
            return len(sl.elts)
        if a.value.id in ("Qlist", "Qmatrix") and isinstance(sl, ast.Tuple) and len(sl.elts) >= 2 \
                and isinstance(sl.elts[1], ast.Constant) and type(sl.elts[1].value) is int:
            return sl.elts[1].value
    return None


def parse_fn(src):
    try:
        m = ast.parse(src)
    except SyntaxError:
        return None
    if not m.body or not isinstance(m.body[0], ast.FunctionDef):
        return None
    return m.body[0]


def source_request(src):
    fn = parse_fn(src)
    if fn is None:
        return None
    args = [[a.arg, tuple_arity(a.annotation)] for a in fn.args.args]
    return dict(op="c01.ast2ast", args=args, body=[ss(s) for s in fn.body])


def real_result(ast2ast, src):
    fn = parse_fn(src)
    if fn is None:
        return None
    try:
        out = ast2ast(fn)
    except Exception as e:  # noqa - every exception is the pass rejecting the program
        return dict(exception=[type(e).__name__, str(e)])
    return dict(body=[ss(s) for s in out.body], tree=out)


def strip_unsupported(j):
    if isinstance(j, list):
        if j and j[0] == "unsupported":
            return ["unsupported"]
        return [strip_unsupported(x) for x in j]
    return j


def first_diff(a, b, path=""):
    if type(a) is not type(b):
        return path, a, b
    if isinstance(a, list):
        for i, (x, y) in enumerate(zip(a, b)):
            d = first_diff(x, y, f"{path}/{i}")
            if d:
                return d
        if len(a) != len(b):
            return f"{path}/len", len(a), len(b)
        return None
    return None if a == b else (path, a, b)


def compare(model, real, front=None):
    """-> (verdict, detail); verdict in: outside | agree-body | agree-exception | differ"""
    if model is None or "driver_error" in model:
        return "differ", dict(what="model driver error", model=model)
    if "outside" in model:
        return "outside", model["outside"]
    if "exception" in model:
        ty, key = model["exception"]
        if "exception" not in real:
            return "differ", dict(what="the model raises, the real pass returns a tree", model=model["exception"])
        rty, rmsg = real["exception"]
        if rty != ty or key not in rmsg:
            return "differ", dict(what="different exception", model=model["exception"], code=[rty, rmsg[:200]])
        return "agree-exception", ty + ": " + key
    if "exception" in real:
        return "differ", dict(what="the real pass raises, the model returns a tree",
                              code=[real["exception"][0], real["exception"][1][:200]])
    if model["body"] != real["body"]:
        d = first_diff(model["body"], real["body"])
        return "differ", dict(what="rewritten tree differs", at=d[0] if d else None,
                              model=d[1] if d else None, code=d[2] if d else None)
    if front is not None and strip_unsupported(front) != model.get("front"):
        d = first_diff(model.get("front"), strip_unsupported(front))
        return "differ", dict(what="Front syntax of the rewritten tree differs (toP / pexp)", at=d[0] if d else None,
                              model=d[1] if d else None, code=d[2] if d else None)
    return "agree-body", None
