"""Correspondence of the Lean model of `qlasskit.ast2ast.ast2ast` (lean/QV/Model/Ast2Ast.lean) with the real pass.

`source_request(src)` serialises the CPython `ast` of the source text (before any pass) for the driver op
`c01.ast2ast`; `real_result(ast2ast, src)` runs the real pass on a fresh parse of the same text and
serialises the tree it returns (or the exception it raises) in the same canonical form; `compare` decides.
The serialisation is total: anything it has no form for becomes `["other", <class>]`, which the model
answers with `outside` (nothing is compared then).
"""
from __future__ import annotations

import ast

BUILTIN_RULES = ("if", "else", "elif", "if-in-else", "if-in-if-body", "for-range", "for-tuple", "for-list", "for-name",
                 "for-else", "augassign", "self-assign", "annassign", "multitarget", "fold-pre", "fold-post")


def sx(e):
    """expression -> canonical JSON"""
    try:
        return _sx(e)
    except Exception as ex:  # noqa - a malformed tree of the real pass must not stop the run
        return ["other", "malformed:" + type(ex).__name__]


def _sx(e):
    if isinstance(e, ast.Name):
        return ["name", e.id]
    if isinstance(e, ast.Constant):
        v = e.value
        if v is True or v is False:
            return ["const", "bool", v]
        if type(v) is int:
            return ["const", "int", v]
        if type(v) is str:
            return ["const", "str", v]
        return ["const", "other", type(v).__name__]
    if isinstance(e, ast.Subscript):
        if not isinstance(e.slice, ast.expr):
            return ["other", "subscript-slice:" + type(e.slice).__name__]
        return ["sub", _sx(e.value), _sx(e.slice)]
    if isinstance(e, ast.BoolOp):
        return ["boolop", "and" if isinstance(e.op, ast.And) else "or"] + [_sx(x) for x in e.values]
    if isinstance(e, ast.UnaryOp):
        return ["unop", type(e.op).__name__, _sx(e.operand)]
    if isinstance(e, ast.IfExp):
        return ["ite", _sx(e.test), _sx(e.body), _sx(e.orelse)]
    if isinstance(e, ast.Compare):
        if len(e.ops) != 1 or len(e.comparators) != 1:
            # a chained comparison `l op1 c1 op2 c2 …`.  Neither folding pass touches the node itself
            # (`ConstantFolder.visit_Compare` folds under the guard `len(node.ops) == 1 and len(node.comparators) == 1`
            # only; `ASTRewriter` has no `visit_Compare`): both visit the operands, left to right, and leave the node
            # - exactly what they do with a call of a name that is no builtin.  It is therefore carried through the
            # Lean model as such a node, `.call "Compare:<ops>" [l, c1, c2, …]` (`foldE` / `visitE` on `.call` with a
            # name outside `builtinFuncs` / `visitCall`'s table), and the real pass's result is serialised the same
            # way: a pass that folds, drops or reorders a link of a chain differs tree for tree.
            if len(e.ops) != len(e.comparators):
                return ["other", "compare-chain-malformed"]
            return (["call", "Compare:" + ",".join(type(o).__name__ for o in e.ops), _sx(e.left)]
                    + [_sx(x) for x in e.comparators])
        return ["cmp", type(e.ops[0]).__name__, _sx(e.left), _sx(e.comparators[0])]
    if isinstance(e, ast.BinOp):
        return ["bin", type(e.op).__name__, _sx(e.left), _sx(e.right)]
    if isinstance(e, ast.Tuple):
        return ["tuple"] + [_sx(x) for x in e.elts]
    if isinstance(e, ast.List):
        return ["list"] + [_sx(x) for x in e.elts]
    if isinstance(e, ast.Call):
        if not isinstance(e.func, ast.Name) or e.keywords:
            return ["other", "call-form"]
        return ["call", e.func.id] + [_sx(x) for x in e.args]
    return ["other", type(e).__name__]


def ann_str(a):
    """annotations the type-annotation pass leaves alone: bool, Qint[k]"""
    if isinstance(a, ast.Name) and a.id == "bool":
        return "bool"
    if (isinstance(a, ast.Subscript) and isinstance(a.value, ast.Name) and a.value.id == "Qint"
            and isinstance(a.slice, ast.Constant) and type(a.slice.value) is int):
        return f"Qint[{a.slice.value}]"
    return None


def ss(s):
    try:
        return _ss(s)
    except Exception as ex:  # noqa
        return ["other", "malformed:" + type(ex).__name__]


def _ss(s):
    if isinstance(s, ast.Assign):
        return ["assign", [sx(t) for t in s.targets], sx(s.value)]
    if isinstance(s, ast.AugAssign):
        return ["aug", sx(s.target), type(s.op).__name__, sx(s.value)]
    if isinstance(s, ast.AnnAssign):
        a = ann_str(s.annotation)
        if a is None:
            return ["other", "AnnAssign-annotation"]
        return ["ann", sx(s.target), a, None if s.value is None else sx(s.value)]
    if isinstance(s, ast.Return):
        return ["ret", None if s.value is None else sx(s.value)]
    if isinstance(s, ast.Expr):
        if not hasattr(s, "value"):
            return ["other", "Expr-without-value"]
        return ["expr", sx(s.value)]
    if isinstance(s, ast.If):
        return ["if", sx(s.test), [ss(x) for x in s.body], [ss(x) for x in s.orelse]]
    if isinstance(s, ast.For):
        return ["for", sx(s.target), sx(s.iter), [ss(x) for x in s.body], [ss(x) for x in s.orelse]]
    return ["other", type(s).__name__]


def expr_rules(fn):
    """which expression-level rewrites of ast2ast the *source* of a function asks for (evidence only)"""
    out = set()
    names_const = set()
    for node in ast.walk(fn):
        if isinstance(node, ast.Call) and isinstance(node.func, ast.Name):
            f = node.func.id
            if f in ("len", "sum", "min", "max", "any", "all", "ord", "chr", "int", "float", "abs"):
                out.add("call:" + f)
                if node.args:
                    a = node.args[0]
                    kind = ("tuple-literal" if isinstance(a, ast.Tuple) else "list-literal" if isinstance(a, ast.List)
                            else "name" if isinstance(a, ast.Name) else "row" if isinstance(a, ast.Subscript)
                            else "call" if isinstance(a, ast.Call) else "other")
                    if f in ("len", "sum", "min", "max", "any", "all"):
                        out.add(f"unroll:{kind}" if len(node.args) == 1 else f"call:{f}:{min(len(node.args), 4)}-args")
        if isinstance(node, ast.Subscript):
            sl, v = node.slice, node.value
            if isinstance(sl, ast.Name):
                if isinstance(v, ast.Subscript) and isinstance(v.slice, ast.Name):
                    out.add("subscript:var-var")
                elif isinstance(v, ast.Name):
                    out.add("subscript:var")
                else:
                    out.add("subscript:var-on-" + type(v).__name__)
            elif isinstance(sl, ast.Subscript):
                out.add("subscript:by-subscript")
        if isinstance(node, ast.For) and isinstance(node.iter, ast.Subscript):
            out.add("for-row")
        if isinstance(node, ast.BinOp) and isinstance(node.op, ast.Pow):
            out.add("pow")
    return sorted(out)


def parse_fn(src):
    try:
        m = ast.parse(src)
    except SyntaxError:
        return None
    if not m.body or not isinstance(m.body[0], ast.FunctionDef):
        return None
    return m.body[0]


def source_request(src):
    fn = parse_fn(src)
    if fn is None:
        return None
    args = [[a.arg, sx(a.annotation) if a.annotation is not None else ["other", "no-annotation"]] for a in fn.args.args]
    return dict(op="c01.ast2ast", args=args, returns=None if fn.returns is None else sx(fn.returns),
                body=[ss(s) for s in fn.body], expr_rules=expr_rules(fn))


def real_result(ast2ast, src):
    fn = parse_fn(src)
    if fn is None:
        return None
    try:
        out = ast2ast(fn)
    except Exception as e:  # noqa - every exception is the pass rejecting the program
        return dict(exception=[type(e).__name__, str(e)])
    return dict(body=[ss(s) for s in out.body], tree=out)


def strip_unsupported(j):
    if isinstance(j, list):
        if j and j[0] == "unsupported":
            return ["unsupported"]
        return [strip_unsupported(x) for x in j]
    return j


def first_diff(a, b, path=""):
    if type(a) is not type(b):
        return path, a, b
    if isinstance(a, list):
        for i, (x, y) in enumerate(zip(a, b)):
            d = first_diff(x, y, f"{path}/{i}")
            if d:
                return d
        if len(a) != len(b):
            return f"{path}/len", len(a), len(b)
        return None
    return None if a == b else (path, a, b)


def compare(model, real, front=None):
    """-> (verdict, detail); verdict in: outside | agree-body | agree-exception | differ"""
    if model is None or "driver_error" in model:
        return "differ", dict(what="model driver error", model=model)
    if "outside" in model:
        return "outside", model["outside"]
    if "exception" in model:
        ty, key = model["exception"]
        if "exception" not in real:
            return "differ", dict(what="the model raises, the real pass returns a tree", model=model["exception"])
        rty, rmsg = real["exception"]
        if rty != ty or key not in rmsg:
            return "differ", dict(what="different exception", model=model["exception"], code=[rty, rmsg[:200]])
        return "agree-exception", ty + ": " + key
    if "exception" in real:
        return "differ", dict(what="the real pass raises, the model returns a tree",
                              code=[real["exception"][0], real["exception"][1][:200]])
    if model["body"] != real["body"]:
        d = first_diff(model["body"], real["body"])
        return "differ", dict(what="rewritten tree differs", at=d[0] if d else None,
                              model=d[1] if d else None, code=d[2] if d else None)
    if front is not None and strip_unsupported(front) != model.get("front"):
        d = first_diff(model.get("front"), strip_unsupported(front))
        return "differ", dict(what="Front syntax of the rewritten tree differs (toP / pexp)", at=d[0] if d else None,
                              model=d[1] if d else None, code=d[2] if d else None)
    return "agree-body", None


# ----------------------------------------------------------------------------- rewrite forms (correspondence only)
# One program per rewriting rule / quirk / exception of the pass.  They go through the ast2ast correspondence only:
# several are rejected later by translate_ast (an `if` nested in the body of an `if` reads `_iftarg<n>` before it is
# defined).  (`for … else` is also in the oracle stream of harness/c01.py since the repair 67bd58c.)
H2 = "def f(a: bool, b: bool, x: Qint[2], y: Qint[2]) -> Qint[2]:\n"
A2A_FORMS = [
    ("if-in-if-body", H2 + "\tr = x\n\tif a:\n\t\tr = r + 1\n\t\tif b:\n\t\t\tr = 3\n\treturn r"),
    ("if-in-if-body-else", H2 + "\tr = x\n\tif a:\n\t\tif b:\n\t\t\tr = 3\n\t\telse:\n\t\t\tr = 1\n\telse:\n\t\tr = 2\n\treturn r"),
    ("if-in-else-deep", H2 + "\tr = x\n\tif a:\n\t\tr = 1\n\telse:\n\t\tif b:\n\t\t\tr = 2\n\t\telse:\n\t\t\tif x > y:\n\t\t\t\tr = 3\n\t\t\telse:\n\t\t\t\tr = r + 1\n\treturn r"),
    ("if-return", H2 + "\tif a:\n\t\treturn x\n\treturn y"),
    ("if-expr-stmt", H2 + "\tr = x\n\tif a:\n\t\tr\n\treturn r"),
    ("if-ann", H2 + "\tr = x\n\tif a:\n\t\tr: Qint[2] = y\n\treturn r"),
    ("if-tuple-target", H2 + "\tr = x\n\ts = y\n\tif a:\n\t\tr, s = s, r\n\treturn r"),
    ("if-chained", H2 + "\tr = x\n\ts = y\n\tif a:\n\t\tr = s = y\n\treturn r"),
    ("if-aug", H2 + "\tr = x\n\tif a:\n\t\tr += y\n\telse:\n\t\tr -= 1\n\treturn r"),
    ("if-empty-after-fold", H2 + "\tr = x\n\tif a:\n\t\tif False:\n\t\t\tr = 1\n\treturn r"),
    ("if-const-test", H2 + "\tr = x\n\tif 1 < 2:\n\t\tr = y\n\telse:\n\t\tr = 0\n\treturn r"),
    ("if-const-test-else", H2 + "\tr = x\n\tif not True:\n\t\tr = y\n\telse:\n\t\tr = 0\n\treturn r"),
    ("if-dunder-known", H2 + "\t__r = x\n\tif a:\n\t\t__r = y\n\treturn x"),
    ("if-new-var", H2 + "\tif a:\n\t\tr = y\n\treturn x"),
    ("if-selfref-unknown", H2 + "\tif a:\n\t\tq = q + 1\n\treturn x"),
    ("for-tuple", H2 + "\tr = x\n\tfor i in (1, 2, 3):\n\t\tr = r + i\n\treturn r"),
    ("for-tuple-bools", H2 + "\tr = a\n\tfor v in (True, False):\n\t\tr = r ^ v\n\treturn x"),
    ("for-list", H2 + "\tr = x\n\tfor i in [3, 1]:\n\t\tr ^= i\n\treturn r"),
    ("for-range3", H2 + "\tr = x\n\tfor i in range(3, 0, -1):\n\t\tr = r + i\n\treturn r"),
    ("for-range-fold", H2 + "\tr = x\n\tfor i in range(1, 1 + 2):\n\t\tr = r + (i + 1) * 2\n\treturn r"),
    ("for-range-empty", H2 + "\tr = x\n\tfor i in range(0):\n\t\tr = r + i\n\treturn r"),
    ("for-range-var", H2 + "\tr = x\n\tn = 2\n\tfor i in range(n):\n\t\tr = r + i\n\treturn r"),
    ("for-range-noargs", H2 + "\tr = x\n\tfor i in range():\n\t\tr = r + i\n\treturn r"),
    ("for-range-step0", H2 + "\tr = x\n\tfor i in range(0, 2, 0):\n\t\tr = r + i\n\treturn r"),
    ("for-range-bool", H2 + "\tr = x\n\tfor i in range(True, 3):\n\t\tr = r + i\n\treturn r"),
    ("for-nested", H2 + "\tr = x\n\tfor i in (1, 2):\n\t\tfor j in range(i):\n\t\t\tr += j\n\treturn r"),
    ("for-shadow", H2 + "\tr = x\n\tfor i in range(2):\n\t\tfor i in range(2):\n\t\t\tr += i\n\treturn r"),
    ("for-assign-loopvar", H2 + "\tr = x\n\tfor i in range(2):\n\t\ti = i + 1\n\t\tr += i\n\treturn r"),
    ("for-aug-loopvar", H2 + "\tr = x\n\tfor i in range(2):\n\t\ti += 1\n\treturn r"),
    ("for-index", "def f(x: Qint[4]) -> Qint[4]:\n\tr = 0\n\tfor i in range(4):\n\t\tr = r + (1 if x[i] else 0)\n\treturn r"),
    ("for-index-expr", "def f(x: Qint[4]) -> bool:\n\tr = False\n\tfor i in range(3):\n\t\tr = r ^ x[i + 1]\n\treturn r"),
    ("for-if", H2 + "\tr = x\n\tfor i in range(3):\n\t\tif i == 1:\n\t\t\tr = r + 1\n\t\telif x > i:\n\t\t\tr = r ^ 1\n\treturn r"),
    ("if-for", H2 + "\tr = x\n\ti = 0\n\tif a:\n\t\tfor i in range(2):\n\t\t\tr = r + i\n\treturn r"),
    ("for-else", H2 + "\tr = x\n\tfor i in [1, 2]:\n\t\tr += i\n\telse:\n\t\tr = 0\n\treturn r"),
    ("for-name-arg", "def f(t: Tuple[Qint[2], Qint[2]], q: Qlist[bool, 3]) -> Qint[2]:\n\tr = 0\n\tfor v in t:\n\t\tr += v\n\tfor w in q:\n\t\tr = r + 1 if w else r\n\treturn r"),
    ("for-name-copy", "def f(t: Tuple[Qint[2], Qint[2]]) -> Qint[2]:\n\tu = t\n\tr = 0\n\tfor v in u:\n\t\tr += v\n\treturn r"),
    ("for-name-const", H2 + "\tu = (1, 2)\n\tr = x\n\tfor v in u:\n\t\tr += v\n\treturn r"),
    ("for-name-const-list", H2 + "\tu = [1, 2]\n\tr = x\n\tfor v in u:\n\t\tr += v\n\treturn r"),
    ("for-name-rebound", "def f(t: Tuple[Qint[2], Qint[2]]) -> Qint[2]:\n\tt = (1, 2, 3)\n\tr = 0\n\tfor v in t:\n\t\tr += v\n\treturn r"),
    ("for-name-scalar", H2 + "\tr = x\n\tfor v in y:\n\t\tr += v\n\treturn r"),
    ("for-name-matrix", "def f(m: Qmatrix[bool, 2, 3]) -> Qint[2]:\n\tr = 0\n\tfor row in m:\n\t\tr = r + 1\n\treturn r"),
    ("for-tuple-names", H2 + "\tr = x\n\tfor v in (x, y):\n\t\tr += v\n\treturn r"),
    ("for-tuple-subs", "def f(t: Tuple[Qint[2], Qint[2]]) -> Qint[2]:\n\tr = 0\n\tfor v in (t[1], t[0]):\n\t\tr += v\n\treturn r"),
    ("for-target-tuple", H2 + "\tr = x\n\tfor i, j in ((1, 2),):\n\t\tr += i\n\treturn r"),
    ("for-return", H2 + "\tfor i in range(2):\n\t\treturn x\n\treturn y"),
    ("ann", H2 + "\tr: Qint[2] = x\n\tr: Qint[2] = r + 1\n\treturn r"),
    ("ann-bool", H2 + "\tc: bool = a\n\tc: bool = not c\n\treturn x if c else y"),
    ("ann-novalue", H2 + "\tr: Qint[2]\n\tr = x\n\treturn r"),
    ("aug-all", H2 + "\tr = x\n\tr += y\n\tr -= 1\n\tr *= 2\n\tr ^= y\n\tr &= 3\n\tr |= 1\n\tr <<= 1\n\tr >>= 1\n\tr %= 4\n\treturn r"),
    ("aug-pow", H2 + "\tr = x\n\tr **= 2\n\treturn r"),
    ("aug-subscript-target", "def f(t: Tuple[bool, bool]) -> bool:\n\tt[0] ^= True\n\treturn t[0]"),
    ("aug-dunder", H2 + "\t__r = x\n\t__r += 1\n\treturn x"),
    ("assign-dunder-read", H2 + "\tr = __x\n\treturn r"),
    ("assign-selfref-arg", H2 + "\tx = x + y\n\tx = x\n\tx = (x)\n\ta = not a\n\treturn x if a else y"),
    ("assign-selfref-new", H2 + "\tq = 1\n\tq = q + x\n\treturn q"),
    ("assign-selfref-const", H2 + "\tx = 1\n\treturn x"),
    ("assign-subscript-target", "def f(t: Tuple[bool, bool]) -> bool:\n\tt[0] = True\n\treturn t[0]"),
    ("assign-tuple-value", H2 + "\tt = (x, y)\n\tt = (t[1], t[0])\n\treturn t[0]"),
    ("assign-list-value", H2 + "\tt = [x, y]\n\treturn t[1]"),
    ("multitarget", H2 + "\tp, q = x, y\n\t[p, q] = q, p\n\tt = (p, q)\n\tp, q = t\n\treturn p - q"),
    ("multitarget-nested", H2 + "\t(p, (q, r)) = (x, (y, x))\n\treturn p"),
    ("multitarget-in-if", H2 + "\tp = x\n\tq = y\n\tif a:\n\t\tp, q = q, p\n\treturn p"),
    ("pow", H2 + "\treturn x ** 3 + y ** 1 + (x ** 0) + 2 ** 3"),
    ("pow-neg", H2 + "\treturn x ** -1"),
    ("pow-bool", H2 + "\treturn x ** True + y ** False"),
    ("fold", H2 + "\treturn x + (3 * 2 - 1) + (7 // 2) + (7 % 4) + (1 << 3) + (9 >> 1) + (6 & 3) + (6 | 3) + (6 ^ 3) + (-5 // 2) + (-5 % 3)"),
    ("fold-bools", H2 + "\tc = (True & False) | (True ^ True)\n\td = True + True\n\treturn x + d if c else y"),
    ("fold-cmp", H2 + "\treturn x if (1 < 2) == True else y"),
    ("fold-unary", H2 + "\treturn x + (-1) + (+2) + (~0) + (3 if not 0 else 4)"),
    ("fold-div0", H2 + "\treturn x + 1 // 0"),
    ("fold-mod0", H2 + "\treturn x + 1 % 0"),
    ("fold-negshift", H2 + "\treturn x + (1 << -1)"),
    ("fold-ifexp", H2 + "\treturn (x if True else y) + (x if 0 else y)"),
    ("fold-boolop", H2 + "\treturn x if (True and a) else y"),
    ("reserved-iftarg", H2 + "\t_iftarg2 = a\n\treturn x"),
    ("reserved-temptup", H2 + "\t_temptup = a\n\treturn x"),
    ("reserved-arg", "def f(_iftarg9: bool, x: Qint[2]) -> Qint[2]:\n\treturn x"),
    ("bare-return", H2 + "\treturn"),
    ("expr-stmt", H2 + "\tx + 1\n\treturn x"),
    ("pass", H2 + "\tpass\n\treturn x"),
]


# ----------------------------------------------------------------------------- expression-level rewrite forms
# One program per branch of visit_Subscript / create_if_exp / __unroll_arg / visit_Call / ConstantFolder.visit_Call
# (correspondence only; many are also in the oracle stream of harness/c01.py in other clothes).
# (tag, annotation of `t`, body over `t`, `i`, `j`, return type)
NESTED_ANN_FORMS = [
    ("qlist-of-qlist", "Qlist[Qlist[bool, 3], 2]", "t[i][j]", "bool"),
    ("qlist-of-qlist-const", "Qlist[Qlist[Qint[2], 3], 2]", "t[1][2] + t[0][0]", "Qint[2]"),
    ("qlist-of-qlist-rows", "Qlist[Qlist[bool, 3], 2]", "any(t[1]) and all(t[0])", "bool"),
    ("qlist-of-qlist-len", "Qlist[Qlist[bool, 3], 2]", "len(t) + len(t[1])", "Qint[4]"),
    ("qlist-of-qint2", "Qlist[Qint2, 3]", "t[i]", "Qint[2]"),
    ("qlist-of-qmatrix", "Qlist[Qmatrix[bool, 2, 2], 2]", "t[1][0][1]", "bool"),
    ("qlist-of-qmatrix-var", "Qlist[Qmatrix[bool, 2, 2], 2]", "t[i][j]", "bool"),
    ("qlist-of-qmatrix-row", "Qlist[Qmatrix[bool, 2, 2], 2]", "len(t[0])", "Qint[2]"),
    ("qmatrix-of-qlist", "Qmatrix[Qlist[bool, 2], 2, 2]", "t[1][0][1]", "bool"),
    ("qmatrix-of-qlist-var", "Qmatrix[Qlist[bool, 2], 2, 2]", "t[i][j]", "bool"),
    ("tuple-of-qlist", "Tuple[Qlist[bool, 3], Qlist[bool, 3]]", "t[i][j]", "bool"),
    ("tuple-of-qlist-1", "Tuple[Qlist[bool, 3]]", "t[0][i]", "bool"),
    ("tuple-of-qlist-1-any", "Tuple[Qlist[bool, 3]]", "any(t[0])", "bool"),
    ("tuple-of-qmatrix", "Tuple[Qmatrix[bool, 2, 3], bool]", "t[0][1][2] and t[1]", "bool"),
    ("tuple-bool", "Tuple[bool]", "t[i]", "bool"),
    ("tuple-bool-const", "Tuple[bool]", "t[0]", "bool"),
    ("tuple-bool-all", "Tuple[bool]", "all(t)", "bool"),
    ("tuple-qint", "Tuple[Qint[2]]", "t[0] + 1", "Qint[2]"),
    ("tuple-of-tuple1", "Tuple[Tuple[bool], Tuple[bool]]", "t[i][0]", "bool"),
]


def _expr_forms():
    out = []

    def add(tag, src):
        out.append((tag, src))

    elts = [("bool", "bool"), ("Qint[2]", "Qint[2]"), ("Qint2", "Qint[2]"), ("Qint[4]", "Qint[4]"), ("Qchar", "Qchar"),
            ("Qfixed[1, 2]", "Qfixed[1, 2]")]
    # variable index into lists / matrices of every shape and element type
    for n in (1, 2, 3, 4):
        for et, rt in elts:
            add(f"qlist-var:{n}:{et}", f"def f(t: Qlist[{et}, {n}], i: Qint[2]) -> {rt}:\n\treturn t[i]")
    for n in (1, 2, 3):
        for m in (1, 2, 3):
            for et, rt in elts[:4]:
                add(f"qmatrix-var:{n}x{m}:{et}", f"def f(t: Qmatrix[{et}, {n}, {m}], i: Qint[2], j: Qint[2]) -> {rt}:\n\treturn t[i][j]")
            add(f"qmatrix-row-var:{n}x{m}", f"def f(t: Qmatrix[bool, {n}, {m}], i: Qint[2]) -> bool:\n\treturn t[i][0]")
            add(f"qmatrix-col-var:{n}x{m}", f"def f(t: Qmatrix[bool, {n}, {m}], j: Qint[2]) -> bool:\n\treturn t[0][j]")
            for c in range(n):
                for fn, rt in (("len", "Qint[2]"), ("any", "bool"), ("all", "bool")):
                    add(f"row-{fn}:{n}x{m}:{c}", f"def f(t: Qmatrix[bool, {n}, {m}]) -> {rt}:\n\treturn {fn}(t[{c}])")
                for fn in ("sum", "min", "max"):
                    add(f"row-{fn}:{n}x{m}:{c}", f"def f(t: Qmatrix[Qint[2], {n}, {m}]) -> Qint[4]:\n\treturn {fn}(t[{c}])")
                add(f"row-for:{n}x{m}:{c}", f"def f(t: Qmatrix[bool, {n}, {m}]) -> Qint[2]:\n\tc = 0\n\tfor x in t[{c}]:\n\t\tc = c + 1 if x else c\n\treturn c")
            add(f"row-oob:{n}x{m}", f"def f(t: Qmatrix[bool, {n}, {m}]) -> bool:\n\treturn any(t[{n}])")
            add(f"row-neg:{n}x{m}", f"def f(t: Qmatrix[bool, {n}, {m}]) -> bool:\n\treturn all(t[-1])")
    # tuples: heterogeneous, nested, ragged rows
    add("tuple-var", "def f(t: Tuple[Qint[2], Qint[4], Qint[2]], i: Qint[2]) -> Qint[4]:\n\treturn t[i]")
    add("tuple-var-mixed", "def f(t: Tuple[bool, Qint[2]], i: Qint[2]) -> bool:\n\treturn t[i]")
    add("tuple-nested-var", "def f(t: Tuple[Tuple[bool, bool, bool], Tuple[bool, bool]], i: Qint[2], j: Qint[2]) -> bool:\n\treturn t[i][j]")
    add("tuple-ragged-row", "def f(t: Tuple[Tuple[bool, bool, bool], Tuple[bool, bool]]) -> Qint[2]:\n\treturn len(t[0]) + len(t[1])")
    add("tuple-flat-varvar", "def f(t: Tuple[bool, bool], i: Qint[2], j: Qint[2]) -> bool:\n\treturn t[i][j]")
    add("tuple-empty", "def f(t: Tuple[()], i: Qint[2]) -> bool:\n\treturn t[i]")
    add("tuple-single", "def f(t: Tuple[bool], i: Qint[2]) -> bool:\n\treturn t[i]")
    add("tuple-3d", "def f(t: Qlist[Qlist[Qlist[bool, 2], 2], 2], i: Qint[2], j: Qint[2], k: Qint[2]) -> bool:\n\treturn t[i][j][k]")
    add("tuple-len-all-any", "def f(t: Tuple[bool, bool, bool]) -> Qint[2]:\n\treturn len(t) if all(t) or any(t) else 0")
    add("copy-then-index", "def f(t: Qlist[bool, 3], i: Qint[2]) -> bool:\n\tu = t\n\treturn u[i]")
    add("qint-var-index", "def f(a: Qint[4], i: Qint[2]) -> bool:\n\treturn a[i]")
    add("bool-var-index", "def f(a: bool, i: Qint[2]) -> bool:\n\treturn a[i]")
    add("unknown-var-index", "def f(i: Qint[2]) -> bool:\n\treturn zz[i]")
    add("local-var-index", "def f(a: Qint[2], i: Qint[2]) -> bool:\n\tb = a + 1\n\treturn b[i]")
    add("local-const-index", "def f(a: Qint[2], i: Qint[2]) -> bool:\n\tb = 3\n\treturn b[i]")
    # constant tables
    add("table", "def f(a: Qint[2]) -> Qint[4]:\n\tc = [3, 9, 1, 14]\n\treturn c[a]")
    add("table-tuple", "def f(a: Qint[2]) -> Qint[4]:\n\tc = (3, 9, 1)\n\treturn c[a] + c[0]")
    add("table-2d", "def f(a: Qint[2], b: Qint[2]) -> Qint[4]:\n\tc = [[1, 2, 3], [4, 5, 6]]\n\treturn c[a][b]")
    add("table-2d-ragged", "def f(a: Qint[2], b: Qint[2]) -> Qint[4]:\n\tc = [[1, 2], [4, 5, 6]]\n\treturn c[a][b]")
    add("table-vars", "def f(a: Qint[2], x: Qint[2], y: Qint[2]) -> Qint[2]:\n\tc = [x, y, x + y]\n\treturn c[a]")
    add("literal-tuple-index", "def f(a: Qint[2]) -> Qint[4]:\n\treturn (3, 9, 1)[a]")
    add("literal-list-index", "def f(a: Qint[2]) -> Qint[4]:\n\treturn [3, 9, 1][a]")
    add("literal-list-const-index", "def f(a: Qint[2]) -> Qint[4]:\n\treturn [3, 9, 1][1] + [3, 9][-1] + a")
    add("literal-list-oob", "def f(a: Qint[2]) -> Qint[4]:\n\treturn [3, 9, 1][5] + a")
    add("index-by-subscript", "def f(a: Qint[2]) -> Qint[4]:\n\tc = (3, 9)\n\treturn c[a[0]]")
    add("index-by-subscript-arg", "def f(t: Qlist[bool, 2], a: Qint[2]) -> bool:\n\treturn t[a[0]]")
    add("index-expr", "def f(t: Qlist[bool, 3], a: Qint[2]) -> bool:\n\treturn t[a + 1]")
    add("const-name-index", "def f(t: Qlist[bool, 3]) -> bool:\n\ti = 1\n\treturn t[i]")
    add("const-name-index-tuple", "def f(t: Qlist[bool, 3]) -> bool:\n\ti = (1, 2)\n\treturn t[i]")
    add("const-bool-index", "def f(t: Qlist[bool, 3]) -> bool:\n\ti = True\n\treturn t[i]")
    add("loopvar-after-loop-index", "def f(t: Qlist[bool, 3]) -> bool:\n\tfor i in range(2):\n\t\tpass\n\treturn t[i]")
    add("typing-tuple-name", "def f(a: bool) -> bool:\n\tb = Tuple[a]\n\treturn a")
    # builtins: arities
    for fn in ("len", "sum", "min", "max", "any", "all", "ord", "chr", "int", "float", "abs", "print", "foo"):
        for k in range(0, 5):
            args = ", ".join("abcd"[:k])
            add(f"call:{fn}:{k}", f"def f(a: Qint[2], b: Qint[2], c: Qint[2], d: Qint[2]) -> Qint[2]:\n\treturn {fn}({args})")
    for fn in ("len", "sum", "min", "max", "any", "all"):
        et, rt = ("bool", "bool") if fn in ("any", "all") else ("Qint[2]", "Qint[4]")
        add(f"unroll-tuple-lit:{fn}", f"def f(a: {et}, b: {et}, c: {et}) -> {rt}:\n\treturn {fn}((a, b, c))")
        add(f"unroll-list-lit:{fn}", f"def f(a: {et}, b: {et}) -> {rt}:\n\treturn {fn}([a, b])")
        add(f"unroll-name:{fn}", f"def f(t: Qlist[{et}, 3]) -> {rt}:\n\treturn {fn}(t)")
        add(f"unroll-name-tuple:{fn}", f"def f(t: Tuple[{et}, {et}]) -> {rt}:\n\treturn {fn}(t)")
        add(f"unroll-local:{fn}", f"def f(a: {et}, b: {et}) -> {rt}:\n\tu = (a, b, a)\n\treturn {fn}(u)")
        add(f"unroll-copy:{fn}", f"def f(t: Qlist[{et}, 2]) -> {rt}:\n\tu = t\n\treturn {fn}(u)")
        add(f"unroll-scalar:{fn}", f"def f(a: {et}) -> {rt}:\n\treturn {fn}(a)")
        add(f"unroll-empty:{fn}", f"def f(a: {et}) -> {rt}:\n\treturn {fn}(())")
        add(f"unroll-var-row:{fn}", f"def f(t: Qmatrix[{et}, 2, 3], i: Qint[2]) -> {rt}:\n\treturn {fn}(t[i])")
    # nested builtins
    add("nested-max-min", "def f(a: Qint[2], b: Qint[2], c: Qint[2]) -> Qint[2]:\n\treturn max(min(a, b), min(b, c), c)")
    add("nested-sum-len", "def f(t: Qlist[Qint[2], 3]) -> Qint[4]:\n\treturn sum(t) + len(t) + max(t)")
    add("nested-any-all", "def f(t: Qmatrix[bool, 2, 3]) -> bool:\n\treturn any([all(t[0]), all(t[1])])")
    add("nested-index-call", "def f(t: Qlist[Qint[2], 3], i: Qint[2]) -> Qint[2]:\n\treturn max(t[i], t[0])")
    add("nested-ord-chr", "def f(c: Qchar, a: Qint[8]) -> bool:\n\treturn ord(chr(a)) == ord(c)")
    add("nested-int", "def f(a: Qint[2], b: Qint[2]) -> Qint[2]:\n\treturn int(max(a, b)) + int(a)")
    add("call-in-if-for", "def f(t: Qlist[Qint[2], 3], c: bool) -> Qint[4]:\n\ts = 0\n\tfor i in range(len(t)):\n\t\tif c:\n\t\t\ts = s + max(t)\n\treturn s")
    add("len-range", "def f(t: Qlist[Qint[2], 3]) -> Qint[4]:\n\ts = 0\n\tfor i in range(len(t)):\n\t\ts += t[i]\n\treturn s")
    add("range-expr", "def f(a: Qint[2]) -> Qint[2]:\n\tr = range(3)\n\treturn a")
    # constant folding of builtins
    add("fold-calls", "def f(a: Qint[4]) -> Qint[8]:\n\treturn a + len((1, 2, 3)) + max(1, 2) + min([3, 1, 2]) + sum([1, 2, 3]) + abs(-3) + max(2, True)")
    add("fold-calls-bool", "def f(a: bool) -> bool:\n\treturn (a and any([True, False])) or all([True, 1, 2]) or all(())")
    add("fold-chr-ord", "def f(c: Qchar) -> bool:\n\treturn c == chr(97) or ord(c) == ord('b')")
    add("fold-len-scalar", "def f(a: Qint[2]) -> Qint[2]:\n\treturn a + len(3)")
    add("fold-min-empty", "def f(a: Qint[2]) -> Qint[2]:\n\treturn a + min([])")
    add("fold-mixed-not-const", "def f(a: Qint[2]) -> Qint[2]:\n\treturn max(1, a, 3) + min([1, a])")
    add("fold-then-unroll", "def f(a: Qint[2]) -> Qint[4]:\n\treturn sum((a, 1 + 1, 2 * 3))")
    # annotations
    add("ann-qintN", "def f(a: Qint2, b: Qint4) -> Qint4:\n\treturn a + b")
    add("ann-qint-bad", "def f(a: Qintx) -> bool:\n\treturn True")
    add("ann-qlist-of-qlist", "def f(t: Qlist[Qlist[bool, 3], 2], i: Qint[2], j: Qint[2]) -> bool:\n\treturn t[i][j]")
    add("ann-tuple-of-qlist", "def f(t: Tuple[Qlist[bool, 3], Qlist[bool, 3]], i: Qint[2], j: Qint[2]) -> bool:\n\treturn t[i][j]")
    add("ann-qlist-of-tuple", "def f(t: Qlist[Tuple[bool, bool, bool], 2], i: Qint[2], j: Qint[2]) -> bool:\n\treturn t[i][j]")
    add("ann-qmatrix-for", "def f(t: Qmatrix[bool, 2, 3]) -> Qint[2]:\n\tc = 0\n\tfor r in t:\n\t\tc = c + 1 if any(r) else c\n\treturn c")
    # nested container annotations (f3ecbf2: the element annotation is elaborated before it is repeated; Tuple[T] too)
    for tag, ann, body, rt in NESTED_ANN_FORMS:
        add("nested-ann:" + tag, f"def f(t: {ann}, i: Qint[2], j: Qint[2]) -> {rt}:\n\treturn {body}")
    add("pow-forms", "def f(a: Qint[2]) -> Qint[8]:\n\treturn a ** 3 + (a + 1) ** 2 + a ** 0 + a ** 1")
    return out


EXPR_FORMS = _expr_forms()
