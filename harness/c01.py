"""C01 - boolean expressions mean what the python source means.

Always-on search on the real code: programs of the documented subset (systematic slice: every
operator x ordered width pair from {2,3,4} x operand kinds var/var, var/const, const/var, shifts,
if-expressions, every statement form / builtin / container type once; if / if-else / elif statements
whose test reads a variable that a branch re-assigns - 21 test forms x 7 placements + 20 hand-written
latch / countdown / chain programs; 192 chained comparisons (2 / 3 links, constants in every position, written directly,
made constant by loop variables / constant variables, in if tests / if-expressions / and-or-not) and other constant-folded
nodes in loop bodies - outside the subset: rejected, or accepted with python's meaning; then random mixed-width expressions, statement programs and
random members of the re-assigned-test class) are compiled with the real
`qlassf(src, to_compile=False)` under defaultOptimizer AND fastOptimizer; `qf.expressions` is evaluated on ALL argument assignments by the
harness' own evaluator (`bexp.eval_json`).  Oracle, independent of qlasskit: `harness/pysem.py`
interprets the *source text* under exact python semantics (Sem) and the documented fixed-width
semantics (SemW); its exact value is cross-checked on every row against CPython executing the same
source text (annotations stripped) wherever the program is plain python.  A row is a failing input
when the code's return bits differ from Sem although no intermediate left the range of its type, or differ on the low bits that wrap-around arithmetic
determines.  Programs of the malformed stream must raise.

The largest shipped widths (`harness/c01wide.py`, tags `wide:*`, `rand:wide`, `arith-wide:*`): programs over
Qint[12] / Qint[16] variables, narrower variables with literals from 256, mixed widths 2..16, every operator, products
whose padded operands exceed the largest result type.  They have up to 48 argument bits, so `qf.expressions` is
evaluated (as a graph: shared sub-expressions once) on SAMPLED rows at the boundaries of the width table, judged by
the same oracle on the same rows; the Lean translator model, SemW / Sem and the source-level semantics are evaluated
on those rows too (`rows` field of the driver requests).  The model of `QintImp.mul` on wide operands is evaluated
row by row (`QV.Arith.qMulLit`, tied to `qMul` by the theorem `mul_rowwise_eval`).

Correspondence: the syntax tree the real `ast2ast` hands to `translate_ast` goes to the Lean model
(QV.Model.Front / Arith) with the logged `is_const` outcomes of `mul`; compared: acceptance, bit-name
layout, truth table of every return bit.  The library functions of `QintImp` are also compared one by
one on symbolic operands (`c01.arith`).

Attribution: a failing program is a known finding only if its entry is open and active, the
finding's event occurred in the program, the quirk-model's truth table equals the code's bit for
bit and the repaired model satisfies the oracle on every row.
"""
from __future__ import annotations

import ast
import json

from . import a2a, bexp, c01wide, progs, pysem
from .common import Ctx, Result

LEVEL = "proof"
MAX_BITS = 10

# quirk flag -> event reported by the model (Front.lean) or the oracle (pysem.py)
QUIRK_EVENT = {
    "gtLeftNarrow": "gtLeftNarrow",
    "subLeftNarrow": "subLeftNarrow",
    "mulEvenConst": "mulEvenConst",
    "modNonPow2": "modNonPow2",
    "modVarDivisor": "modVarDivisor",
    "charEqZip": "charEqZip",
    "tupleAssignFlat": "tupleAssignFlat",
    "noReturnAccepted": "noReturn",
    "negIndexAccepted": "negIndex",
    "matrixMaxJ": "matrixNonSquare",
}
# findings whose repair makes the library reject the program
REJECTING = {"modNonPow2", "modVarDivisor", "noReturnAccepted", "negIndexAccepted"}
ORACLE_QUIRKS = {"matrixMaxJ"}      # emulated in pysem (the defect is in ast2ast, outside the Lean model)


# ----------------------------------------------------------------------------- real code
class _Timeout(BaseException):
    """budget of one program exhausted (sympy's simplify_logic can blow up): machinery, not a verdict"""


def _alarm(signum, frame):
    raise _Timeout()


class Lib:
    """the real library with two observation points wrapped from this process"""

    def __enter__(self):
        import qlasskit
        import qlasskit.qlassfun as QF
        from qlasskit import boolopt
        from qlasskit.types.qint import QintImp
        from qlasskit.types.qtype import Qtype

        self.q, self.QF, self.QintImp, self.Qtype = qlasskit, QF, QintImp, Qtype
        from qlasskit.ast2ast import ast2ast as real_ast2ast

        self.ast2ast = real_ast2ast
        # "none": the definition list as `translate_ast` leaves it (the identity profile of the public
        # `bool_optimizer=` parameter); used for the wide programs, where fastOptimizer's tree walks are the cost
        self.profiles = {"fast": boolopt.fastOptimizer, "default": boolopt.defaultOptimizer,
                         "none": boolopt.BoolOptimizerProfile([])}
        self.tree = None
        self.consts = []
        self._orig_translate = QF.translate_ast
        self._orig_mul = QintImp.__dict__["mul"]

        def translate_ast(fun, types=[], defs=[]):
            self.tree = fun
            return self._orig_translate(fun, types, defs)

        orig_mul = self._orig_mul.__func__

        def mul(cls, l, r):
            self.consts.append([bool(Qtype.is_const(l)), bool(Qtype.is_const(r))])
            return orig_mul(cls, l, r)

        QF.translate_ast = translate_ast
        QintImp.mul = classmethod(mul)
        return self

    def __exit__(self, *a):
        self.QF.translate_ast = self._orig_translate
        self.QintImp.mul = self._orig_mul

    def ty_of(self, t):
        import typing

        if t is bool:
            return ["bool"]
        name = getattr(t, "__name__", "")
        if hasattr(t, "BIT_SIZE_INTEGER"):
            return ["qfixed", t.BIT_SIZE_INTEGER, t.BIT_SIZE_FRACTIONAL]
        if name == "Qchar":
            return ["qchar"]
        if name.startswith("Qint"):
            return ["qint", t.BIT_SIZE]
        args = typing.get_args(t)
        if args:
            return ["tuple"] + [self.ty_of(a) for a in args]
        return ["?", repr(t)]

    def compile(self, src, profile, dag=False):
        """-> dict(ok, error | args, ret, defs(json), tree, consts); with `dag` the definition list is kept as
        a linearised graph (`bexp.dag_of_defs`: shared sub-expressions once) instead of JSON trees"""
        self.tree, self.consts = None, []
        try:
            qf = self.q.qlassf(src, to_compile=False, bool_optimizer=self.profiles[profile])
        except Exception as e:  # noqa - every exception is a rejection
            return dict(ok=False, error=f"{type(e).__name__}: {str(e)[:160]}", tree=self.tree, consts=list(self.consts))
        if not hasattr(qf, "expressions") or not isinstance(getattr(qf, "args", None), list):
            return dict(ok=False, error="unbound qlassf", tree=self.tree, consts=list(self.consts))
        try:
            if dag:
                argbits = [b for a in qf.args for b in a.bitvec]
                g = bexp.dag_of_defs(qf.expressions, argbits)
                return dict(ok=True, defs=None, dag=g, tree=self.tree, consts=list(self.consts), argbits=argbits,
                            retbits=list(qf.returns.bitvec),
                            args=[[a.name, self.ty_of(a.ttype)] for a in qf.args], ret=self.ty_of(qf.returns.ttype))
            defs = [[s.name, bexp.to_json(e)] for s, e in qf.expressions]
        except ValueError as e:
            return dict(ok=True, bad_expr=str(e), tree=self.tree, consts=list(self.consts), defs=[],
                        argbits=[], retbits=[])
        return dict(ok=True, defs=defs, tree=self.tree, consts=list(self.consts),
                    argbits=[b for a in qf.args for b in a.bitvec], retbits=list(qf.returns.bitvec),
                    args=[[a.name, self.ty_of(a.ttype)] for a in qf.args], ret=self.ty_of(qf.returns.ttype))


def code_rows(o, ks):
    """sampled rows of a program compiled with `dag=True`: (rows, free symbols, return bits never defined)"""
    g = o["dag"]
    missing = [r for r in o["retbits"] if r not in set(g["defined"])]
    return bexp.dag_rows(g, o["argbits"], o["retbits"], ks), list(g["free"]), missing


def code_table(defs, argbits, retbits):
    """truth table of the return bits by sequential evaluation of the definition list;
    also the symbols read that are neither argument bits nor defined earlier"""
    free, known = [], set(argbits)
    for n, e in defs:
        for s in bexp.syms_json(e):
            if s not in known and s not in free:
                free.append(s)
        known.add(n)
    missing = [r for r in retbits if r not in known]
    rows = []
    n = len(argbits)
    for k in range(2 ** n):
        env = {b: bool((k >> i) & 1) for i, b in enumerate(argbits)}
        for name, e in defs:
            env[name] = bexp.eval_json(e, env)
        rows.append("".join("1" if env.get(r, False) else "0" for r in retbits))
    return rows, free, missing


# ----------------------------------------------------------------------------- tree -> model json
CMP = {ast.Eq: "Eq", ast.NotEq: "NotEq", ast.Lt: "Lt", ast.LtE: "LtE", ast.Gt: "Gt", ast.GtE: "GtE",
       ast.Is: "Is", ast.IsNot: "IsNot", ast.In: "In", ast.NotIn: "NotIn"}
BIN = {ast.Add: "add", ast.Sub: "sub", ast.Mult: "mul", ast.Mod: "mod", ast.BitXor: "xor", ast.BitAnd: "and",
       ast.BitOr: "or", ast.LShift: "lshift", ast.RShift: "rshift"}


def pexp(e):
    if isinstance(e, ast.Name):
        return ["name", e.id]
    if isinstance(e, ast.Constant):
        v = e.value
        if v is True or v is False:
            return ["cb", v]
        if isinstance(v, int):
            return ["ci", v]
        if isinstance(v, str) and len(v) == 1:
            return ["cc", ord(v)]
        return ["unsupported", "constant " + type(v).__name__]
    if isinstance(e, ast.Subscript):
        path, cur = [], e
        while isinstance(cur, ast.Subscript):
            sl = cur.slice
            if not (isinstance(sl, ast.Constant) and type(sl.value) is int):
                return ["unsupported", "subscript slice"]
            path.insert(0, sl.value)
            cur = cur.value
        if not isinstance(cur, ast.Name):
            return ["unsupported", "subscript root"]
        return ["subs", cur.id, path]
    if isinstance(e, ast.BoolOp):
        return ["boolop", "and" if isinstance(e.op, ast.And) else "or"] + [pexp(x) for x in e.values]
    if isinstance(e, ast.UnaryOp):
        if isinstance(e.op, ast.Not):
            return ["not", pexp(e.operand)]
        if isinstance(e.op, ast.Invert):
            return ["inv", pexp(e.operand)]
        return ["unsupported", "unaryop"]
    if isinstance(e, ast.IfExp):
        return ["ite", pexp(e.test), pexp(e.body), pexp(e.orelse)]
    if isinstance(e, ast.Compare):
        if len(e.ops) != 1 or len(e.comparators) != 1:
            return ["unsupported", "compare chain"]
        return ["cmp", CMP.get(type(e.ops[0]), "?"), pexp(e.left), pexp(e.comparators[0])]
    if isinstance(e, ast.BinOp):
        op = BIN.get(type(e.op))
        if op is None:
            return ["unsupported", "binop " + type(e.op).__name__]
        return ["bin", op, pexp(e.left), pexp(e.right)]
    if isinstance(e, ast.Tuple):
        return ["tuple"] + [pexp(x) for x in e.elts]
    return ["unsupported", type(e).__name__]


def stmt_json(s):
    if isinstance(s, ast.Assign):
        if len(s.targets) == 1 and isinstance(s.targets[0], ast.Name):
            return ["assign", s.targets[0].id, pexp(s.value)]
        return ["unsupported", "assign target"]
    if isinstance(s, ast.Return):
        if s.value is None:
            return ["unsupported", "bare return"]
        return ["ret", pexp(s.value)]
    if isinstance(s, ast.Expr):
        return ["expr", pexp(s.value)]
    return ["unsupported", type(s).__name__]


def has_unsupported(j):
    if isinstance(j, list):
        if j and j[0] == "unsupported":
            return True
        return any(has_unsupported(x) for x in j)
    return False


def model_request(prog, tree, consts, quirks, table=True, rows=None):
    """None when the program is outside the model's types / syntax; `rows`: the sampled row numbers of a wide
    program (the table is then computed on these rows only)"""
    args = [[n, pysem.ty_json(t)] for n, t in prog.args]
    ret = pysem.ty_json(prog.ret)
    if ret is None or any(t is None for _, t in args):
        return None
    body = [stmt_json(s) for s in tree.body]
    if has_unsupported(body):
        return None
    r = dict(op="c01.translate", args=args, ret=ret, body=body, consts=consts, quirks=sorted(quirks), table=table)
    if rows is not None:
        r["rows"] = rows
    return r


# ----------------------------------------------------------------------------- program streams
def systematic():
    out = []
    k = 0
    W = [2, 3, 4]
    arith = ["+", "-", "*", "&", "|", "^"]
    cmps = ["==", "!=", "<", "<=", ">", ">="]
    for op in arith + cmps:
        ret = "bool" if op in cmps else "Qint[8]"
        for wl in W:
            for wr in W:
                out.append((f"sys:{op}:vv", f"def sv_{k}(a: Qint[{wl}], b: Qint[{wr}]) -> {ret}:\n\treturn a {op} b"))
                k += 1
        for w in W:
            for c in (0, 1, 3, 4, 6):   # 4 = first value past the Qint2 candidate of const_to_qtype
                out.append((f"sys:{op}:vc", f"def sv_{k}(a: Qint[{w}]) -> {ret}:\n\treturn a {op} {c}"))
                k += 1
                out.append((f"sys:{op}:cv", f"def sv_{k}(a: Qint[{w}]) -> {ret}:\n\treturn {c} {op} a"))
                k += 1
    for w in W:
        for c in (1, 2, 4, 8):
            out.append(("sys:%:vc", f"def sv_{k}(a: Qint[{w}]) -> Qint[{w}]:\n\treturn a % {c}"))
            k += 1
        for s in range(0, w + 1):
            for op in ("<<", ">>"):
                out.append((f"sys:{op}", f"def sv_{k}(a: Qint[{w}]) -> Qint[{w}]:\n\treturn a {op} {s}"))
                k += 1
        out.append(("sys:~", f"def sv_{k}(a: Qint[{w}]) -> Qint[{w}]:\n\treturn ~a"))
        k += 1
        for rw in (2, 3, 4, 6):
            out.append(("sys:ret", f"def sv_{k}(a: Qint[{w}], b: Qint[{w}]) -> Qint[{rw}]:\n\treturn a + b"))
            k += 1
        for i in range(w):
            out.append(("sys:bit", f"def sv_{k}(a: Qint[{w}]) -> bool:\n\treturn a[{i}]"))
            k += 1
    for wl in W:
        for wr in W:
            out.append(("sys:ifexp", f"def sv_{k}(c: bool, a: Qint[{wl}], b: Qint[{wr}]) -> Qint[4]:\n\treturn a if c else b"))
            k += 1
            out.append(("sys:minmax", f"def sv_{k}(a: Qint[{wl}], b: Qint[{wr}]) -> Qint[4]:\n\treturn max(a, b)"))
            k += 1
            out.append(("sys:minmax", f"def sv_{k}(a: Qint[{wl}], b: Qint[{wr}]) -> Qint[4]:\n\treturn min(a, b)"))
            k += 1
    for i, (op) in enumerate(["and", "or", "^", "&", "|", "==", "!="]):
        out.append(("sys:bool", f"def sv_{k}(a: bool, b: bool) -> bool:\n\treturn a {op} b"))
        k += 1
    out.append(("sys:bool", f"def sv_{k}(a: bool) -> bool:\n\treturn not a"))
    k += 1
    out.append(("sys:bool", f"def sv_{k}(a: bool, b: bool, c: bool) -> bool:\n\treturn a if c else b"))
    k += 1
    for name, src in FORMS:
        out.append(("form:" + name, src))
    for i, src in enumerate(progs.STATEMENT_PROGRAMS):
        out.append(("form:st", src))
    out += ifself_programs()
    out += forelse_programs()
    out += nested_ann_programs()
    out += matrix_row_programs()
    out += struct_programs()
    out += cmpchain_programs()
    return out


FORMS = [
    ("assign", "def fm_0(a: Qint[2], b: Qint[3]) -> Qint[4]:\n\tc = a + b\n\td = c + a\n\treturn d"),
    ("augassign", "def fm_1(a: Qint[3], b: Qint[2]) -> Qint[4]:\n\tc = a\n\tc += b\n\tc ^= a\n\tc -= 1\n\treturn c"),
    ("augassign", "def fm_2(a: Qint[2]) -> Qint[4]:\n\tc = a\n\tc *= 3\n\tc <<= 1\n\tc |= 1\n\treturn c"),
    ("multitarget", "def fm_3(a: Qint[2], b: Qint[3]) -> Qint[4]:\n\tc, d = b, a\n\treturn c - d"),
    ("multitarget", "def fm_4(t: Tuple[Qint[2], Qint[3]]) -> Qint[3]:\n\tc, d = t\n\treturn d ^ c"),
    # the right-hand side of a multi-target assignment reads its own targets: Python evaluates it completely first
    ("multitarget-swap", "def fm_5(a: Qint[2], b: Qint[2]) -> Qint[2]:\n\ta, b = b, a\n\treturn a - b"),
    ("multitarget-swap", "def fm_6(a: Qint[3], b: Qint[3]) -> Qint[3]:\n\tx = a\n\ty = b\n\tx, y = y, x + y\n\tx, y = y, x + y\n\treturn x"),
    ("multitarget-swap", "def fm_7(a: bool, b: bool, c: bool) -> bool:\n\ta, b, c = c, a, b\n\treturn (a and not b) or c"),
    ("multitarget-swap", "def fm_8(a: Qint[2], b: bool) -> Qint[2]:\n\tc = a + 1\n\tc, a = a, c\n\treturn c if b else a"),
    ("if", "def fm_5(a: Qint[2], b: Qint[3], c: bool) -> Qint[3]:\n\td = a\n\tif c:\n\t\td = b\n\treturn d"),
    ("ifelse", "def fm_6(a: Qint[2], b: Qint[2], c: bool) -> Qint[3]:\n\td = a\n\te = b\n\tif a > b:\n\t\td = a - b\n\t\te = d + 1\n\telse:\n\t\td = b - a\n\treturn d + e"),
    ("ifelse", "def fm_7(a: Qint[3], c: bool, d: bool) -> Qint[3]:\n\tr = a\n\tif c and not d:\n\t\tr += 1\n\telse:\n\t\tr = r >> 1\n\treturn r"),
    ("for-range", "def fm_8(a: Qint[2]) -> Qint[4]:\n\ts = a\n\tfor i in range(1, 4):\n\t\ts = s + i\n\treturn s"),
    ("for-range", "def fm_9(a: Qint[4]) -> Qint[4]:\n\ts = 0\n\tfor i in range(4):\n\t\ts = s + (1 if a[i] else 0)\n\treturn s"),
    ("for-tuple", "def fm_10(t: Tuple[Qint[2], Qint[2], Qint[2]]) -> Qint[4]:\n\ts = 0\n\tfor x in t:\n\t\ts += x\n\treturn s"),
    ("for-tuple", "def fm_11(t: Qlist[bool, 4]) -> Qint[3]:\n\tn = 0\n\tfor x in t:\n\t\tn = n + 1 if x else n\n\treturn n"),
    ("for-list", "def fm_12(a: Qint[2]) -> Qint[4]:\n\ts = a\n\tfor x in [1, 2, 3]:\n\t\ts += x\n\treturn s"),
    ("lookup", "def fm_13(a: Qint[2]) -> Qint[4]:\n\tc = [3, 9, 1, 14]\n\treturn c[a]"),
    ("lookup", "def fm_14(a: Qint[2], b: Qint[2]) -> Qint[4]:\n\tc = [1, 2, 3, 0]\n\treturn c[a] + c[b]"),
    ("len", "def fm_15(t: Qlist[Qint[2], 3]) -> Qint[2]:\n\treturn len(t)"),
    ("max", "def fm_16(t: Qlist[Qint[2], 3]) -> Qint[2]:\n\treturn max(t)"),
    ("min", "def fm_17(a: Qint[2], b: Qint[2], c: Qint[2]) -> Qint[2]:\n\treturn min(a, b, c)"),
    ("sum", "def fm_18(t: Qlist[Qint[2], 3]) -> Qint[4]:\n\treturn sum(t)"),
    ("all", "def fm_19(t: Qlist[bool, 3], a: bool) -> bool:\n\treturn all(t) or a"),
    ("any", "def fm_20(t: Tuple[bool, bool]) -> bool:\n\treturn any(t)"),
    ("ord", "def fm_21(c: Qchar) -> bool:\n\treturn ord(c) == 97"),
    ("ord", "def fm_22(c: Qchar) -> bool:\n\treturn ord(c) == 3"),
    ("chr", "def fm_23(a: Qint[8]) -> bool:\n\treturn chr(a) == 'a'"),
    ("qchar", "def fm_24(c: Qchar, d: Qchar) -> bool:\n\treturn c != d or c == 'q'"),
    ("tuple-arg", "def fm_25(t: Tuple[Qint[2], bool, Qint[3]]) -> Qint[3]:\n\treturn t[2] if t[1] else t[0]"),
    ("tuple-ret", "def fm_26(a: Qint[2], b: Qint[2]) -> Tuple[Qint[2], bool, Qint[2]]:\n\treturn (a ^ b, a == b, b)"),
    ("qlist-index", "def fm_27(t: Qlist[Qint[2], 3], i: Qint[2]) -> Qint[2]:\n\treturn t[i]"),
    ("qlist-index", "def fm_28(t: Qlist[Qint[2], 4], i: Qint[2]) -> Qint[2]:\n\treturn t[i] + 1"),
    ("qmatrix", "def fm_29(m: Qmatrix[bool, 2, 2], i: Qint[2], j: Qint[2]) -> bool:\n\treturn m[i][j]"),
    ("qmatrix", "def fm_30(m: Qmatrix[bool, 2, 3], i: Qint[2], j: Qint[2]) -> bool:\n\treturn m[i][j]"),
    ("qmatrix", "def fm_31(m: Qmatrix[Qint[2], 2, 2]) -> Qint[2]:\n\treturn m[0][1] + m[1][0]"),
    ("qmatrix", "def fm_32(m: Qmatrix[bool, 2, 3]) -> bool:\n\treturn m[1][2] and not m[0][2]"),
    ("qfixed", "def fm_33(a: Qfixed[2, 2], b: Qfixed[2, 2]) -> Qfixed[2, 2]:\n\treturn a + b"),
    ("qfixed", "def fm_34(a: Qfixed[1, 3], b: Qfixed[1, 3]) -> bool:\n\treturn a >= b"),
    ("qfixed", "def fm_35(a: Qfixed[2, 2], b: Qfixed[2, 2]) -> bool:\n\treturn a == b"),
    ("qfixed", "def fm_36(a: Qfixed[2, 2], b: Qfixed[2, 2]) -> Qfixed[2, 2]:\n\treturn a - b"),
    ("pow", "def fm_37(a: Qint[2]) -> Qint[8]:\n\treturn a ** 3"),
    ("constfold", "def fm_38(a: Qint[4]) -> Qint[4]:\n\treturn a + (3 * 2 - 1)"),
    ("constfold", "def fm_39(a: Qint[4]) -> Qint[4]:\n\treturn (a + 1) if 3 > 2 else (a - 1)"),
    ("negconst", "def fm_40(a: Qint[2]) -> Qint[2]:\n\treturn a + (-1)"),
    ("negconst", "def fm_41(a: Qint[4]) -> Qint[4]:\n\treturn a & ~1"),
    ("tuple-cmp", "def fm_42(t: Tuple[bool, Qint[2]], u: Tuple[bool, Qint[2]]) -> bool:\n\treturn t == u"),
    ("tuple-copy", "def fm_43(t: Tuple[Qint[2], Qint[2]]) -> Qint[2]:\n\tu = t\n\treturn u[1]"),
    ("int", "def fm_44(a: Qint[3]) -> Qint[3]:\n\treturn int(a) + 1"),
    ("modvar", "def fm_45(a: Qint[4]) -> Qint[4]:\n\tb = 4\n\treturn a % b"),
    ("nested-tuple", "def fm_46(t: Tuple[Tuple[bool, Qint[2]], bool]) -> Qint[2]:\n\treturn t[0][1] if t[1] else 1"),
    ("folded-const", "def fm_48(a: Qint[3]) -> Qint[6]:\n\treturn (((a + 8) ^ a) * ((a * 15) - (1 + a)))"),
    ("folded-const", "def fm_49(a: Qint[3], b: Qint[2], c: Qint[2]) -> Qint[2]:\n\tt0 = ((a if (7 == c) else 2) * b)\n\treturn (t0 | b)"),
    ("folded-const", "def fm_50(a: Qint[2]) -> Qint[4]:\n\treturn (a ^ a) * a + (a >> 3) * 3"),
    ("else-if", "def fm_47(a: Qint[2], c: bool, d: bool) -> Qint[2]:\n\tr = a\n\tif c:\n\t\tr = 1\n\telse:\n\t\tr = 2\n\treturn r + (1 if d else 0)"),
]

# ---- `for … else` (no `break` in the subset: the else suite runs once, after the last iteration; repaired 67bd58c) -----
FORELSE_FORMS = [
    ("list", "def fe_0(r: Qint[2]) -> Qint[2]:\n\tfor i in [1, 2]:\n\t\tr += i\n\telse:\n\t\tr = 0\n\treturn r"),
    ("empty-range", "def fe_1(r: Qint[2]) -> Qint[2]:\n\tfor i in range(0):\n\t\tr += 1\n\telse:\n\t\tr = r ^ 3\n\treturn r"),
    ("reads-loop-var", "def fe_2(a: Qint[2]) -> Qint[4]:\n\ts = a\n\tfor i in range(3):\n\t\ts = s + i\n\telse:\n\t\ts = s ^ i\n"
                       "\treturn s"),
    ("nested", "def fe_3(a: Qint[2]) -> Qint[4]:\n\ts = a\n\tfor i in (1, 2):\n\t\tfor j in range(i):\n\t\t\ts += j\n\t\telse:\n"
               "\t\t\ts = s + i\n\telse:\n\t\ts = s ^ 1\n\treturn s"),
    ("if-inside", "def fe_4(a: Qint[2], c: bool) -> Qint[2]:\n\tr = a\n\tfor i in range(2):\n\t\tr = r + i\n\telse:\n\t\tif c:\n"
                  "\t\t\tc = False\n\t\t\tr = r + 1\n\t\telse:\n\t\t\tr = r ^ 2\n\treturn r"),
    ("tuple-arg", "def fe_5(t: Tuple[Qint[2], Qint[2]]) -> Qint[2]:\n\tr = 0\n\tfor v in t:\n\t\tr ^= v\n\telse:\n\t\tr = r + 1\n"
                  "\treturn r"),
    ("bool-ret", "def fe_6(a: bool, b: bool) -> bool:\n\tr = a\n\tfor v in (True, False):\n\t\tr = r ^ v\n\telse:\n\t\tr = r and b\n"
                 "\treturn r"),
    ("second-loop", "def fe_7(a: Qint[2]) -> Qint[4]:\n\ts = a\n\tfor i in range(2):\n\t\ts += 1\n\telse:\n\t\tfor j in range(2):\n"
                    "\t\t\ts += j\n\treturn s"),
]


def nested_ann_programs():
    """containers nested in container annotations and one-element tuples (repaired f3ecbf2), indexed into; and builtins over
    an argument whose elements are not known at translation time (repaired 5e521a1: refused, not counted as one element)"""
    out = [("nested-ann:" + tag, f"def na_{k}(t: {ann}, i: Qint[2], j: Qint[2]) -> {rt}:\n\treturn {body}")
           for k, (tag, ann, body, rt) in enumerate(a2a.NESTED_ANN_FORMS)]
    out.append(("unknown-iterable:len-var-row", "def ui_0(t: Qmatrix[Qint[2], 2, 3], i: Qint[2]) -> Qint[4]:\n\treturn len(t[i])"))
    out.append(("unknown-iterable:len-var-row-bool", "def ui_1(t: Qmatrix[bool, 2, 2], i: Qint[2]) -> Qint[2]:\n\treturn len(t[i]) + 1"))
    out.append(("unknown-iterable:len-ifexp", "def ui_2(t: Qlist[bool, 2], u: Qlist[bool, 2], c: bool) -> Qint[2]:\n\treturn len(t if c else u)"))
    return out


def forelse_programs():
    return [("forelse:" + n, src) for n, src in FORELSE_FORMS]


# ---- chained comparisons and the other nodes the two constant-folding passes touch (seeded C01-r8-2) ---------------------
# A chained comparison is outside the documented subset: the translator rejects it.  The class here: it must not be
# accepted with another meaning than python's `a op b and b op c` - in particular not after `ConstantFolder` (before the
# rewriting pass: literals; after it: loop variables and constant variables the rewriter substituted) folded a part of it.
CHAIN_OPS2 = [("<=", "<"), ("<", "<="), ("==", "!="), (">", ">="), ("!=", "=="), (">=", ">")]
CHAIN_OPS3 = [("<=", "<", "<="), ("!=", ">=", ">"), ("==", "<", "!=")]
CHAIN_H = "(a: Qint[2], b: Qint[2])"


def _chain(operands, ops):
    return operands[0] + "".join(f" {o} {x}" for o, x in zip(ops, operands[1:]))


def _chain_operands(pattern, shift):
    """`pattern` over C / V: constants rotate through 0..3 (so that first links are true and false), variables a, b"""
    out, nc, nv = [], 0, 0
    for ch in pattern:
        if ch == "C":
            out.append(str((shift + 2 * nc + nc // 2) % 4))
            nc += 1
        else:
            out.append("ab"[nv % 2])
            nv += 1
    return out


def cmpchain_programs():
    out, k = [], 0

    def add(tag, body, ret="bool"):
        nonlocal k
        out.append((f"cmpchain:{tag}", f"def cc_{k}{CHAIN_H} -> {ret}:\n{body}"))
        k += 1

    # written directly, returned: every position pattern x operator mix (2 links), a part of them for 3 links
    for pi, pat in enumerate(["CCV", "VCC", "CCC", "VVV", "CVC", "CVV", "VCV", "VVC"]):
        for oi, ops in enumerate(CHAIN_OPS2):
            add(f"ret2:{pat}", f"\treturn {_chain(_chain_operands(pat, pi + oi), ops)}")
    # the first link true on purpose (a folder that keeps the first link only answers True)
    for ops, c0, c1 in (("<=", "<"), "0", "1"), (("<", "<="), "0", "2"), (("==", "<"), "1", "1"), (("!=", ">"), "3", "2"), \
            ((">=", "=="), "3", "3"), ((">", "!="), "2", "1"):
        add("ret2:CCV-true", f"\treturn {c0} {ops[0]} {c1} {ops[1]} a")
        add("ret2:VCC-true", f"\treturn a {ops[1]} {c1} {ops[0].replace('<', '§').replace('>', '<').replace('§', '>')} {c0}")
    for pi, pat in enumerate(["CCVV", "VVCC", "CCCC", "VVVV", "CCCV", "CVCV", "VCCV"]):
        for oi, ops in enumerate(CHAIN_OPS3):
            add(f"ret3:{pat}", f"\treturn {_chain(_chain_operands(pat, pi + oi), ops)}")
    add("ret3:CCCV-true", "\treturn 0 <= 1 < 2 <= a")
    add("ret3:CCVV-true", "\treturn 0 < 1 <= a < b")
    # contexts: if test, if-expression, and / or / not, assignment
    for tag, ch in (("CCV", "0 <= 1 < a"), ("VCC", "a < 2 <= 3"), ("CVC", "1 <= a < 3"), ("CCC", "0 < 1 < 2"),
                    ("CCCV", "0 < 1 < 2 <= a")):
        add(f"if:{tag}", f"\tr = b\n\tif {ch}:\n\t\tr = r + 1\n\treturn r", "Qint[2]")
        add(f"ifelse:{tag}", f"\tif {ch}:\n\t\tr = a\n\telse:\n\t\tr = b\n\treturn r", "Qint[2]")
        add(f"ifexp:{tag}", f"\treturn a if {ch} else b", "Qint[2]")
        add(f"and:{tag}", f"\treturn {ch} and a != b")
        add(f"or:{tag}", f"\treturn a == b or {ch}")
        add(f"not:{tag}", f"\treturn not ({ch})")
        add(f"assign:{tag}", f"\tc = {ch}\n\treturn c")
    # produced by loop-variable substitution (range, tuple and list literals, nested loops)
    for it in ("range(3)", "range(1, 4)", "(0, 2, 3)", "[3, 1]"):
        for ch in ("0 <= i < a", "i <= 1 < a", "a > i >= 1", "0 < i != a", "i == i <= a", "0 <= i < 2 <= a", "b <= i < a"):
            add("loop-if", f"\tc = 0\n\tfor i in {it}:\n\t\tif {ch}:\n\t\t\tc += 1\n\treturn c", "Qint[2]")
    add("loop-ifexp", "\tc = 0\n\tfor i in range(3):\n\t\tc = c + (1 if 0 <= i < a else 0)\n\treturn c", "Qint[2]")
    add("loop-and", "\tr = False\n\tfor i in range(1, 3):\n\t\tr = r or (0 < i <= a and b != i)\n\treturn r")
    add("loop-nested", "\tc = 0\n\tfor i in range(2):\n\t\tfor j in range(2):\n\t\t\tif i <= j < a:\n\t\t\t\tc += 1\n\treturn c", "Qint[4]")
    add("loop-else", "\tc = 0\n\tfor i in range(2):\n\t\tc += 1\n\telse:\n\t\tif 0 <= i < a:\n\t\t\tc += 1\n\treturn c", "Qint[2]")
    # produced by constant variables
    add("constvar-if", "\tk = 2\n\tr = b\n\tif 1 < k < a:\n\t\tr = 0\n\treturn r", "Qint[2]")
    add("constvar-ret", "\tk = 1\n\treturn 0 <= k < a")
    add("constvar-ret", "\tk = 1\n\tm = 2\n\treturn k < m <= a")
    add("constvar-ret", "\tk = 3\n\treturn a <= k == 3")
    add("constvar-loop", "\tk = 1\n\tc = 0\n\tfor i in range(3):\n\t\tif k <= i < a:\n\t\t\tc += 1\n\treturn c", "Qint[2]")
    # the other nodes the folding passes touch, made constant by a loop variable / a constant variable
    for tag, stmt in (
            ("not", "if not i:\n\t\t\tc += 1"), ("not-not", "if not (not i):\n\t\t\tc += 1"),
            ("usub", "c = c + (-i + 3)"), ("usub-sub", "c = c - (-i)"), ("uadd", "c = c + (+i)"), ("invert", "c = c + (~i + 4)"),
            ("pow", "c = c + i ** 2"), ("pow-base", "c = c + 2 ** i"), ("pow-var", "c = c + a ** i"),
            ("floordiv", "c = c + i // 2"), ("floordiv-by", "c = c + 7 // (i + 1)"), ("mod", "c = c + i % 2"),
            ("mod-by", "c = c + 7 % (i + 1)"), ("mod-var", "c = c + a % (2 ** i)"), ("shift", "c = c + (a << i) + (a >> i)"),
            ("cmp-bool-const", "if (i == 1) == True:\n\t\t\tc += 1"), ("cmp-bool-const", "if (i > 0) != False:\n\t\t\tc += 1"),
            ("cmp-bool-const", "if (i > 0) < True:\n\t\t\tc += 1"), ("cmp-bool-const", "if (i > 1) >= (i > 0):\n\t\t\tc += 1"),
            ("cmp-bool-var", "if (i > 0) == (a > 1):\n\t\t\tc += 1"),
            ("is", "if (i > 0) is True:\n\t\t\tc += 1"), ("is-not", "if (i > 0) is not False:\n\t\t\tc += 1"),
            ("is-var", "if (a > i) is True:\n\t\t\tc += 1"),
            ("in", "if i in (0, 2):\n\t\t\tc += 1"), ("not-in", "if i not in [1]:\n\t\t\tc += 1"),
            ("in-var", "if a in (i, 3):\n\t\t\tc += 1"),
            ("ifexp-const", "c = c + (a if i else b)"), ("boolop-const", "if i > 0 and a > i:\n\t\t\tc += 1"),
            ("boolop-const", "if i == 0 or a > i:\n\t\t\tc += 1")):
        out.append((f"loopfold:{tag}", f"def cc_{k}{CHAIN_H} -> Qint[4]:\n\tc = 0\n\tfor i in range(3):\n\t\t{stmt}\n\treturn c"))
        k += 1
    for tag, body in (("not", "\tk = 0\n\treturn a if not k else b"), ("usub", "\tk = 1\n\treturn a + (-k + 2)"),
                      ("pow", "\tk = 2\n\treturn a + k ** 2"), ("floordiv", "\tk = 3\n\treturn a + k // 2"),
                      ("mod", "\tk = 3\n\treturn a + k % 2"), ("cmp-bool-const", "\tk = True\n\treturn a if k == True else b"),
                      ("is", "\tk = True\n\treturn a if k is True else b"), ("in", "\tk = 2\n\treturn a if k in (1, 2) else b")):
        out.append((f"constfold:{tag}", f"def cc_{k}{CHAIN_H} -> Qint[4]:\n{body}"))
        k += 1
    return out


def gen_cmpchain_program(rng, k):
    """random member of the class: 2 or 3 links, operands constants / arguments / a loop variable / a constant variable,
    in a random context"""
    n = rng.choice([2, 2, 3])
    loop = rng.random() < 0.6
    cvar = rng.random() < 0.3
    pool = ["0", "1", "2", "3", "a", "b"] + (["i", "i", "i"] if loop else []) + (["k", "k"] if cvar else [])
    ops = [rng.choice(["==", "!=", "<", "<=", ">", ">="]) for _ in range(n)]
    ch = _chain([rng.choice(pool) for _ in range(n + 1)], ops)
    ctx_ = rng.choice(["if", "ifexp", "and", "not"])
    test = {"if": ch, "ifexp": ch, "and": f"{ch} and a != {rng.randrange(4)}", "not": f"not ({ch})"}[ctx_]
    ind = "\t\t" if loop else "\t"
    if ctx_ == "ifexp":
        st = f"{ind}c = c + (1 if {test} else 0)\n"
    else:
        st = f"{ind}if {test}:\n{ind}\tc += 1\n"
    it = rng.choice(["range(3)", "range(1, 4)", "(0, 3)", "[2, 1]"])
    src = f"def rc_{k}{CHAIN_H} -> Qint[2]:\n\tc = 0\n"
    if cvar:
        src += f"\tk = {rng.randrange(4)}\n"
    if loop:
        src += f"\tfor i in {it}:\n"
    return src + st + "\treturn c"



# ---- loops / len / sum / any / all over a row `m[c]` of a matrix that need not be square (repaired 91ca3b4) --------------
def matrix_row_programs():
    out, k = [], 0
    for n, m in ((2, 3), (3, 2), (1, 3), (3, 1)):
        for c in sorted({0, n - 1}):
            bm = f"m: Qmatrix[bool, {n}, {m}]"
            out.append((f"matrow:loop:{n}x{m}", f"def mr_{k}({bm}) -> Qint[2]:\n\tc = 0\n\tfor x in m[{c}]:\n"
                                                f"\t\tc = c + 1 if x else c\n\treturn c"))
            k += 1
            out.append((f"matrow:len:{n}x{m}", f"def mr_{k}({bm}) -> Qint[2]:\n\treturn len(m[{c}])"))
            k += 1
            out.append((f"matrow:any:{n}x{m}", f"def mr_{k}({bm}) -> bool:\n\treturn any(m[{c}])"))
            k += 1
            out.append((f"matrow:all:{n}x{m}", f"def mr_{k}({bm}) -> bool:\n\treturn all(m[{c}])"))
            k += 1
            out.append((f"matrow:sum:{n}x{m}", f"def mr_{k}(m: Qmatrix[Qint[2], {n}, {m}]) -> Qint[4]:\n\treturn sum(m[{c}])"))
            k += 1
    return out


# ---- tuple `!=` (repaired 6b91624: it meant "every bit differs") and subscript chains that stop at a tuple (repaired
# 6b971e4: `m[0]` evaluated to the undefined symbol `m.0`) ------------------------------------------------------------------
def struct_programs():
    out, k = [], 0
    # tuple != with bool / Qint / mixed leaves, 1..3 elements (Tuple[bool] alone is refused by the annotation pass)
    shapes = [("q1", "Tuple[Qint[2]]"), ("bb", "Tuple[bool, bool]"),
              ("qq", "Tuple[Qint[2], Qint[2]]"), ("bq", "Tuple[bool, Qint[2]]"), ("qb", "Tuple[Qint[2], bool]"),
              ("bqb", "Tuple[bool, Qint[2], bool]"), ("qqb", "Tuple[Qint[2], Qint[3], bool]"),
              ("bbb", "Qlist[bool, 3]"), ("ql", "Qlist[Qint[2], 2]")]
    for n, t in shapes:
        out.append((f"tupneq:{n}", f"def tn_{k}(a: {t}, b: {t}) -> bool:\n\treturn a != b"))
        k += 1
    out.append(("tupneq:lit", f"def tn_{k}(a: Tuple[bool, bool], c: bool, d: bool) -> bool:\n\treturn a != (c, d)"))
    k += 1
    out.append(("tupneq:lit-left", f"def tn_{k}(a: Tuple[bool, bool], c: bool) -> bool:\n\treturn (c, not c) != a"))
    k += 1
    out.append(("tupneq:in-expr", f"def tn_{k}(a: Tuple[bool, Qint[2]], b: Tuple[bool, Qint[2]], c: bool) -> bool:\n"
                                  f"\treturn (a != b) and c or (a == b) and not c"))
    k += 1
    out.append(("tupneq:ifexp", f"def tn_{k}(a: Tuple[Qint[2], bool], b: Tuple[Qint[2], bool]) -> Qint[2]:\n"
                                f"\treturn a[0] if a != b else b[0] + 1"))
    k += 1
    out.append(("tupneq:if", f"def tn_{k}(a: Tuple[Qint[2], Qint[2]], b: Tuple[Qint[2], Qint[2]]) -> Qint[2]:\n"
                             f"\tr = 0\n\tif a != b:\n\t\tr = a[1]\n\telse:\n\t\tr = b[0]\n\treturn r"))
    k += 1
    out.append(("tupneq:copy", f"def tn_{k}(a: Tuple[bool, Qint[2]], b: Tuple[bool, Qint[2]]) -> bool:\n"
                               f"\tu = a\n\tv = b\n\treturn u != v"))
    k += 1
    # a subscript chain that stops at a tuple: a row of a matrix, an element of a nested tuple / of a list of tuples
    mats = [("mb22", "Qmatrix[bool, 2, 2]", "Qlist[bool, 2]", "bool", 1),
            ("mb23", "Qmatrix[bool, 2, 3]", "Qlist[bool, 3]", "bool", 1),
            ("mq22", "Qmatrix[Qint[2], 2, 2]", "Qlist[Qint[2], 2]", "Qint[2]", 1),
            ("nest", "Tuple[Tuple[bool, Qint[2]], Tuple[bool, Qint[2]]]", "Tuple[bool, Qint[2]]", "Qint[2]", 1),
            ("lot", "Qlist[Tuple[Qint[2], bool], 2]", "Tuple[Qint[2], bool]", "Qint[2]", 0)]
    for n, t, row, leaf, idx in mats:
        out.append((f"subtup:copy:{n}", f"def st_{k}(m: {t}) -> {leaf}:\n\tr = m[0]\n\treturn r[{idx}]"))
        k += 1
        out.append((f"subtup:copy2:{n}", f"def st_{k}(m: {t}) -> {leaf}:\n\tr = m[1]\n\ts = r\n\treturn s[{idx}]"))
        k += 1
        out.append((f"subtup:eq:{n}", f"def st_{k}(m: {t}) -> bool:\n\treturn m[0] == m[1]"))
        k += 1
        out.append((f"subtup:neq:{n}", f"def st_{k}(m: {t}) -> bool:\n\treturn m[0] != m[1]"))
        k += 1
        out.append((f"subtup:ret:{n}", f"def st_{k}(m: {t}) -> {row}:\n\treturn m[0]"))
        k += 1
        out.append((f"subtup:ret1:{n}", f"def st_{k}(m: {t}) -> {row}:\n\treturn m[1]"))
        k += 1
        out.append((f"subtup:ifexp:{n}", f"def st_{k}(m: {t}, c: bool) -> {row}:\n\treturn m[0] if c else m[1]"))
        k += 1
        out.append((f"subtup:pair:{n}", f"def st_{k}(m: {t}) -> Tuple[{row}, {row}]:\n\treturn (m[1], m[0])"))
        k += 1
    out.append(("subtup:deep", f"def st_{k}(m: Tuple[Tuple[Tuple[bool, bool], Qint[2]], bool]) -> bool:\n"
                               f"\tr = m[0]\n\ts = r[0]\n\treturn s[1] and m[1]"))
    k += 1
    out.append(("subtup:deep-eq", f"def st_{k}(m: Tuple[Tuple[Tuple[bool, bool], Qint[2]], Tuple[bool, bool]]) -> bool:\n"
                                  f"\treturn m[0][0] == m[1]"))
    k += 1
    return out


# ---- if statements whose test reads a variable that a branch re-assigns ---------------------------------
# Python evaluates the test of an `if` once, then runs every statement of the chosen branch: a branch that
# re-assigns a variable its own test reads keeps running, and the else branch stays not-run.  ast2ast turns
# the statement into guarded assignments; the guard must be the *value the test had*, not the test
# re-read after the re-assignment.  Every program returns (r, s, <the re-assigned variable>), so nothing
# the branches compute can cancel out; all values are Qint[2] / bool (nothing widens, every bit of a
# wrap-around sum is claimed).
# (test, variable the test reads and a branch re-assigns, its new value in the if branch, in the else branch)
IFSELF_TESTS = [
    # bool variable, bare / negated / compound tests
    ("a", "a", "False", "b"),
    ("a", "a", "not a", "a ^ b"),               # self-referencing: through ast2ast's __a temporary
    ("a", "a", "a and b", "not b"),
    ("not a", "a", "True", "b"),
    ("a and b", "b", "not b", "a"),
    ("a and b", "a", "False", "not a"),
    ("a or b", "a", "not a", "True"),
    ("a ^ b", "b", "a", "not b"),
    ("a == b", "a", "not b", "b"),
    ("a and x > y", "a", "x == y", "not a"),
    ("b if a else x[0]", "a", "not a", "b"),
    ("all([a, b])", "b", "False", "True"),
    # Qint variable
    ("x > y", "x", "x - y", "y"),
    ("x > y", "y", "x", "y - x"),
    ("x == y", "y", "y ^ 1", "x"),
    ("x != 0", "x", "x - 1", "y"),
    ("x[0]", "x", "x >> 1", "x ^ 1"),
    ("(x ^ y) > 1", "y", "x", "y ^ x"),
    ("x < 2 and y < 2", "y", "y + 2", "y & 1"),
    ("a and x > y", "x", "y", "x >> 1"),
    ("a or x[1]", "x", "x & 1", "x | 2"),
]
IFSELF_SIG = "a: bool, b: bool, x: Qint[2], y: Qint[2]"


def ifself_src(name, test, v, new_t, new_f, kind, vt):
    """one program of the class; kind: body | else | both | loop | loop-both | after | elif"""
    ret = f"Tuple[Qint[2], Qint[2], {vt}]"
    head = f"def {name}({IFSELF_SIG}) -> {ret}:\n\tr = y\n\ts = x\n"
    tail = f"\treturn (r, s, {v})"
    if kind == "body":        # the re-assignment first, several assignments after it
        blk = f"\tif {test}:\n\t\t{v} = {new_t}\n\t\tr = r + 1\n\t\ts = s ^ r\n"
    elif kind == "else":      # the else branch re-assigns: its guard is still "the test was false"
        blk = f"\tif {test}:\n\t\tr = r + 1\n\telse:\n\t\t{v} = {new_f}\n\t\tr = r + 2\n\t\ts = s ^ r\n"
    elif kind == "both":
        blk = (f"\tif {test}:\n\t\t{v} = {new_t}\n\t\tr = r + 1\n\telse:\n\t\t{v} = {new_f}\n\t\ts = s + 1\n"
               f"\t\tr = r ^ s\n")
    elif kind == "after":     # first branch re-assigns: the else branch must still be skipped
        blk = f"\tif {test}:\n\t\t{v} = {new_t}\n\telse:\n\t\tr = r + 1\n\t\ts = s ^ r\n"
    elif kind == "loop":      # nested in an unrolled loop: every iteration evaluates the test afresh, once
        blk = f"\tfor i in range(2):\n\t\tif {test}:\n\t\t\t{v} = {new_t}\n\t\t\tr = r + 1\n\t\t\ts = s ^ r\n\t\tr = r + i\n"
    elif kind == "loop-both":
        blk = (f"\tfor i in range(2):\n\t\tif {test}:\n\t\t\t{v} = {new_t}\n\t\t\tr += 1\n\t\telse:\n\t\t\t{v} = {new_f}\n"
               f"\t\t\ts += r\n\t\t\tr ^= 2\n")
    elif kind == "elif":      # the second test is evaluated only when the first was false
        blk = (f"\tif {test}:\n\t\t{v} = {new_t}\n\t\tr = r + 1\n\telif not ({test}):\n\t\t{v} = {new_f}\n\t\tr = r + 2\n"
               f"\telse:\n\t\tr = r + 3\n\t\ts = 0\n")
    else:
        raise ValueError(kind)
    return head + blk + tail


IFSELF_KINDS = ["body", "else", "both", "after", "loop", "loop-both", "elif"]

# hand-written members of the class: latch flags, several re-assignments, augmented assignment, chains
IFSELF_FORMS = [
    ("latch", "def ifl_0(x: Qint[2], y: Qint[2]) -> Qint[4]:\n\tfirst = x > y\n\tacc = 0\n\tfor i in range(2):\n"
              "\t\tif first:\n\t\t\tfirst = False\n\t\t\tacc = acc + 5\n\t\tacc = acc + 1\n\treturn acc"),
    ("latch", "def ifl_1(x: Qint[3]) -> Tuple[Qint[2], bool]:\n\tdone = False\n\tn = 0\n\tfor i in range(3):\n"
              "\t\tif not done:\n\t\t\tdone = x[i]\n\t\t\tn = n + 1\n\treturn (n, done)"),
    ("latch", "def ifl_2(a: bool, t: Tuple[bool, bool, bool]) -> Tuple[Qint[2], bool]:\n\tgo = a\n\tn = 0\n\tfor v in t:\n"
              "\t\tif go:\n\t\t\tgo = v\n\t\t\tn += 1\n\treturn (n, go)"),
    ("latch", "def ifl_3(a: bool, b: bool, c: bool) -> Tuple[bool, bool, Qint[2]]:\n\tn = 0\n\tfor i in range(2):\n"
              "\t\tif a:\n\t\t\ta = b\n\t\t\tb = c\n\t\t\tn = n + 1\n\t\telse:\n\t\t\ta = c\n\t\t\tn = n + 2\n\treturn (a, b, n)"),
    ("countdown", "def ifl_4(x: Qint[2]) -> Tuple[Qint[2], Qint[2]]:\n\tr = 0\n\tfor i in range(3):\n\t\tif x > 0:\n"
                  "\t\t\tx -= 1\n\t\t\tr += 1\n\treturn (x, r)"),
    ("countdown", "def ifl_5(x: Qint[2], y: Qint[2]) -> Tuple[Qint[2], Qint[2], Qint[2]]:\n\tq = 0\n\tfor i in range(3):\n"
                  "\t\tif x >= y and y > 0:\n\t\t\tx = x - y\n\t\t\tq = q + 1\n\treturn (x, y, q)"),
    ("gcd-step", "def ifl_6(x: Qint[2], y: Qint[2]) -> Tuple[Qint[2], Qint[2]]:\n\tfor i in range(2):\n\t\tif x > y:\n"
                 "\t\t\tx = x - y\n\t\telse:\n\t\t\ty = y - x\n\treturn (x, y)"),
    ("swap", "def ifl_8(x: Qint[2], y: Qint[2]) -> Tuple[Qint[2], Qint[2]]:\n\tt = x\n\tif x > y:\n\t\tt = x\n\t\tx = y\n"
             "\t\ty = t\n\treturn (x, y)"),
    ("twice", "def ifl_9(a: bool, b: bool) -> Tuple[bool, bool, Qint[2]]:\n\tn = 0\n\tif a:\n\t\ta = False\n\t\tn = n + 1\n"
              "\t\ta = b\n\t\tn = n + 1\n\t\tb = not a\n\t\tn = n + 1\n\treturn (a, b, n)"),
    ("twice", "def ifl_10(a: bool, b: bool, x: Qint[2]) -> Tuple[bool, Qint[2]]:\n\tif a or b:\n\t\ta = False\n\t\tx = x + 1\n"
              "\t\tb = False\n\t\tx = x + 1\n\tif a or b:\n\t\tx = 0\n\treturn (a or b, x)"),
    ("sequence", "def ifl_11(a: bool, x: Qint[2]) -> Tuple[bool, Qint[2]]:\n\tif a:\n\t\ta = False\n\t\tx = x + 1\n\tif not a:\n"
                 "\t\ta = True\n\t\tx = x + 2\n\tif a:\n\t\tx = x ^ 1\n\treturn (a, x)"),
    ("elif-chain", "def ifl_12(x: Qint[2], y: Qint[2]) -> Tuple[Qint[2], Qint[2]]:\n\tr = 0\n\tif x > 2:\n\t\tx = 0\n\t\tr = 1\n"
                   "\telif x > 1:\n\t\tx = 3\n\t\tr = 2\n\telif x > 0:\n\t\tx = 2\n\t\tr = 3\n\treturn (x, r)"),
    ("elif-chain", "def ifl_13(a: bool, b: bool, x: Qint[2]) -> Tuple[bool, bool, Qint[2]]:\n\tif a:\n\t\ta = False\n\t\tb = True\n"
                   "\t\tx = x + 1\n\telif b:\n\t\tb = False\n\t\ta = True\n\t\tx = x + 2\n\telse:\n\t\ta = True\n\t\tb = True\n"
                   "\t\tx = x + 3\n\treturn (a, b, x)"),
    ("else-if", "def ifl_14(a: bool, b: bool, x: Qint[2]) -> Tuple[bool, Qint[2]]:\n\tr = x\n\tif a:\n\t\tr = x + 1\n\telse:\n"
                "\t\ta = b\n\t\tif a:\n\t\t\ta = False\n\t\t\tr = x + 2\n\t\tr = r + r\n\treturn (a, r)"),
    ("ret-bool", "def ifl_15(a: bool, b: bool) -> bool:\n\tc = b\n\tif a:\n\t\ta = False\n\t\tc = not c\n\treturn c"),
    ("ret-bool", "def ifl_16(a: bool, b: bool, c: bool) -> bool:\n\tr = c\n\tif a != b:\n\t\tb = a\n\t\tr = not r\n\telse:\n"
                 "\t\ta = not a\n\t\tr = r and c\n\treturn r ^ (a == b)"),
    ("ret-int", "def ifl_17(a: bool, b: Qint[2]) -> Qint[2]:\n\tc = b\n\tif a:\n\t\ta = False\n\t\tc = c + 1\n\treturn c"),
    ("ret-int", "def ifl_18(a: bool, b: bool, x: Qint[2]) -> Qint[2]:\n\tr = x\n\tif a:\n\t\ta = a and b\n\t\tr = x + 2\n\telse:\n"
                "\t\tr = x + 1\n\treturn r"),
    ("wider", "def ifl_19(x: Qint[3], y: Qint[2]) -> Tuple[Qint[3], Qint[4]]:\n\tr = 8\n\tif x > y:\n\t\tx = x - y\n\t\tr = r + x\n"
              "\t\tr = r - 1\n\treturn (x, r)"),
    ("wider", "def ifl_20(x: Qint[4]) -> Tuple[Qint[4], Qint[2]]:\n\tn = 0\n\tfor i in range(3):\n\t\tif not x[0]:\n"
              "\t\t\tx = x >> 1\n\t\t\tn = n + 1\n\treturn (x, n)"),
]


def ifself_programs():
    out, k = [], 0
    for test, v, nt, nf in IFSELF_TESTS:
        vt = "bool" if v in ("a", "b") else "Qint[2]"
        for kind in IFSELF_KINDS:
            out.append((f"ifself:{kind}", ifself_src(f"ifs_{k}", test, v, nt, nf, kind, vt)))
            k += 1
    for name, src in IFSELF_FORMS:
        out.append(("ifself:" + name, src))
    return out


def gen_ifself_program(rng, k):
    """random member of the class: a random test over a, b, x, y; one of the variables it reads is
    re-assigned in a random place of the if branch and / or the else branch, among other assignments;
    optionally inside an unrolled loop and followed by a second if that reads the variable again"""
    batom = ["a", "b", "(not a)", "(not b)"]
    iatom = ["(x > y)", "(x == y)", "(x < y)", "(x != 0)", "(y > 1)", "x[0]", "y[1]", "((x ^ y) == 3)", "(x >= 2)"]

    def test_expr(depth):
        if depth <= 0 or rng.random() < 0.3:
            return rng.choice(batom + iatom)
        op = rng.choice([" and ", " or ", " ^ ", " == ", " != "])
        return "(" + test_expr(depth - 1) + op + test_expr(depth - 1) + ")"

    def new_value(v):
        if v in ("a", "b"):
            return rng.choice(["False", "True", f"(not {v})", "(a and b)", "(a or b)", "(a ^ b)", "(x > y)", "x[1]",
                               "a" if v == "b" else "b"])
        o = "y" if v == "x" else "x"
        return rng.choice([o, f"({v} - 1)", f"({v} + 1)", f"({v} >> 1)", f"({v} ^ {o})", f"({v} & {o})", f"(~{v})",
                           f"({o} - {v})", "0", "3", f"({v} << 1)"])

    other = ["r = r + 1", "s = s ^ r", "r += s", "s = s + 1", "r = r ^ 2", "s -= 1", "r = s", "s = r + s", "r = r + i"]

    while True:
        test = test_expr(rng.randint(0, 2))
        read = [v for v in ("a", "b", "x", "y") if v in test.replace("and", "").replace("not", "")]
        if read:
            break
    v = rng.choice(read)
    vt = "bool" if v in ("a", "b") else "Qint[2]"
    in_loop = rng.random() < 0.4
    ind = "\t\t" if in_loop else "\t"

    def branch(reassign):
        n = rng.randint(1, 3)
        stmts = [rng.choice(other) for _ in range(n)]
        if reassign:
            stmts.insert(rng.randint(0, min(1, len(stmts))), f"{v} = {new_value(v)}")
            if rng.random() < 0.25:
                w = rng.choice([z for z in read])
                stmts.insert(rng.randint(1, len(stmts)), f"{w} = {new_value(w)}")
        if not in_loop:
            stmts = [z for z in stmts if z != "r = r + i"] or ["r = r + 1"]
        return "".join(f"{ind}\t{z}\n" for z in stmts)

    shape = rng.choice(["body", "body", "else", "both", "both", "elif"])
    blk = f"{ind}if {test}:\n" + branch(shape in ("body", "both", "elif"))
    if shape == "elif":
        blk += f"{ind}elif {test_expr(1)}:\n" + branch(True)
        if rng.random() < 0.5:
            blk += f"{ind}else:\n" + branch(rng.random() < 0.5)
    elif shape != "body" or rng.random() < 0.3:
        blk += f"{ind}else:\n" + branch(shape in ("else", "both"))
    if rng.random() < 0.35:
        blk += f"{ind}if {rng.choice([test, test_expr(1)])}:\n{ind}\tr = r + 2\n{ind}\t{v} = {new_value(v)}\n{ind}\ts = s + r\n"
    if in_loop:
        blk = f"\tfor i in range({rng.randint(1, 3)}):\n" + blk
    # a second re-assigned variable may be any of the four: return all that can have changed
    outs, tys = ["r", "s", v], ["Qint[2]", "Qint[2]", vt]
    for w in read:
        if w != v and f"{w} = " in blk:
            outs.append(w)
            tys.append("bool" if w in ("a", "b") else "Qint[2]")
    return (f"def fnx_{k}({IFSELF_SIG}) -> Tuple[{', '.join(tys)}]:\n\tr = y\n\ts = x\n" + blk
            + f"\treturn ({', '.join(outs)})")


# programs outside the documented subset: the library must raise
MALFORMED = [
    ("while", "def mf_0(a: Qint[2]) -> Qint[2]:\n\twhile a > 0:\n\t\ta = a - 1\n\treturn a"),
    ("range-var", "def mf_1(a: Qint[2]) -> Qint[2]:\n\ts = 0\n\tfor i in range(a):\n\t\ts += 1\n\treturn s"),
    ("cmp-chain", "def mf_2(a: Qint[2], b: Qint[2], c: Qint[2]) -> bool:\n\treturn a < b < c"),
    ("unbound", "def mf_3(a: Qint[2]) -> Qint[2]:\n\treturn a + zz"),
    ("unknown-type", "def mf_4(a: Qfoo) -> bool:\n\treturn True"),
    ("no-ret-ann", "def mf_5(a: bool):\n\treturn a"),
    ("slice", "def mf_6(a: Qint[4]) -> Qint[2]:\n\treturn a[0:2]"),
    ("div", "def mf_7(a: Qint[2], b: Qint[2]) -> Qint[2]:\n\treturn a / b"),
    ("floordiv", "def mf_8(a: Qint[2], b: Qint[2]) -> Qint[2]:\n\treturn a // b"),
    ("lambda", "def mf_9(a: Qint[2]) -> Qint[2]:\n\tg = lambda x: x\n\treturn g(a)"),
    ("neg", "def mf_10(a: Qint[2]) -> Qint[2]:\n\treturn -a"),
    ("if-int-test", "def mf_11(a: Qint[2]) -> Qint[2]:\n\tr = a\n\tif a:\n\t\tr = 1\n\treturn r"),
    ("ifexp-int-test", "def mf_12(a: Qint[2]) -> Qint[2]:\n\treturn 1 if a else 2"),
    ("no-return", "def mf_13(a: Qint[2]) -> Qint[2]:\n\tb = a"),
    ("unknown-call", "def mf_14(a: Qint[2]) -> Qint[2]:\n\treturn abs(a)"),
    ("str2", "def mf_15(c: Qchar) -> bool:\n\treturn c == 'ab'"),
    ("chained-assign", "def mf_16(a: Qint[2]) -> Qint[2]:\n\tx = y = a\n\treturn x"),
    ("index-oob", "def mf_17(a: Qint[2]) -> bool:\n\treturn a[2]"),
    ("index-oob-tuple", "def mf_18(t: Tuple[bool, bool]) -> bool:\n\treturn t[2]"),
    ("len-arity", "def mf_19(t: Tuple[bool, bool]) -> Qint[2]:\n\treturn len(t, t)"),
    ("ret-mismatch", "def mf_20(a: Qint[2]) -> bool:\n\treturn a"),
    ("ret-mismatch", "def mf_21(a: bool) -> Qint[2]:\n\treturn a"),
    ("bool-plus-int", "def mf_22(a: Qint[2], b: bool) -> Qint[2]:\n\treturn a + b"),
    ("bool-plus-bool", "def mf_23(a: bool, b: bool) -> bool:\n\treturn a + b"),
    ("not-int", "def mf_24(a: Qint[2]) -> bool:\n\treturn not a"),
    ("and-int", "def mf_25(a: Qint[2], b: Qint[2]) -> bool:\n\treturn a and b"),
    ("shift-var", "def mf_26(a: Qint[2], b: Qint[2]) -> Qint[2]:\n\treturn a << b"),
    ("tuple-arith", "def mf_27(t: Tuple[Qint[2], Qint[2]]) -> Qint[2]:\n\treturn t + 1"),
    ("cmp-bool-int", "def mf_28(a: Qint[2], b: bool) -> bool:\n\treturn a == b"),
    ("lt-bool", "def mf_29(a: bool, b: bool) -> bool:\n\treturn a < b"),
    ("invert-bool", "def mf_30(a: bool) -> bool:\n\treturn ~a"),
    ("two-returns", "def mf_31(a: bool) -> bool:\n\treturn a\n\treturn not a"),
    ("reserved-name", "def mf_32(a: bool) -> bool:\n\t__x = a\n\treturn __x"),
    ("const-too-big", "def mf_33(a: Qint[2]) -> Qint[16]:\n\treturn a + 70000"),
    ("subscript-expr", "def mf_34(a: Qint[2], b: Qint[2]) -> bool:\n\treturn (a + b)[0]"),
    ("pow-var", "def mf_35(a: Qint[2], b: Qint[2]) -> Qint[4]:\n\treturn a ** b"),
    ("in", "def mf_36(a: Qint[2]) -> bool:\n\treturn a in [1, 2]"),
    ("mod-nonpow2", "def mf_37(a: Qint[4]) -> Qint[4]:\n\treturn a % 3"),
    ("mod-var", "def mf_38(a: Qint[4], b: Qint[4]) -> Qint[4]:\n\treturn a % b"),
    ("neg-index", "def mf_39(a: Qint[4]) -> bool:\n\treturn a[-1]"),
    ("ord-small", "def mf_40(c: Qchar) -> bool:\n\treturn ord(c) < 100"),
    # python cannot run these (TypeError: object of type 'int' has no len() / is not iterable): refused since 5e521a1
    ("len-scalar", "def mf_41(a: Qint[2]) -> Qint[2]:\n\treturn len(a)"),
    ("sum-scalar", "def mf_42(a: Qint[2]) -> Qint[2]:\n\treturn sum(a)"),
    ("max-scalar", "def mf_43(a: Qint[2]) -> Qint[2]:\n\treturn max(a)"),
    ("min-scalar", "def mf_44(a: Qint[2]) -> Qint[2]:\n\treturn min(a)"),
    ("any-scalar", "def mf_45(a: bool) -> bool:\n\treturn any(a)"),
    ("all-scalar", "def mf_46(a: bool) -> bool:\n\treturn all(a)"),
    ("len-bool", "def mf_47(a: bool) -> Qint[2]:\n\treturn len(a)"),
]


def gen_stmt_program(rng, k):
    """random straight-line / if / for program over mixed-width Qint and bool arguments"""
    n = rng.randint(1, 3)
    ivars, bvars, args, bits = [], [], [], 0
    for i in range(n):
        name = "abc"[i]
        if rng.random() < 0.25:
            bvars.append(name)
            args.append(f"{name}: bool")
            bits += 1
        else:
            w = rng.choice([2, 3, 4] if bits < 5 else [2])
            ivars.append((name, w))
            args.append(f"{name}: Qint[{w}]")
            bits += w
    if not ivars:
        ivars.append(("a", 2))
        args = ["a: Qint[2]"] + [x for x in args if not x.startswith("a:")]
    body = []
    locs = []
    for i in range(rng.randint(1, 4)):
        r = rng.random()
        pool = ivars + [(v, 0) for v in locs]
        if r < 0.45 or not locs:
            v = f"t{len(locs)}"
            body.append(f"\t{v} = {progs.gen_int_expr(rng, pool, bvars, rng.randint(1, 2), allow_mul=not locs)}")
            locs.append(v)
        elif r < 0.6:
            v = rng.choice(locs)
            op = rng.choice(["+=", "-=", "^=", "&=", "|=", "+=", "-=", "*="])
            body.append(f"\t{v} {op} {progs.gen_int_expr(rng, pool, bvars, 1, allow_mul=False)}")
        elif r < 0.85:
            v = rng.choice(locs)
            c = progs.gen_cmp(rng, pool, bvars, 1)
            body.append(f"\tif {c}:\n\t\t{v} = {progs.gen_int_expr(rng, pool, bvars, 1, allow_mul=False)}")
            if rng.random() < 0.5:
                v2 = rng.choice(locs)
                body.append(f"\telse:\n\t\t{v2} = {progs.gen_int_expr(rng, pool, bvars, 1, allow_mul=False)}")
        else:
            v = rng.choice(locs)
            body.append(f"\tfor i in range({rng.randint(1, 3)}):\n\t\t{v} = {v} {rng.choice(['+', '^', '-'])} "
                        f"{rng.choice([x[0] for x in pool] + ['i', '(i + 1)'])}")
    pool = ivars + [(v, 0) for v in locs]
    if rng.random() < 0.3:
        ret, e = "bool", progs.gen_cmp(rng, pool, bvars, 1)
    else:
        ret, e = f"Qint[{rng.choice([2, 3, 4, 6, 8])}]", progs.gen_int_expr(rng, pool, bvars, 1, allow_mul=False)
    body.append(f"\treturn {e}")
    return f"def fns_{k}({', '.join(args)}) -> {ret}:\n" + "\n".join(body)


# ----------------------------------------------------------------------------- one program
def active_quirks(ctx):
    return sorted({f.get("quirk") for f in ctx.findings
                   if f.get("status", "open") == "open" and f.get("_active") and f.get("quirk")})


def findings_by_quirk(ctx):
    return {f["quirk"]: f for f in ctx.findings
            if f.get("status", "open") == "open" and f.get("_active") and f.get("quirk")}


class Case:
    """everything observed about one program on the real code and by the oracle"""

    def __init__(self, tag, src):
        self.tag, self.src = tag, src
        self.prog = None
        self.parse_error = None
        self.code = {}          # profile -> compile dict
        self.rows = None        # truth table rows of the code (fast profile)
        self.failing = []       # [(row index, what, code bits, expected)]
        self.oracle = "ok"      # ok | reject:<why> | malformed:<why>
        self.events = set()     # oracle events
        self.violations = []    # (what, detail) not subject to attribution
        self.free = []          # symbols read that are neither argument bits nor defined earlier
        self.missing = []       # return bits never defined
        self.accept_disagree = None
        self.main = None        # the profile whose output is judged
        self.timeout = False
        self.expected = None    # per row list of expected bits (None = unclaimed)
        self.exact = None       # per row (exact python value, k) of the oracle for bool / Qint returns, else None
        self.cpython_rows = 0   # rows on which the oracle's exact value was cross-checked against CPython itself
        self.a2a_real = None    # the real ast2ast on a fresh parse of the source: serialised tree or exception
        self.ks = None          # wide programs: the sampled row numbers (None = every row 0 .. 2^n - 1)
        self.heavy = False      # wide products: the Lean model's expressions cannot be walked as trees
        self.row_kinds = {}

    def rown(self, i):
        """row number of position i of self.rows / self.expected"""
        return i if self.ks is None else self.ks[i]


def observe(lib, tag, src, profiles=("fast", "default"), budget=15, ks=None, heavy=False):
    import signal

    old = signal.signal(signal.SIGALRM, _alarm)
    # the timer repeats: a bare `except:` inside the library or sympy may swallow one alarm
    signal.setitimer(signal.ITIMER_REAL, budget, 0.5)
    try:
        c = _observe(lib, tag, src, profiles, ks, heavy)
        signal.setitimer(signal.ITIMER_REAL, 0)
        return c
    except _Timeout:
        signal.setitimer(signal.ITIMER_REAL, 0)
        c = Case(tag, src)
        c.timeout = True
        c.ks, c.heavy = ks, heavy
        c.main = profiles[0]
        c.code = {p: dict(ok=False, error="timeout", tree=None, consts=[]) for p in profiles}
        return c
    finally:
        signal.setitimer(signal.ITIMER_REAL, 0)
        signal.signal(signal.SIGALRM, old)


def _observe(lib, tag, src, profiles=("fast", "default"), ks=None, heavy=False):
    c = Case(tag, src)
    c.ks, c.heavy = ks, heavy
    wide = ks is not None
    try:
        c.prog = pysem.Program(src)
    except pysem.Reject as e:
        c.oracle = f"reject:{e}"
    except pysem.Malformed as e:
        c.oracle = f"malformed:{e}"
    except SyntaxError as e:
        c.oracle = f"malformed:syntax {e}"
    c.a2a_real = a2a.real_result(lib.ast2ast, src)
    for p in profiles:
        c.code[p] = lib.compile(src, p, dag=wide)
    oks = {p: c.code[p]["ok"] for p in profiles}
    c.main = next((p for p in profiles if oks[p]), profiles[0])
    first = c.code[c.main]
    if len(set(oks.values())) > 1:
        c.accept_disagree = oks
    if not first["ok"]:
        return c
    if first.get("bad_expr"):
        c.violations.append(("an expression is not a boolean formula", first["bad_expr"]))
        return c
    if wide and c.prog is not None and first["argbits"] != c.prog.argbits:
        # the row numbers were chosen for the declared argument layout
        c.violations.append(("bit-name layout of arguments / return value differs from the declared types",
                             dict(code_args=first["argbits"], code_ret=first["retbits"],
                                  expected_args=c.prog.argbits, expected_ret=c.prog.retbits)))
        return c
    if wide:
        rows, free, missing = code_rows(first, ks)
    else:
        rows, free, missing = code_table(first["defs"], first["argbits"], first["retbits"])
    c.rows, c.free, c.missing = rows, free, missing
    for p in profiles:
        o = c.code[p]
        if p == c.main or not o["ok"] or free or missing:
            continue
        if o.get("bad_expr"):
            c.violations.append((f"profile {p}: an expression is not a boolean formula", o["bad_expr"]))
            continue
        if wide and o["argbits"] != first["argbits"]:
            r2, f2, m2 = None, [], []
        elif wide:
            r2, f2, m2 = code_rows(o, ks)
        else:
            r2, f2, m2 = code_table(o["defs"], o["argbits"], o["retbits"])
        if r2 != rows or o["argbits"] != first["argbits"] or o["retbits"] != first["retbits"] or f2 or m2:
            bad = next((i for i, (x, y) in enumerate(zip(rows, r2 or [])) if x != y), None)
            c.violations.append((f"profile {p} gives a different function than profile {c.main}",
                                 dict(row=None if bad is None else c.rown(bad), free=f2, missing=m2,
                                      code=None if bad is None else [rows[bad], r2[bad]])))
    if c.prog is None:
        return c
    if first["argbits"] != c.prog.argbits or first["retbits"] != c.prog.retbits:
        c.violations.append(("bit-name layout of arguments / return value differs from the declared types",
                             dict(code_args=first["argbits"], code_ret=first["retbits"],
                                  expected_args=c.prog.argbits, expected_ret=c.prog.retbits)))
        return c
    judge(c)
    return c


def judge(c, quirks=()):
    """compare c.rows with the oracle; fills c.failing / c.oracle / c.expected"""
    prog = c.prog
    n = len(prog.argbits)
    c.failing, c.expected = [], []
    c.exact = []
    for pos, k in enumerate(c.ks if c.ks is not None else range(2 ** n)):
        row = [bool((k >> i) & 1) for i in range(n)]
        try:
            v, ev = prog.run(row, quirks)
        except pysem.Reject as e:
            c.oracle = f"reject:{e}"
            c.expected = None
            return
        except pysem.Malformed as e:
            c.oracle = f"malformed:{e}"
            c.expected = None
            return
        c.events |= ev
        exp, wr = pysem.expected_bits(v)
        # self-check of the oracle: SemW agrees with Sem on every claimed bit
        for e_, w_ in zip(exp, wr):
            if e_ is not None and e_ != w_:
                raise RuntimeError(f"oracle inconsistency (Sem vs SemW) on {c.src!r} row {k}")
        # second self-check: the exact value of the hand-written statement semantics is the value CPython
        # itself returns for the source text (where the program is plain python over ints / bools / tuples)
        if not quirks:
            py = prog.cpython(row)
            if py is not None:
                c.cpython_rows += 1
                mine = [x.ex for x in pysem.flatten(v)]
                if len(py) != len(mine) or any(int(p_) != int(m_) for p_, m_ in zip(py, mine)):
                    raise RuntimeError(f"oracle inconsistency (pysem vs CPython) on {c.src!r} row {k}: "
                                       f"pysem {mine} CPython {py}")
        c.expected.append(exp)
        c.exact.append((int(v.ex), v.k) if v.items is None and v.ty[0] in ("bool", "qint") else None)
        got = c.rows[pos]
        if len(got) != len(exp):
            c.violations.append(("number of return bits", dict(code=len(got), expected=len(exp))))
            return
        bad = [i for i, e_ in enumerate(exp) if e_ is not None and (got[i] == "1") != e_]
        if bad:
            c.failing.append((k, bad, got, "".join("?" if e_ is None else ("1" if e_ else "0") for e_ in exp)))


def satisfies(expected, rows):
    for exp, got in zip(expected, rows):
        for i, e_ in enumerate(exp):
            if e_ is not None and (got[i] == "1") != e_:
                return False
    return True


def table_rows(table, nret):
    return [table[i:i + nret] for i in range(0, len(table), nret)] if nret else []


def case_json(c, **kw):
    d = dict(tag=c.tag, src=c.src)
    if c.ks is not None:
        # a wide program is judged on sampled rows: the replay evaluates the same ones
        d["ks"], d["heavy"], d["profiles"] = c.ks, c.heavy, sorted(c.code)
    d.update(kw)
    return d


def settle(ctx, res, cases, stats):
    """model correspondence + attribution for a batch of observed cases"""
    aq = active_quirks(ctx)
    byq = findings_by_quirk(ctx)
    reqs, idx, sem_idx = [], [], []
    for ci, c in enumerate(cases):
        first = c.code[c.main]
        if c.prog is None or first.get("tree") is None:
            continue
        r = model_request(c.prog, first["tree"], first["consts"], aq, table=not c.heavy, rows=c.ks)
        if r is None:
            stats["outside_model"] += 1
            continue
        idx.append((ci, len(reqs)))
        reqs.append(r)
        if suspicious(c):
            r2 = dict(r)
            r2["quirks"] = []
            reqs.append(r2)
        # the Lean reference semantics (QV.Sem.semProg) of the same tree
        sem_idx.append((ci, len(reqs)))
        rs = dict(op="c01.semw", args=r["args"], ret=r["ret"], body=r["body"])
        if c.ks is not None:
            rs["rows"] = c.ks
        reqs.append(rs)
    # the Lean model of ast2ast on the *source* tree (before any pass) against the real pass
    a2a_idx = []
    for ci, c in enumerate(cases):
        if c.a2a_real is None:
            continue
        r = a2a.source_request(c.src)
        if r is not None:
            typed = None
            if c.prog is not None:
                targs = [[n, pysem.ty_json(t)] for n, t in c.prog.args]
                tret = pysem.ty_json(c.prog.ret)
                if tret is not None and all(t is not None for _, t in targs):
                    typed = (targs, tret)
                    r["targs"], r["ret"] = targs, tret
            a2a_idx.append((ci, len(reqs), typed is not None))
            reqs.append(r)
            if typed is not None:
                # the Lean source-level semantics (QV.A2A.execProg) of the source tree
                rs = dict(op="c01.semsrc", args=typed[0], ret=typed[1], body=r["body"])
                if c.ks is not None:
                    rs["rows"] = c.ks
                reqs.append(rs)
    replies = ctx.model(reqs) if reqs else []
    model_of = {}
    if replies is not None:
        for ci, ri, typed in a2a_idx:
            first_ = cases[ci].code.get(cases[ci].main) or {}
            check_a2a(res, case_json(cases[ci]), replies[ri], cases[ci].a2a_real, first_.get("tree"), stats,
                      accepted=bool(first_.get("ok")), expr_rules=reqs[ri].get("expr_rules"))
            if typed:
                check_semsrc(res, cases[ci], replies[ri + 1], stats)
        for ci, ri in idx:
            c = cases[ci]
            model_of[ci] = (replies[ri], replies[ri + 1] if suspicious(c) else None)
        for ci, ri in sem_idx:
            check_semw(res, cases[ci], replies[ri], model_of[ci][0], aq, stats)
    for ci, c in enumerate(cases):
        first = c.code[c.main]
        cj = case_json(c)
        m, m0 = model_of.get(ci, (None, None))
        corr_ok = None
        if m is not None:
            stats["model_compared"] += 1
            if "driver_error" in m:
                res.disagree(cj, "model driver error", model=m)
                corr_ok = False
            elif first["ok"] and "error" in m:
                res.disagree(cj, "the code accepts a program the model rejects", model=m["error"])
                corr_ok = False
            elif not first["ok"] and "error" not in m:
                res.disagree(cj, "the code rejects a program the model accepts", code=first["error"])
                corr_ok = False
            elif first["ok"] and c.rows is None:
                corr_ok = None
            elif first["ok"]:
                mrows = table_rows(m["table"], len(m["retbits"])) if m.get("table") is not None else None
                if m["argbits"] != first["argbits"] or m["retbits"] != first["retbits"]:
                    res.disagree(cj, "bit-name layout differs", code=[first["argbits"], first["retbits"]],
                                 model=[m["argbits"], m["retbits"]])
                    corr_ok = False
                elif mrows is None:
                    # a wide product: the model's expressions cannot be walked as trees; acceptance and layout
                    # are compared here, the values through Lean SemW (check_semw) and `c01.arith` (staged)
                    stats["wide_model_table_skipped"] = stats.get("wide_model_table_skipped", 0) + 1
                    corr_ok = None
                elif m.get("free", []) != c.free:
                    res.disagree(cj, "undefined symbols read differ", code=c.free, model=m.get("free"))
                    corr_ok = False
                elif mrows != c.rows:
                    bad = next((i for i, (x, y) in enumerate(zip(c.rows, mrows)) if x != y), None)
                    res.disagree(case_json(c, row=None if bad is None else c.rown(bad)), "truth table of the return bits differs",
                                 code=c.rows[bad] if bad is not None else None,
                                 model=mrows[bad] if bad is not None and bad < len(mrows) else None,
                                 consts=first["consts"])
                    corr_ok = False
                else:
                    corr_ok = True
            else:
                corr_ok = True
        # ---- verdict on the code
        for what, detail in c.violations:
            res.violation(cj, what, detail=detail)
        malformed_tag = c.tag.startswith("malformed")
        if c.timeout:
            stats["timeouts"] = stats.get("timeouts", 0) + 1
            stats.setdefault("timeout_samples", [])
            if len(stats["timeout_samples"]) < 5:
                stats["timeout_samples"].append(c.src)
            continue
        if not first["ok"]:
            if malformed_tag:
                stats["malformed_rejected"] += 1
            else:
                stats["rejected"] += 1
                stats.setdefault("rejected_samples", [])
                if len(stats["rejected_samples"]) < 12:
                    stats["rejected_samples"].append([c.tag, c.src, first["error"]])
            continue
        what = None
        if c.free or c.missing:
            what = ("the expressions read symbols that are neither argument bits nor defined earlier, or do not "
                    "define every return bit")
        elif c.accept_disagree:
            what = "the two optimizer profiles disagree on acceptance"
        elif c.oracle.startswith("malformed"):
            what = "the library accepts a program that has no meaning: " + c.oracle
        elif c.failing:
            what = "return bits differ from the python meaning of the source"
        elif malformed_tag and c.expected is None:
            what = "a program outside the documented subset is accepted and its translation cannot be judged: " + c.oracle
        if what is None:
            if malformed_tag:
                stats["malformed_accepted_but_right"] += 1
            elif c.oracle.startswith("reject"):
                stats["oracle_undefined"] += 1
            continue
        if attribute(ctx, res, c, m, m0, corr_ok, byq):
            continue
        if c.failing:
            k, bad, got, exp = c.failing[0]
            res.violation(case_json(c, row=k, args=row_values(c.prog, k)), what, code=got, expected=exp,
                          wrong_bits=bad, failing_rows=len(c.failing), events=(m or {}).get("events"))
        else:
            res.violation(cj, what, free=c.free, missing=c.missing, accept=c.accept_disagree,
                          events=(m or {}).get("events"))


def a2a_stats(stats):
    return stats.setdefault("ast2ast", dict(programs=0, inside_model=0, agree_tree=0, agree_exception=0, outside_model=0,
                                            differ=0, rules={}, outside_reasons={}, exceptions={}))


def check_semsrc(res, c, sem, stats):
    """the Lean source-level semantics with control flow (QV.A2A.execProg after the constant folding of the source;
    the one ast2ast_if_preserved / C01_if / C01_for speak of) against the python oracle on the same source text:
    every bit pysem claims must be its bit.  Rows / programs where it gives no meaning are counted, never compared."""
    st = a2a_stats(stats)
    for k_ in ("semsrc_programs", "semsrc_defined_programs", "semsrc_rows", "semsrc_claimed_bits"):
        st.setdefault(k_, 0)
    if sem is None or "driver_error" in sem:
        res.disagree(case_json(c), "Lean source-level semantics: driver error", model=sem)
        return
    rows = sem.get("rows")
    st["semsrc_programs"] += 1
    if rows is None or c.expected is None or c.oracle != "ok" or len(c.expected) != len(rows):
        return
    if any(r is not None for r in rows):
        st["semsrc_defined_programs"] += 1
    for k, (exp, got) in enumerate(zip(c.expected, rows)):
        if got is None:
            continue
        st["semsrc_rows"] += 1
        bad = len(got) != len(exp) or [i for i, e_ in enumerate(exp) if e_ is not None and (got[i] == "1") != e_]
        st["semsrc_claimed_bits"] += sum(1 for e_ in exp if e_ is not None)
        if bad:
            res.disagree(case_json(c, row=c.rown(k), args=row_values(c.prog, c.rown(k))),
                         "Lean source-level semantics (execProg) differs from the python oracle on a claimed bit",
                         model=got, expected="".join("?" if e_ is None else ("1" if e_ else "0") for e_ in exp))
            return


def check_a2a(res, cj, m, real, captured, stats, accepted=None, expr_rules=None):
    """the Lean model of `ast2ast` (QV.A2A.ast2ast, driver op c01.ast2ast) on the source tree against the real pass on a
    fresh parse of the same text: same exception (class, and the message contains the model's key) or the same
    tree after the canonical serialisation of harness/a2a.py (every node), and the same Front syntax (`toP` of the
    model = `pexp` / `stmt_json` here).  `outside` = the program uses a rewrite the model leaves to the real pass."""
    st = a2a_stats(stats)
    st["programs"] += 1
    front = None
    if "tree" in real:
        front = [stmt_json(s) for s in real["tree"].body]
        if captured is not None and [a2a.ss(s) for s in captured.body] != real["body"]:
            res.disagree(cj, "ast2ast: the tree handed to translate_ast differs from a direct call of the real ast2ast "
                             "on the same source text")
    v, d = a2a.compare(m, real, front)
    if v == "outside":
        st["outside_model"] += 1
        key = d.split(" ")[0] + " " + " ".join(d.split(" ")[1:3])
        st["outside_reasons"][key] = st["outside_reasons"].get(key, 0) + 1
        return
    st["inside_model"] += 1
    if v == "differ":
        st["differ"] += 1
        res.disagree(cj, "ast2ast: the Lean model of the rewriting pass differs from the real pass: " + d.get("what", ""),
                     **{k: x for k, x in d.items() if k != "what"})
        return
    if v == "agree-exception":
        st["agree_exception"] += 1
        st["exceptions"][d] = st["exceptions"].get(d, 0) + 1
    else:
        st["agree_tree"] += 1
    for r in (m.get("rules") or []):
        st["rules"][r] = st["rules"].get(r, 0) + 1
    er = st.setdefault("expr_rules", {})
    for r in (expr_rules or []):
        er[r] = er.get(r, 0) + 1
    cls = m.get("class")
    if cls is not None:
        tc = st.setdefault("theorem_classes", dict(typed_programs=0, straightLine=0, guardedLine=0, okProg=0,
                                                    C01_if_all_hypotheses=0, of_which_with_if=0, of_which_with_for=0,
                                                    of_which_straight_line_source=0))
        tc["typed_programs"] += 1
        tc["straightLine"] += bool(cls["straightLine"])
        tc["guardedLine"] += bool(cls["guardedLine"])
        tc["okProg"] += bool(cls["okProg"])
        if cls["okProg"] and cls["stable"] and cls["guardedLine"] and accepted:
            tc["C01_if_all_hypotheses"] += 1
            tc["of_which_with_if"] += bool(cls["hasIf"])
            tc["of_which_with_for"] += bool(cls["hasFor"])
            tc["of_which_straight_line_source"] += not (cls["hasIf"] or cls["hasFor"])


def run_a2a_forms(ctx, lib, res, stats):
    """one program per rewriting rule / quirk / exception of ast2ast: correspondence only"""
    reqs, cases = [], []
    for tag, src in list(a2a.A2A_FORMS) + [("x:" + t, s_) for t, s_ in a2a.EXPR_FORMS]:
        r = a2a.source_request(src)
        if r is not None:
            reqs.append(r)
            cases.append((tag, src))
    replies = ctx.model(reqs)
    if replies is None:
        return
    for (tag, src), m, rq in zip(cases, replies, reqs):
        check_a2a(res, dict(tag="a2a:" + tag, src=src), m, a2a.real_result(lib.ast2ast, src), None, stats,
                  expr_rules=rq.get("expr_rules"))
    a2a_stats(stats)["rewrite_forms"] = len(cases)


def _has_value_subscript(src):
    """a subscript with a non-constant index in the *body* of the function (annotations like Qint[2] do not count)"""
    fn = ast.parse(src).body[0]
    for st in fn.body:
        for n_ in ast.walk(st):
            if isinstance(n_, ast.Subscript) and not isinstance(n_.slice, ast.Constant):
                return True
    return False


def check_semw(res, c, sem, m, aq, stats):
    """the Lean reference semantics SemW / SemT (lean/QV/Model/Sem.lean, SemT.lean: the ones the theorems C01_expr /
    C01_expr_struct speak of; SemT = SemW widened to tuples and Qchar) against
    (a) the independent python oracle: every bit pysem claims (exact, or low bits of wrap-around arithmetic) must be
        SemW's bit;  (b) the Lean translator model without quirks reached: all bits, every row (what C01_expr proves
        on its fragment, observed on the wider one).  Rows where SemW gives no meaning (outside its fragment) are
        counted, never compared."""
    for k_ in ("semw_programs", "semw_defined_programs", "semw_rows", "semw_rows_undefined", "semw_claimed_bits",
               "semw_model_rows"):
        stats.setdefault(k_, 0)
    if sem is None or "driver_error" in sem:
        res.disagree(case_json(c), "Lean SemW: driver error", model=sem)
        return
    rows = sem.get("rows", [])
    stats["semw_programs"] += 1
    if any(r is not None for r in rows):
        stats["semw_defined_programs"] += 1
    stats["semw_rows_undefined"] += sum(1 for r in rows if r is None)
    # `rows` is the widened semantics SemT (tuples, Qchar; lean/QV/Model/SemT.lean); the driver has checked that it
    # equals SemW wherever SemW alone gives a meaning (`semw_rows_defined` rows).  Which programs the theorems cover:
    # C01_body (straightLine) / C01_body_struct (structLine + wellProg on every row), accepted by the model
    for k_ in ("semw_only_defined_programs", "semt_rows_beyond_semw", "thm_straight_line_programs",
               "thm_struct_line_programs", "thm_struct_not_straight_programs"):
        stats.setdefault(k_, 0)
    if sem.get("semw_rows_defined"):
        stats["semw_only_defined_programs"] += 1
    stats["semt_rows_beyond_semw"] += sum(1 for r in rows if r is not None) - (sem.get("semw_rows_defined") or 0)
    accepted = m is not None and "error" not in m and "driver_error" not in m
    if accepted and sem.get("straight_line"):
        stats["thm_straight_line_programs"] += 1
    if accepted and sem.get("struct_line") and sem.get("well"):
        stats["thm_struct_line_programs"] += 1
        if not sem.get("straight_line"):
            stats["thm_struct_not_straight_programs"] += 1
            if any(r is None for r in rows):
                res.disagree(case_json(c), "Lean SemT gives no meaning to a program that satisfies every hypothesis of "
                             "C01_body_struct (the statement of the theorem fails on this input)", model=rows[:4])
                return
    # (a) against pysem
    if c.expected is not None and c.oracle == "ok" and len(c.expected) == len(rows):
        for k, (exp, got) in enumerate(zip(c.expected, rows)):
            if got is None:
                continue
            stats["semw_rows"] += 1
            if len(got) != len(exp):
                res.disagree(case_json(c, row=c.rown(k)), "Lean SemW: number of return bits differs from the python oracle",
                             model=got, expected=len(exp))
                return
            bad = [i for i, e_ in enumerate(exp) if e_ is not None and (got[i] == "1") != e_]
            stats["semw_claimed_bits"] += sum(1 for e_ in exp if e_ is not None)
            if bad:
                res.disagree(case_json(c, row=c.rown(k), args=row_values(c.prog, c.rown(k))),
                             "Lean SemW differs from the python oracle (harness/pysem.py) on a claimed bit",
                             model=got, expected="".join("?" if e_ is None else ("1" if e_ else "0") for e_ in exp),
                             wrong_bits=bad)
                return
    # (a') the Lean exact semantics `Sem` / `inRange` (lean/QV/Model/SemX.lean, theorems semW_eq_sem /
    # semW_low_bits / C01_straightline) against pysem's Sem: python value, number of claimed low bits,
    # the claimed bits themselves and the in-range flag, on every row where both give a meaning
    for k_ in ("sem_rows", "sem_inrange_rows", "sem_lowbit_rows", "sem_rows_undefined"):
        stats.setdefault(k_, 0)
    exact = sem.get("exact")
    if exact is None:
        res.disagree(case_json(c), "Lean Sem: the driver reply has no 'exact' rows", model=sorted(sem))
        return
    try:
        var_index = _has_value_subscript(c.src)
    except (SyntaxError, IndexError, AttributeError):
        var_index = False
    if c.expected is not None and c.oracle == "ok" and c.exact is not None and len(c.exact) == len(exact) \
            and len(c.expected) == len(exact):
        for k, (py, lean, exp) in enumerate(zip(c.exact, exact, c.expected)):
            if lean is None:
                stats["sem_rows_undefined"] += 1
                continue
            lx, lk, lclaim, linr = lean
            pclaim = "".join("?" if e_ is None else ("1" if e_ else "0") for e_ in exp)
            if py is None:
                # Qchar / tuple return: the widened exact semantics (lean/QV/Model/SemXT.lean) claims leaf by leaf;
                # pysem's claimed bits must be the same string, and every claimed bit must be SemT's bit
                stats.setdefault("sem_struct_rows", 0)
                stats["sem_struct_rows"] += 1
                if lclaim != pclaim:
                    res.disagree(case_json(c, row=c.rown(k), args=row_values(c.prog, c.rown(k))),
                                 "Lean SemXT (tuple / Qchar return) claims other bits than the python oracle",
                                 model=lclaim, expected=pclaim)
                    return
                got = rows[k]
                if got is not None and any(ch != "?" and ch != g for ch, g in zip(lclaim, got)):
                    res.disagree(case_json(c, row=c.rown(k)), "Lean SemT differs from Lean SemXT on a claimed bit "
                                 "(the statement of C01_straightline_struct fails on this input)", semt=got, sem=lclaim)
                    return
                continue
            stats["sem_rows"] += 1
            if linr:
                stats["sem_inrange_rows"] += 1
            elif lk:
                stats["sem_lowbit_rows"] += 1
            if var_index:
                # `t[i]` with a variable index: python raises IndexError where `i` is out of range (the oracle claims
                # nothing there), the tree ast2ast leaves is an if-chain that ends in the last element and Lean Sem
                # is the meaning of that tree: it may claim more.  Wherever the oracle claims, both must agree.
                if lx != py[0] and py[1] is None or any(p_ != "?" and p_ != l_ for p_, l_ in zip(pclaim, lclaim)):
                    res.disagree(case_json(c, row=c.rown(k), args=row_values(c.prog, c.rown(k))),
                                 "Lean Sem differs from the python oracle on a claimed bit (variable subscript)",
                                 model=[lx, lk, lclaim, linr], expected=[py[0], py[1], pclaim, py[1] is None])
                    return
            elif (lx, lk, lclaim, linr) != (py[0], py[1], pclaim, py[1] is None):
                res.disagree(case_json(c, row=c.rown(k), args=row_values(c.prog, c.rown(k))),
                             "Lean Sem / inRange differs from the python oracle (value, claimed low bits, claim, in-range flag)",
                             model=[lx, lk, lclaim, linr], expected=[py[0], py[1], pclaim, py[1] is None])
                return
            # the theorem semW_eq_sem / semW_low_bits observed: every claimed bit is SemW's bit
            got = rows[k]
            if got is not None and any(ch != "?" and ch != g for ch, g in zip(lclaim, got)):
                res.disagree(case_json(c, row=c.rown(k)), "Lean SemW differs from Lean Sem on a claimed bit "
                             "(the statement of semW_low_bits fails on this input)", semw=got, sem=lclaim)
                return
    # (b) against the Lean translator (only when no quirk site was reached: the table is then that of Quirks.none)
    if m is not None and "error" not in m and "driver_error" not in m and m.get("table") is not None:
        reached = {QUIRK_EVENT.get(q) for q in aq} & set(m.get("events", []))
        if not reached and not m.get("free"):
            mrows = table_rows(m["table"], len(m["retbits"]))
            if len(mrows) == len(rows):
                for k, (x, y) in enumerate(zip(mrows, rows)):
                    if y is None:
                        continue
                    stats["semw_model_rows"] += 1
                    if x != y:
                        res.disagree(case_json(c, row=c.rown(k)), "Lean SemW differs from the Lean translator model "
                                     "(the statement of C01_expr fails on this input)", model=x, semw=y)
                        return


def suspicious(c):
    return bool(c.failing or c.free or c.missing or c.accept_disagree or c.oracle.startswith("malformed")
                or (c.tag.startswith("malformed") and c.code[c.main]["ok"]))


def row_values(prog, k):
    out, p = {}, 0
    for n, t in prog.args:
        w = pysem.ty_bits(t)
        out[n] = "".join("1" if (k >> (p + i)) & 1 else "0" for i in range(w)) + " (bit0 first)"
        p += w
    return out


def attribute(ctx, res, c, m, m0, corr_ok, byq):
    """True when everything wrong with c is explained by open, active findings: the finding's event
    occurred, the quirk-model equals the code bit for bit, the repaired model is right (or rejects)"""
    if not byq or not corr_ok:
        return False
    hit = []
    # defects of ast2ast emulated by the oracle
    for qk in ORACLE_QUIRKS:
        if qk in byq and QUIRK_EVENT[qk] in c.events and c.rows is not None and not c.free and not c.missing:
            c2 = Case(c.tag, c.src)
            c2.prog, c2.rows, c2.ks = c.prog, c.rows, c.ks
            judge(c2, quirks=(qk,))
            if not c2.failing and c2.expected is not None:
                hit.append(qk)
    if not hit:
        if m is None or m0 is None or "error" in m:
            return False
        ev = set(m.get("events", []))
        cand = [qk for qk in byq if qk not in ORACLE_QUIRKS and QUIRK_EVENT.get(qk) in ev]
        if not cand:
            return False
        if "error" in m0:
            # the repaired library rejects the program: that explains everything
            if not (set(cand) & REJECTING):
                return False
        else:
            if m0.get("free") or c.expected is None or m0.get("table") is None:
                return False
            rows0 = table_rows(m0["table"], len(m0["retbits"]))
            if len(rows0) != len(c.expected) or not satisfies(c.expected, rows0):
                return False
            missing0 = [r for r in m0["retbits"] if r not in m0.get("defined", [])]
            if missing0:
                return False
        hit = cand
    for qk in hit:
        res.known(byq[qk]["id"])
    return True


# ----------------------------------------------------------------------------- library functions one by one
def arith_cases():
    out = []
    fns = ["eq", "neq", "gt", "lt", "lte", "gte", "add", "sub", "mul", "xor", "and", "or"]
    for fn in fns:
        for wl in (2, 3, 4):
            for wr in (2, 3, 4):
                out.append(dict(fn=fn, l=["var", "a", wl], r=["var", "b", wr]))
        for w in (2, 3):
            for cw, cv in ((2, 0), (2, 3), (4, 6), (4, 10), (4, 13), (6, 24)):
                out.append(dict(fn=fn, l=["var", "a", w], r=["const", cw, cv]))
                out.append(dict(fn=fn, l=["const", cw, cv], r=["var", "a", w]))
    for w in (2, 3, 4):
        for k in range(0, 6):
            out.append(dict(fn="shl", l=["var", "a", w], r=["const", 2, 0], k=k))
            out.append(dict(fn="shr", l=["var", "a", w], r=["const", 2, 0], k=k))
        out.append(dict(fn="not", l=["var", "a", w], r=["const", 2, 0]))
        for cv in (1, 2, 4, 8):
            out.append(dict(fn="mod", l=["var", "a", w], r=["const", 4, cv]))
    return out


def arith_real(lib, case):
    """the real QintImp function on symbolic operands -> (bits json list, names)"""
    out, names = arith_real_sym(lib, case)
    return [bexp.to_json(e) for e in out], names


def arith_expected(case, names, k):
    """own arithmetic: (value, width or None for bool) of the function on row k under the repaired typing"""
    def val(o, off):
        if o[0] == "var":
            return (k >> off) & (2 ** o[2] - 1), o[2], off + o[2]
        if o[0] == "mvar":      # a variable masked by a literal: the bits outside the mask are `False`
            return (k >> off) & (2 ** o[2] - 1) & o[3], o[2], off + o[2]
        return o[2] % 2 ** o[1], o[1], off
    a, wa, off = val(case["l"], 0)
    b, wb, off = val(case["r"], off)
    fn, s = case["fn"], case.get("k", 0)
    w = max(wa, wb)
    if fn in ("eq", "neq", "gt", "lt", "lte", "gte"):
        f = {"eq": a == b, "neq": a != b, "gt": a > b, "lt": a < b, "lte": a <= b, "gte": a >= b}[fn]
        return int(f), None
    if fn == "add":
        return (a + b) % 2 ** w, w
    if fn == "sub":
        return (a - b) % 2 ** w, w
    if fn == "mul":
        t = pysem.mul_sizing(2 * w)
        return (a * b) % 2 ** t, t
    if fn == "xor":
        return a ^ b, w
    if fn == "and":
        return a & b, w
    if fn == "or":
        return a | b, w
    if fn == "shl":
        return (a << s) % 2 ** wa, wa
    if fn == "shr":
        return a >> s, wa
    if fn == "not":
        return 2 ** wa - 1 - a, wa
    if fn == "mod":
        return a % b, w
    raise ValueError(fn)


ARITH_QUIRK = {"gt": "gtLeftNarrow", "lt": "gtLeftNarrow", "lte": "gtLeftNarrow", "gte": "gtLeftNarrow",
               "sub": "subLeftNarrow", "mul": "mulEvenConst"}


def run_arith(ctx, lib, res, stats):
    cases = arith_cases()
    aq = active_quirks(ctx)
    byq = findings_by_quirk(ctx)
    reqs = [dict(op="c01.arith", quirks=aq, **c) for c in cases]
    replies = ctx.model(reqs)
    for i, c in enumerate(cases):
        try:
            bits, names = arith_real(lib, c)
        except Exception as e:  # noqa
            res.violation(dict(arith=c), f"library function raised {type(e).__name__}: {e}")
            continue
        table = bexp.truth_table(names, bits)
        nb = len(bits)
        res.count(dict(arith=c), nontrivial=True, bucket="arith:" + c["fn"])
        wrong = None
        for k in range(2 ** len(names)):
            v, w = arith_expected(c, names, k)
            row = table[k * nb:(k + 1) * nb]
            if w is not None and nb != w:
                wrong = (k, f"width {nb} instead of {w}")
                break
            got = int(row[::-1], 2) if row else 0
            if got != v:
                wrong = (k, f"value {got} instead of {v}")
                break
        m = replies[i] if replies is not None else None
        same = m is not None and "driver_error" not in m and m["table"] == table and m["n"] == nb
        if m is not None and not same:
            res.disagree(dict(arith=c), "library function differs from the model", code=table, model=m)
        if wrong is not None:
            qk = ARITH_QUIRK.get(c["fn"])
            wl = c["l"][2] if c["l"][0] == "var" else c["l"][1]
            wr = c["r"][2] if c["r"][0] == "var" else c["r"][1]
            trig = False
            if qk in ("gtLeftNarrow", "subLeftNarrow"):
                trig = wl < wr
            elif qk == "mulEvenConst":
                cst = [o for o in (c["l"], c["r"]) if o[0] == "const"]
                trig = bool(cst) and cst[0][2] % 2 == 0
            if qk in byq and trig and same:
                res.known(byq[qk]["id"])
            else:
                res.violation(dict(arith=c, row=wrong[0]), "library function computes " + wrong[1], code=table)
    stats["arith_cases"] = len(cases)
    run_arith_wide(ctx, lib, res, stats, aq, byq)


def run_arith_wide(ctx, lib, res, stats, aq, byq):
    """the `QintImp` functions on operands of the largest shipped widths (Qint[12] / Qint[16] variables, literals at
    the edges of the constant types), on sampled rows: the real function's expressions (evaluated as a graph) against
    own integer arithmetic and against the Lean model of the function on the same rows - `mul` through
    `QV.Arith.qMulLit` (the line-by-line `mulRow`, the product list evaluated after every row)"""
    import random

    cases = c01wide.arith_cases(ctx.thorough)
    rng = random.Random("C01-wide-arith")
    cap = 160 if ctx.thorough else 64
    rows_of = [c01wide.arith_rows(c, rng, cap)[0] for c in cases]
    reqs = [dict(op="c01.arith", quirks=aq, rows=ks, **c) for c, ks in zip(cases, rows_of)]
    replies = ctx.model(reqs)
    n_rows = 0
    for i, (c, ks) in enumerate(zip(cases, rows_of)):
        case = dict(arith=c, rows=len(ks))
        res.count(dict(arith=c, wide=True), nontrivial=True, bucket="arith-wide:" + c["fn"])
        import signal
        old = signal.signal(signal.SIGALRM, _alarm)
        signal.setitimer(signal.ITIMER_REAL, 12 if ctx.thorough else 6, 0.5)
        try:
            from sympy import Symbol
            bits, names = arith_real_sym(lib, c)
            g = bexp.dag_of_defs([(f"_o.{j}", b) for j, b in enumerate(bits)], names)
            outs = [f"_o.{j}" for j in range(len(bits))]
            got_rows = bexp.dag_rows(g, names, outs, ks)
        except _Timeout:
            stats["timeouts"] = stats.get("timeouts", 0) + 1
            continue
        except Exception as e:  # noqa
            res.violation(case, f"library function raised {type(e).__name__}: {e}")
            continue
        finally:
            signal.setitimer(signal.ITIMER_REAL, 0)
            signal.signal(signal.SIGALRM, old)
        nb = len(bits)
        n_rows += len(ks)
        table = "".join(got_rows)
        wrong = None
        for k, row in zip(ks, got_rows):
            v, w = arith_expected(c, names, k)
            if w is not None and nb != w:
                wrong = (k, f"width {nb} instead of {w}")
                break
            got = int(row[::-1], 2) if row else 0
            if got != v:
                wrong = (k, f"value {got} instead of {v}")
                break
        m = replies[i] if replies is not None else None
        same = m is not None and "driver_error" not in m and m["table"] == table and m["n"] == nb
        if m is not None and not same:
            bad = None
            if "driver_error" not in m and m["n"] == nb:
                bad = next((ks[j] for j in range(len(ks)) if m["table"][j * nb:(j + 1) * nb] != got_rows[j]), None)
            res.disagree(dict(arith=c, row=bad, operands=arith_operands(c, bad)),
                         "library function differs from the model on a sampled row (wide operands)",
                         code=None if bad is None else got_rows[ks.index(bad)],
                         model=m if bad is None else m["table"][ks.index(bad) * nb:(ks.index(bad) + 1) * nb])
        if wrong is not None:
            res.violation(dict(arith=c, row=wrong[0], operands=arith_operands(c, wrong[0]), rows=ks),
                          "library function computes " + wrong[1] + " (wide operands)",
                          code=got_rows[ks.index(wrong[0])])
    stats["arith_wide_cases"] = len(cases)
    stats["arith_wide_rows"] = n_rows


def arith_operands(case, k):
    """the operand values of row k of a library-function case"""
    if k is None:
        return None
    out, off = {}, 0
    for o in (case["l"], case["r"]):
        if o[0] in ("var", "mvar"):
            out[o[1]] = (k >> off) & (2 ** o[2] - 1)
            off += o[2]
            if o[0] == "mvar":
                out[o[1] + "_mask"] = o[3]
        else:
            out["const"] = o[2]
    return out


def arith_real_sym(lib, case):
    """the real QintImp function on symbolic operands -> (sympy bits, names)"""
    from sympy import Symbol

    T = lib.q.types

    def operand(o):
        if o[0] in ("var", "mvar"):
            cls = getattr(T, f"Qint{o[2]}")
            names = [f"{o[1]}.{i}" for i in range(o[2])]
            mask = o[3] if o[0] == "mvar" else -1
            return (cls, [Symbol(n) if (mask >> i) & 1 else False for i, n in enumerate(names)]), names
        cls = getattr(T, f"Qint{o[1]}")
        return cls.const(o[2]), []

    (l, ln), (r, rn) = operand(case["l"]), operand(case["r"])
    fn, k = case["fn"], case.get("k", 0)
    Q = lib.QintImp
    if fn in ("eq", "neq", "gt", "lt", "lte", "gte"):
        out = [getattr(Q, fn)(l, r)[1]]
    elif fn in ("add", "sub", "mul", "mod"):
        out = getattr(l[0], fn)(l, r)[1]
    elif fn in ("xor", "and", "or"):
        out = getattr(l[0], "bitwise_" + fn)(l, r)[1]
    elif fn == "shl":
        out = l[0].shift_left(l, k)[1]
    elif fn == "shr":
        out = l[0].shift_right(l, k)[1]
    elif fn == "not":
        out = l[0].bitwise_not(l)[1]
    else:
        raise ValueError(fn)
    return list(out), ln + rn


# ----------------------------------------------------------------------------- wide programs
def observe_wide(lib, w, rng, thorough, wstats):
    """one program of harness/c01wide.py: rows sampled for its declared types, compiled with `dag=True`"""
    src = w["src"]
    try:
        prog = pysem.Program(src)
        cap = (320 if thorough else 110) if not w["heavy"] else (200 if thorough else 90)
        ks, kinds = c01wide.sample_rows(prog.args, prog.ret, rng, cap)
        nbits = len(prog.argbits)
        widths = [pysem.ty_bits(t) for _, t in prog.args]
    except (pysem.Reject, pysem.Malformed, SyntaxError):
        ks, kinds, nbits, widths = [0], {}, 0, []
    profiles = w.get("profiles") or ("none",)
    c = observe(lib, w["tag"], src, profiles=profiles, budget=14 if thorough else 6, ks=ks, heavy=w["heavy"])
    c.row_kinds = kinds
    wstats["programs"] += 1
    wstats["heavy_products"] += bool(w["heavy"])
    wstats["rows"] += len(ks)
    for k_, v in kinds.items():
        wstats["row_kinds"][k_] = wstats["row_kinds"].get(k_, 0) + v
    wstats["arg_bits"][str(nbits)] = wstats["arg_bits"].get(str(nbits), 0) + 1
    for x in widths:
        wstats["widths"][str(x)] = wstats["widths"].get(str(x), 0) + 1
    pk = "+".join(profiles)
    wstats["profiles"][pk] = wstats["profiles"].get(pk, 0) + 1
    if not c.timeout and c.code[c.main]["ok"]:
        wstats["accepted"] += 1
        if c.expected is not None:
            wstats["judged_rows"] += len(c.expected)
            wstats["claimed_bits"] += sum(1 for e in c.expected for b in e if b is not None)
            # rows whose (claimed) result has the top bit of the return type set / whose exact value left its range
            wstats["rows_top_bit_set"] = wstats.get("rows_top_bit_set", 0) + sum(1 for e in c.expected if e and e[-1] is True)
            wstats["rows_wrapped"] = wstats.get("rows_wrapped", 0) + sum(
                1 for x in (c.exact or []) if x is not None and x[1] is not None)
    return c


# ----------------------------------------------------------------------------- run
def nontrivial(c):
    return not c.timeout and c.prog is not None and c.code[c.main]["ok"] and c.oracle == "ok"


def run(ctx: Ctx) -> Result:
    res = Result("C01")
    res.rule = ("a case = one program through the real front end under both optimizer profiles, judged on every "
                "argument assignment (programs of the wide stream - Qint[12] / Qint[16] values, up to 48 argument bits - "
                "on sampled boundary / directed / pseudo-random rows, under the identity profile and, for a part, "
                "defaultOptimizer / fastOptimizer); non-trivial = accepted by the library and given a meaning by the "
                "oracle; arith / arith-wide = one QintImp function on symbolic operands")
    rng = ctx.rng
    stats = dict(outside_model=0, model_compared=0, rejected=0, oracle_undefined=0, malformed_rejected=0,
                 malformed_accepted_but_right=0, cpython_rows=0)
    stream = list(systematic())
    stream += [("malformed:" + n, s) for n, s in MALFORMED]
    n_int = 700 if ctx.thorough else 130
    n_bool = 150 if ctx.thorough else 25
    n_stmt = 450 if ctx.thorough else 90
    for k in range(n_int):
        stream.append(("rand:expr", progs.gen_int_program(rng, k, max_bits=8)))
    for k in range(n_bool):
        stream.append(("rand:bool", progs.gen_bool_program(rng, k)))
    for k in range(n_stmt):
        stream.append(("rand:stmt", gen_stmt_program(rng, k)))
    # drawn last: the streams above see the same random numbers as before this one existed
    for k in range(150 if ctx.thorough else 24):
        stream.append(("rand:ifself", gen_ifself_program(rng, k)))
    # the largest shipped widths, on sampled rows (harness/c01wide.py): the systematic slice has its own fixed
    # pseudo-random stream (same programs and rows for every seed); the randomised variants are drawn last
    wide = list(c01wide.programs(ctx.thorough))
    for k in range(120 if ctx.thorough else 14):
        wide.append(c01wide.gen_program(rng, k))
    import random as _random
    wrng = _random.Random("C01-wide-rows")
    wstats = stats.setdefault("wide", dict(programs=0, heavy_products=0, rows=0, row_kinds={}, arg_bits={},
                                           widths={}, profiles={}, accepted=0, judged_rows=0, claimed_bits=0))
    with Lib() as lib:
        run_arith(ctx, lib, res, stats)
        batch = []
        for tag, src in stream:
            c = observe(lib, tag, src, budget=6 if ctx.thorough else 5)
            res.count(dict(src=src), nontrivial=nontrivial(c), bucket=tag.split(":")[0] + ":" + tag.split(":")[1][:12])
            stats["cpython_rows"] += c.cpython_rows
            batch.append(c)
            if len(batch) >= 400:
                settle(ctx, res, batch, stats)
                batch = []
        for w in wide:
            c = observe_wide(lib, w, rng if w["tag"].startswith("rand:") else wrng, ctx.thorough, wstats)
            tg = w["tag"].split(":")
            res.count(dict(src=w["src"]), nontrivial=nontrivial(c), bucket=tg[0] + ":" + tg[1][:12])
            stats["cpython_rows"] += c.cpython_rows
            batch.append(c)
            if len(batch) >= 400:
                settle(ctx, res, batch, stats)
                batch = []
        # randomised chained comparisons: drawn after everything else (the wide stream draws rows from ctx.rng
        # while it is observed), so that every earlier stream keeps its random numbers
        for k in range(120 if ctx.thorough else 16):
            src = gen_cmpchain_program(rng, k)
            c = observe(lib, "rand:cmpchain", src, budget=6 if ctx.thorough else 5)
            res.count(dict(src=src), nontrivial=nontrivial(c), bucket="rand:cmpchain")
            stats["cpython_rows"] += c.cpython_rows
            batch.append(c)
        settle(ctx, res, batch, stats)
        run_a2a_forms(ctx, lib, res, stats)
    res.extra["c01"] = stats
    res.assumptions.append(
        "ast2ast (the AST normaliser): its statement-level rewriting (if / for / assignment forms, constant folding of "
        "int / bool constants) has a Lean model (QV/Model/Ast2Ast.lean) compared tree for tree with the real pass on every "
        "program inside it; builtin calls, variable subscripts and the type-annotation pass are left to the real pass "
        "(the translator model is fed the tree the real ast2ast produced) and judged by the harness oracle on the source text")
    res.assumptions.append(
        "sympy's And/Or/Not/Xor/ITE constructors and simplify_logic are taken to preserve the function of an expression; "
        "checked on every program of the run by evaluating the code's expressions with the harness' own evaluator")
    res.assumptions.append(
        "the outcomes of Qtype.is_const at the operands of QintImp.mul (they depend on sympy's automatic evaluation) are "
        "logged from the real run and are an input of the model")
    res.notes.append(
        "wide stream (extra.c01.wide): products are limited to the shapes the real library can translate at all - sympy's "
        "constructors make Qint[8] * Qint[8] of two variables take 80 s and Qint[12] * Qint[12] not end within the hour; "
        "the products here have a left operand with at most three bits that are not False after padding (small literal, "
        "Qint[2] / Qint[3] variable, `a & mask`) or a right operand that is a literal with one or two set bits; the Lean "
        "translator's table is not computed for them (its expressions are trees of ~10^10 nodes): they are compared "
        "with Lean SemW on the sampled rows (C01_body: equal to the model's table on straight-line programs) and, "
        "function by function, with QV.Arith.qMulLit (arith-wide)")
    res.notes.append("Qfixed programs, typecasts, float constants, nested function definitions and hybrid Q.* gates are "
                     "outside the Lean model (oracle only, or not generated)")
    return res


# ----------------------------------------------------------------------------- findings / replay
def witness_fails(ctx: Ctx, f):
    w = f.get("witness") or {}
    if "src" not in w:
        return None
    with Lib() as lib:
        c = observe(lib, "witness", w["src"], profiles=("fast",))
    if not c.code["fast"]["ok"]:
        return False
    return bool(c.failing or c.violations or c.free or c.missing or c.oracle.startswith("malformed")
                or c.oracle.startswith("reject"))


def replay(ctx: Ctx, payload):
    first = payload.get("first") or {}
    case = first.get("case") or {}
    if not case and payload.get("correspondence_disagreements"):
        case = payload["correspondence_disagreements"][0].get("case", {})
    print("replaying", json.dumps(case)[:1500])
    if "arith" in case and case.get("rows") is not None:
        with Lib() as lib:
            bits, names = arith_real_sym(lib, case["arith"])
        g = bexp.dag_of_defs([(f"_o.{j}", b) for j, b in enumerate(bits)], names)
        rows = bexp.dag_rows(g, names, [f"_o.{j}" for j in range(len(bits))], case["rows"])
        bad = 0
        for k, row in zip(case["rows"], rows):
            v, w = arith_expected(case["arith"], names, k)
            if int(row[::-1], 2) != v or (w is not None and w != len(bits)):
                if bad < 8:
                    print(f"row {k} {arith_operands(case['arith'], k)}: code {int(row[::-1], 2)} ({row}) expected value {v}")
                bad += 1
        print("property:", "holds" if not bad else f"VIOLATED on {bad} of {len(rows)} sampled rows")
        return 1 if bad else 0
    if "arith" in case:
        with Lib() as lib:
            bits, names = arith_real(lib, case["arith"])
        table = bexp.truth_table(names, bits)
        nb = len(bits)
        bad = 0
        for k in range(2 ** len(names)):
            v, w = arith_expected(case["arith"], names, k)
            row = table[k * nb:(k + 1) * nb]
            if int(row[::-1], 2) != v or (w is not None and w != nb):
                print(f"row {k}: code {row} expected value {v}")
                bad += 1
        print("property:", "holds" if not bad else f"VIOLATED on {bad} rows")
        return 1 if bad else 0
    if "src" not in case:
        print("nothing to replay on the code for this payload")
        return 2
    with Lib() as lib:
        if case.get("ks") is not None:
            c = observe(lib, case.get("tag", "replay"), case["src"], profiles=tuple(case.get("profiles") or ("none",)),
                        budget=60, ks=case["ks"], heavy=bool(case.get("heavy")))
        else:
            c = observe(lib, case.get("tag", "replay"), case["src"])
    f = c.code[c.main]
    print("code:", "accepted" if f["ok"] else "rejected: " + f["error"], c.accept_disagree or "")
    if c.free or c.missing:
        print("VIOLATED - undefined symbols read:", c.free, "return bits never defined:", c.missing)
    print("oracle:", c.oracle)
    for what, detail in c.violations:
        print("VIOLATED -", what, json.dumps(detail, default=str)[:600])
    for k, bad, got, exp in c.failing[:8]:
        print(f"row {k} {row_values(c.prog, k)}: code {got} expected {exp} (wrong bits {bad})")
    if case.get("tag", "").startswith("malformed") and f["ok"] and (c.failing or c.expected is None):
        print("VIOLATED - program outside the documented subset accepted and mistranslated")
        return 1
    bad = bool(c.failing or c.violations or c.free or c.missing or (f["ok"] and c.oracle.startswith("malformed")))
    print("property:", "VIOLATED" if bad else "holds on this program")
    return 1 if bad else 0
