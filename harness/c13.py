"""C13 - exports denote the same operation on the same qubits.

For every generated circuit (hand-built gate lists over the library's gate set incl. MCX(k),
MCtrl(X/Z), P/CP with many parameter values, barriers, nop gates; name maps that are in order,
dotted, aliased, permuted or incomplete; compiled qlassf functions) and every exporter
(qiskit, cirq, sympy, OpenQASM 2 and 3) in both modes:

(a) always-on search on the REAL code, judged by oracles that do not use the code under test:
    the instruction list of the exported object (qiskit `data`, cirq `decompose_once`, sympy
    factors, QASM text read by the small parser below) must be the circuit's non-nop gates -
    same base gate, number of controls, wire indices, parameter value, same order - and the
    unitary of the exported object (qiskit Operator, cirq.unitary, sympy represent) must be the
    one computed by harness/circ.py's own state-vector simulator (<= 6 qubits); the QASM gate
    must declare exactly one formal per qubit, in index order, and the call must bind q[0..n-1].
(b) correspondence with the Lean model (QV/Model/Export.lean) through the driver: the sequence
    of library calls made by the qiskit exporter (recorded by wrapping QuantumCircuit methods),
    the cirq op list, the sympy factor list and the QASM text are compared exactly; the Lean
    reader `parseDecl` is run on the real text and compared with the Python reader.
(c) a failing case is attributed to an open finding only if its precise trigger holds, the
    failing sub-check is the one the finding explains, and the quirk-model reproduces the
    code's output exactly.
(d) multi-step sequences on ONE circuit object (cases with "steps"): export, change the circuit
    through every public mutator (append, gate methods, +=, append_circuit, add_qubit, names,
    barrier, rename; +, repeat, copy results), export again.  The export after the last step goes
    through (a)-(c) against the harness' own account of what the steps build; every export along
    the way must read like the export of a fresh circuit with the same gates and names; objects
    exported earlier must still read as they did; circuits left behind must be unchanged.
"""
from __future__ import annotations

import ast
import math
from fractions import Fraction

from . import circ as C
from .common import Ctx, Result

LEVEL = "proof"

FRAMEWORKS = [("qiskit", None), ("cirq", None), ("sympy", None), ("qasm", 3), ("qasm", 2)]
MODES = ["circuit", "gate"]

# ------------------------------------------------------------------ oracle tables (own)

# gate class -> (base, number of controls); None = nop
def kind_of(d):
    c = d["c"]
    if c in ("Barrier", "NopGate"):
        return None
    if c in ("I", "X", "Y", "Z", "H", "S", "T", "P"):
        return (c, 0)
    if c == "Swap":
        return ("SWAP", 0)
    if c in ("CX", "CZ", "CP"):
        return (c[1], 1)
    if c == "CCX":
        return ("X", 2)
    if c == "MCX":
        return ("X", d["n"])
    if c == "MCtrl":
        return (d["g"], d["n"])
    raise ValueError(c)


# what each exporter is expected to handle (anything else: it must refuse with "not handled")
def exportable(fw, d):
    c = d["c"]
    if c in ("Barrier", "NopGate"):
        return True
    if fw == "qiskit":
        if c == "MCtrl":
            return d["g"] in ("X", "Z")
        return c != "I"
    if fw == "cirq":
        if c == "MCtrl":
            return d["g"] in ("X", "Z")
        return c != "P"
    if fw == "sympy":
        return c in ("X", "H", "CX", "Swap", "CCX", "MCX")
    if fw == "qasm":
        return True
    raise ValueError(fw)


def pval(text):
    """python value of a parameter text"""
    if text is None:
        return None
    try:
        return ast.literal_eval(text)
    except Exception:
        return text


def is_num(p):
    return isinstance(p, (int, float)) and not isinstance(p, bool) and math.isfinite(p)


def expected_ops(gates):
    out = []
    for d in gates:
        k = kind_of(d)
        if k is None:
            continue
        out.append((k[0], k[1], tuple(d["w"]), d.get("p")))
    return out


def fvals_of(gates):
    rows, seen = [], set()
    for d in gates:
        t = d.get("p")
        if t is None or t in seen:
            continue
        seen.add(t)
        p = pval(t)
        if is_num(p):
            fr = Fraction(p)
            neg = math.copysign(1.0, p) < 0
            rows.append([t, neg, str(abs(fr.numerator)), str(fr.denominator)])
    return rows


# ------------------------------------------------------------------ building the real circuit

def build_real(case):
    from qlasskit.qcircuit import QCircuit

    if case.get("steps"):
        return run_steps(case).qc
    if case.get("src"):
        return compile_src(case)
    qc = QCircuit(case["n"], name=case["name"])
    qc.qubit_map = {k: v for k, v in case["qmap"]}
    for d in case["gates"]:
        qc.append(C.make_gate(d), list(d["w"]), pval(d.get("p")))
    return qc


def compile_src(case):
    from qlasskit import qlassf
    from qlasskit.boolopt import bool_optimizer

    opt = {"default": bool_optimizer.defaultOptimizer, "fast": bool_optimizer.fastOptimizer}[case.get("opt", "default")]
    qf = qlassf(case["src"], to_compile=True, uncompute=case.get("uncompute", True), bool_optimizer=opt)
    return qf.circuit()


def describe(qc):
    """circuit facts the model and the oracles work from"""
    return dict(name=qc.name, n=qc.num_qubits, qmap=[[k, v] for k, v in qc.qubit_map.items()],
                gates=[dict(c=d["c"], n=d["n"], g=d["g"], w=d["w"], p=d["p"]) for d in C.qc_to_json(qc)])


# ------------------------------------------------------------------ observing the real exporters

class QkSpy:
    """records the top-level QuantumCircuit method calls made on the first circuit touched"""
    NAMES = ["x", "y", "z", "h", "s", "t", "p", "swap", "cx", "cz", "cp", "ccx", "mcx", "append", "barrier", "i", "id"]

    def __enter__(self):
        from qiskit import QuantumCircuit

        self.QC = QuantumCircuit
        self.calls, self.depth, self.saved, self.first = [], 0, {}, None
        spy = self

        def wrap(nm, orig):
            def w(self_, *a, **k):
                if spy.depth == 0 and spy.first == id(self_):
                    spy.calls.append((nm, a, k))
                spy.depth += 1
                try:
                    return orig(self_, *a, **k)
                finally:
                    spy.depth -= 1
            return w

        for nm in self.NAMES:
            if nm in QuantumCircuit.__dict__:
                self.saved[nm] = QuantumCircuit.__dict__[nm]
                setattr(QuantumCircuit, nm, wrap(nm, self.saved[nm]))

        # the exporter's circuit is the first one constructed; what qiskit does inside
        # to_gate / remove_final_measurements is not a call of the exporter's loop
        def quiet(orig, note_first=False):
            def w(self_, *a, **k):
                if note_first and spy.depth == 0 and spy.first is None:
                    spy.first = id(self_)
                spy.depth += 1
                try:
                    return orig(self_, *a, **k)
                finally:
                    spy.depth -= 1
            return w

        for nm in ("__init__", "to_gate", "remove_final_measurements"):
            self.saved[nm] = QuantumCircuit.__dict__[nm]
            setattr(QuantumCircuit, nm, quiet(self.saved[nm], nm == "__init__"))
        return self

    def __exit__(self, *exc):
        for nm, orig in self.saved.items():
            setattr(self.QC, nm, orig)
        return False


def ptxt(p):
    return None if p is None else C.param_text(p)


def canon_qk_call(nm, a, k):
    if nm == "mcx":
        return dict(m="mcx", ctrls=[int(x) for x in a[0]], t=int(a[1]))
    if nm == "append":
        g = a[0]
        base = getattr(getattr(g, "base_gate", None), "name", None)
        return dict(m="append_c" + str(base), n=getattr(g, "num_ctrl_qubits", None), w=[int(x) for x in a[1]])
    if nm == "barrier":
        return dict(m="barrier", label=ptxt(k.get("label")), extra=[str(x) for x in a])
    return dict(m=nm, args=[C.param_text(x) for x in a], kw=sorted(k))


def canon_model_qk(c):
    if c["m"] == "mcx":
        return dict(m="mcx", ctrls=c["ctrls"], t=c["t"])
    if c["m"] == "append_cz":
        return dict(m="append_cz", n=c["n"], w=c["w"])
    if c["m"] == "barrier":
        return dict(m="barrier", label=c["label"], extra=[])
    args = ([c["p"]["v"]] if c["p"] is not None else []) + [str(x) for x in c["w"]]
    return dict(m=c["m"], args=args, kw=[])


QK_PLAIN = {"x": "X", "y": "Y", "z": "Z", "h": "H", "s": "S", "t": "T", "p": "P", "swap": "SWAP", "id": "I"}


def qk_instructions(circ):
    """(base, nctrl, wires, params) per non-barrier instruction of a qiskit circuit"""
    out = []
    for ins in circ.data:
        op = ins.operation
        ws = tuple(circ.find_bit(b).index for b in ins.qubits)
        if op.name == "barrier":
            continue
        nctrl = getattr(op, "num_ctrl_qubits", None)
        if nctrl is not None and getattr(op, "base_gate", None) is not None:
            base = QK_PLAIN.get(op.base_gate.name, "?" + op.base_gate.name)
            if getattr(op, "ctrl_state", 2 ** nctrl - 1) != 2 ** nctrl - 1:
                base = "?ctrl_state"
        else:
            nctrl = 0
            base = QK_PLAIN.get(op.name, "?" + op.name)
        out.append((base, nctrl, ws, tuple(op.params)))
    return out


def barriers_of(circ):
    return [(tuple(circ.find_bit(b).index for b in ins.qubits), ins.operation.label)
            for ins in circ.data if ins.operation.name == "barrier"]


def per_wire(ops, n):
    """projection of an instruction list on every wire (equal projections <=> equal up to
    commuting instructions on disjoint wires)"""
    return [[o for o in ops if w in o[2]] for w in range(n)]


def ops_equal(got, exp):
    """got: (base, nctrl, wires, params tuple); exp: (base, nctrl, wires, ptext)"""
    if len(got) != len(exp):
        return False
    for g, e in zip(got, exp):
        if g[0] != e[0] or g[1] != e[1] or tuple(g[2]) != tuple(e[2]):
            return False
        ep = pval(e[3])
        if e[0] == "P":
            if len(g[3]) != 1 or not is_num(ep) or not is_num(g[3][0]) or Fraction(g[3][0]) != Fraction(ep):
                return False
        elif len(g[3]) != 0:
            return False
    return True


def run_qiskit(qc, mode):
    out = {}
    try:
        with QkSpy() as spy:
            obj = qc.export(mode, "qiskit")
        out["calls"] = [canon_qk_call(*c) for c in spy.calls]
        out["obj"] = obj
    except Exception as e:  # noqa
        out["exception"] = f"{type(e).__name__}: {e}"
    return out


def run_cirq(qc, mode):
    import cirq

    out = {}
    try:
        n = qc.num_qubits
        qs = cirq.LineQubit.range(n)
        if mode == "gate":
            Gt = qc.export("gate", "cirq")
            top = [Gt().on(*qs)]
            obj = cirq.Circuit(top)
        else:
            obj = qc.export("circuit", "cirq")
            top = list(obj.all_operations())
        out["top"] = [[q.x for q in op.qubits] for op in top]
        ops = []
        for op in top:
            ops.extend(cirq.decompose_once(op))
        out["ops"] = ops
        out["obj"] = obj
    except Exception as e:  # noqa
        out["exception"] = f"{type(e).__name__}: {e}"
    return out


def cirq_expected_gate(m):
    import cirq

    if m["k"] == "ctrl":
        return cirq.ControlledGate(sub_gate=getattr(cirq, m["sub"]), num_controls=m["n"])
    if m["k"] == "swap":
        return cirq.SWAP
    if m["k"] == "czpow":
        return cirq.CZPowGate(exponent=pval(m["p"]) / math.pi)
    return getattr(cirq, m["name"])


def cirq_ops_semantic(ops):
    """(base, nctrl, wires, params) of cirq operations, by an own reading of the cirq gates"""
    import cirq

    plain = [(cirq.X, "X", 0), (cirq.Y, "Y", 0), (cirq.Z, "Z", 0), (cirq.H, "H", 0), (cirq.S, "S", 0),
             (cirq.T, "T", 0), (cirq.I, "I", 0), (cirq.CNOT, "X", 1), (cirq.CZ, "Z", 1),
             (cirq.CCNOT, "X", 2), (cirq.SWAP, "SWAP", 0)]
    out = []
    for op in ops:
        g = op.gate
        ws = tuple(q.x for q in op.qubits)
        hit = None
        for obj, base, nc in plain:
            if g == obj:
                hit = (base, nc, ws, ())
                break
        if hit is None and isinstance(g, cirq.ControlledGate):
            try:
                cvs_ok = all(tuple(v) == (1,) for v in g.control_values)
            except Exception:  # noqa
                cvs_ok = False
            for obj, base, nc in plain[:7]:
                if g.sub_gate == obj and cvs_ok:
                    hit = (base, g.num_controls(), ws, ())
                    break
        if hit is None and isinstance(g, cirq.CZPowGate) and g.global_shift == 0:
            hit = ("P", 1, ws, (g.exponent * math.pi,))
        out.append(hit if hit is not None else ("?" + repr(g), 0, ws, ()))
    return out


def ops_close(got, exp):
    """like ops_equal but the parameter is compared numerically (cirq stores p/pi)"""
    if len(got) != len(exp):
        return False
    for g, e in zip(got, exp):
        if g[0] != e[0] or g[1] != e[1] or tuple(g[2]) != tuple(e[2]):
            return False
        if e[0] == "P":
            ep = pval(e[3])
            if len(g[3]) != 1 or not is_num(ep) or abs(g[3][0] - ep) > 1e-12 * max(1.0, abs(ep)):
                return False
        elif len(g[3]) != 0:
            return False
    return True


def run_sympy(qc, mode):
    out = {}
    try:
        out["obj"] = qc.export(mode, "sympy")
    except Exception as e:  # noqa
        out["exception"] = f"{type(e).__name__}: {e}"
    return out


def sympy_factors(expr, n, mode):
    """application-order list of canonical gate dicts + whether the |0..0> ket is present"""
    from sympy import Integer, Mul, Pow
    from sympy.physics.quantum.gate import CGate, CNotGate, HadamardGate, SwapGate, XGate
    from sympy.physics.quantum.qubit import Qubit

    if expr is None:
        return [], None
    fs = list(expr.args) if isinstance(expr, Mul) else [expr]
    fs = [f for f in fs if f != Integer(1)]
    ket = None
    if fs and isinstance(fs[-1], Qubit):
        ket = [int(v) for v in fs[-1].qubit_values]
        fs = fs[:-1]
    flat = []
    for f in fs:
        if isinstance(f, Pow) and isinstance(f.exp, Integer) and int(f.exp) > 0:
            flat.extend([f.base] * int(f.exp))
        else:
            flat.append(f)

    def one(f):
        if isinstance(f, CNotGate):
            return dict(k="CNOT", w=[int(f.controls[0]), int(f.targets[0])])
        if isinstance(f, CGate):
            g = f.gate
            if isinstance(g, XGate):
                return dict(k="CGate", ctrls=[int(c) for c in f.controls], t=int(g.targets[0]))
            return dict(k="?" + str(f))
        if isinstance(f, SwapGate):
            return dict(k="SWAP", w=[int(x) for x in f.targets])
        if isinstance(f, XGate):
            return dict(k="X", w=[int(f.targets[0])])
        if isinstance(f, HadamardGate):
            return dict(k="H", w=[int(f.targets[0])])
        return dict(k="?" + str(f))

    return [one(f) for f in reversed(flat)], ket


def sympy_cancel(gs):
    """sympy's Mul removes the square of an involutive gate as soon as it is formed
    (X, H, CNOT, CGate; SWAP**2 is kept): the product is built one factor at a time"""
    st = []
    for g in gs:
        if st and st[-1] == g and g["k"] != "SWAP":
            st.pop()
        else:
            st.append(g)
    return st


def sy_sem(g):
    if g["k"] == "CGate":
        return ("X", len(g["ctrls"]), tuple(g["ctrls"]) + (g["t"],), ())
    if g["k"] == "CNOT":
        return ("X", 1, tuple(g["w"]), ())
    if g["k"] in ("X", "H", "SWAP"):
        return (g["k"], 0, tuple(g["w"]), ())
    return (g["k"], 0, (), ())


def cancel_sem(ops):
    st = []
    for o in ops:
        if st and st[-1][:3] == o[:3] and o[0] in ("X", "H", "SWAP"):
            st.pop()
        else:
            st.append(o)
    return st


QASM_BASES = {"i": "I", "x": "X", "y": "Y", "z": "Z", "h": "H", "s": "S", "t": "T", "p": "P", "swap": "SWAP"}


def py_parse_qasm(text, version, mode):
    """independent reader of the emitted text -> dict(name, formals, lines, call, header_ok)"""
    hdr3 = "OPENQASM 3.0;\n\n"
    out = dict(header_ok=True, call=None)
    t = text
    if mode == "circuit":
        if version == 3:
            out["header_ok"] = t.startswith(hdr3)
            t = t[len(hdr3):]
            out["qreg"] = None
        else:
            pre = 'OPENQASM 2.0;\n\ninclude "qelib1.inc";\n\nqreg q['
            out["header_ok"] = t.startswith(pre)
            t = t[len(pre):]
            num, _, t = t.partition("];\n")
            out["qreg"] = int(num) if num.isdigit() else None
    lines = t.split("\n")
    l0 = [x for x in lines[0].split(" ") if x]
    if len(l0) < 3 or l0[0] != "gate" or l0[-1] != "{":
        return None
    out["name"], out["formals"] = l0[1], l0[2:-1]
    body, i = [], 1
    while i < len(lines) and lines[i] != "}":
        ln = lines[i]
        if not ln.startswith("\t"):
            return None
        toks = ln[1:].split(" ")
        head, args = toks[0], toks[1:]
        p = None
        if "(" in head:
            head, _, rest = head.partition("(")
            if not rest.endswith(")"):
                return None
            p = rest[:-1]
        body.append((head, p, args))
        i += 1
    if i >= len(lines):
        return None
    out["lines"] = body
    rest = lines[i + 1:]
    if mode == "gate":
        out["tail_ok"] = rest == ["", ""]
    else:
        out["tail_ok"] = len(rest) == 3 and rest[0] == "" and rest[2] == ""
        if out["tail_ok"]:
            cl = rest[1]
            nm, _, a = cl.partition(" ")
            out["call"] = (nm, a[:-1].split(",") if a.endswith(";") and len(a) > 1 else ([] if a == ";" else None))
    return out


def qasm_ops(parsed):
    """resolve the body against the formals: (base, nctrl, wires, ptext) or a reason string"""
    formals = parsed["formals"]
    out = []
    for head, p, args in parsed["lines"]:
        k = 0
        while head.startswith("c"):
            head, k = head[1:], k + 1
        if head not in QASM_BASES:
            return f"unknown gate name {head!r}"
        ws = []
        for a in args:
            if formals.count(a) != 1:
                return f"argument {a!r} is not exactly one formal"
            ws.append(formals.index(a))
        out.append((QASM_BASES[head], k, tuple(ws), p))
    return out


# ------------------------------------------------------------------ numerics

def own_unitary(n, gates):
    return C.unitary(n, [dict(d, p=pval(d.get("p"))) for d in gates])


def np_close(a, b, tol=1e-8):
    import numpy as np

    a, b = np.asarray(a, dtype=complex), np.asarray(b, dtype=complex)
    return a.shape == b.shape and bool(np.all(np.abs(a - b) < tol))


def rev_bits(i, n):
    return int(format(i, f"0{n}b")[::-1], 2) if n else 0


def cirq_unitary_le(obj, n):
    import cirq
    import numpy as np

    u = cirq.unitary(obj)
    idx = [rev_bits(i, n) for i in range(2 ** n)]
    return np.asarray(u)[np.ix_(idx, idx)]


# ------------------------------------------------------------------ findings: triggers

F_FORMALS = "C13-qasm-formals-from-names"
F_2F = "C13-qasm-param-2f"
F_ZERO = "C13-param-zero-dropped"
F_CIRQ = "C13-cirq-nop-raises"
QUIRK_OF = {F_FORMALS: "qasmFormalsFromKeys", F_2F: "qasmParam2f", F_ZERO: "exportParamTruthy", F_CIRQ: "cirqNopRaises"}


def nonnop(gates):
    return [d for d in gates if kind_of(d) is not None]


def wellformed(gates):
    """parameters exactly where the gate takes one (P, CP, MCtrl(P)), and numeric there"""
    for d in gates:
        k = kind_of(d)
        if k is None:
            continue
        if k[0] == "P":
            if d.get("p") is None or not is_num(pval(d["p"])):
                return False
        elif d.get("p") is not None:
            return False
    return True


# hypotheses of the Lean theorems C13_full / qasm_asis_resolves, computed independently of the model
BASE_NAMES = ("I", "X", "Y", "Z", "H", "S", "T", "P", "SWAP")


def py_ident(t):
    return len(t) > 0 and all((ch.isascii() and ch.isalnum()) or ch in "_." for ch in t)


def py_well_named(desc):
    """circuit / qubit names identifier-shaped and distinct, no name equal to the fallback q<i> of an unnamed qubit"""
    keys = [k for k, _ in desc["qmap"]]
    if not py_ident(desc["name"]) or not all(py_ident(k) for k in keys) or len(set(keys)) != len(keys):
        return False
    named = {v for _, v in desc["qmap"]}
    return not any(i not in named and f"q{i}" in keys for i in range(desc["n"]))


def py_domain(desc):
    gates, n = desc["gates"], desc["n"]
    return dict(
        wellNamed=py_well_named(desc),
        paramsPlain=all(d.get("p") is None or not any(ch in " \n" for ch in d["p"]) for d in gates),
        qasmExportable=all(d["c"] != "MCtrl" or d["g"] in BASE_NAMES for d in gates),
        wf=wellformed(gates) and all(len(d["w"]) == gate_arity(d) and all(0 <= w < n for w in d["w"]) for d in gates),
    )


def gate_arity(d):
    c = d["c"]
    if c in ("MCX", "MCtrl"):
        return d["n"] + 1
    return {"Swap": 2, "CX": 2, "CZ": 2, "CP": 2, "CCX": 3, "Barrier": 0, "NopGate": 0}.get(c, 1)


def trig_formals(desc):
    return [v for _, v in desc["qmap"]] != list(range(desc["n"]))


def gate_zero(d):
    p = pval(d.get("p"))
    return kind_of(d) is not None and d.get("p") is not None and is_num(p) and p == 0


def gate_lossy(d):
    p = pval(d.get("p"))
    return kind_of(d) is not None and is_num(p) and p != 0 and (Fraction(p) * 100).denominator != 1


def active(ctx, fid):
    return any(f["id"] == fid and f.get("status", "open") == "open" and f.get("_active") for f in ctx.findings)


def active_quirks(ctx):
    return sorted(QUIRK_OF[f["id"]] for f in ctx.findings
                  if f.get("status", "open") == "open" and f.get("_active") and f["id"] in QUIRK_OF)


# ------------------------------------------------------------------ one circuit through everything

def model_requests(desc, quirks):
    reqs = []
    fv = fvals_of(desc["gates"])
    for fw, ver in FRAMEWORKS:
        for mode in MODES:
            r = dict(op="c13.export", fw=fw, mode=mode, name=desc["name"], n=desc["n"], qmap=desc["qmap"],
                     gates=desc["gates"], fvals=fv, quirks=quirks)
            if ver:
                r["version"] = ver
            reqs.append(r)
    return reqs


def evaluate(desc, qc, fw, ver, mode, small):
    """run the real exporter; return (observation for the correspondence, list of failures).
    A failure is (tag, message, finding ids that could explain it)."""
    fails = []
    gates = desc["gates"]
    n = desc["n"]
    exp = expected_ops(gates)
    unexportable = [d["c"] for d in gates if not exportable(fw, d)]
    obs = {}
    if fw == "qiskit":
        r = run_qiskit(qc, mode)
        if "exception" in r:
            obs = dict(error=r["exception"])
            if unexportable and "not handled" in r["exception"]:
                return obs, fails
            who = [F_ZERO] if any(gate_zero(d) for d in gates) and r["exception"].startswith("TypeError") else []
            fails.append(("raise", "qiskit exporter raises: " + r["exception"], who))
            return obs, fails
        obs = dict(calls=r["calls"])
        obj = r["obj"]
        circ_ = obj if mode == "circuit" else obj.definition
        if obj.num_qubits != n:
            fails.append(("shape", f"exported object has {obj.num_qubits} qubits, circuit {n}", []))
            return obs, fails
        got = qk_instructions(circ_)
        if mode == "circuit":
            same = ops_equal(got, exp)
            nb = sum(1 for d in gates if d["c"] == "Barrier")
            if [b[0] for b in barriers_of(circ_)] != [tuple(range(n))] * nb:
                fails.append(("barrier", "barriers of the export differ from the circuit's", []))
        else:
            pg, pe = per_wire(got, n), per_wire(exp, n)
            same = len(got) == len(exp) and all(ops_equal(a, b) for a, b in zip(pg, pe))
        if not same:
            fails.append(("ops", "qiskit instruction list differs from the circuit's gates",
                          [], dict(got=[list(map(str, g)) for g in got][:40])))
        if small and not fails:
            from qiskit.quantum_info import Operator

            if not np_close(Operator(obj).data, own_unitary(n, gates)):
                fails.append(("unitary", "unitary of the qiskit export differs from the circuit's", []))
        return obs, fails
    if fw == "cirq":
        r = run_cirq(qc, mode)
        if "exception" in r:
            obs = dict(error=r["exception"])
            if unexportable and "not handled" in r["exception"]:
                return obs, fails
            nop = any(kind_of(d) is None for d in gates)
            who = [F_CIRQ] if nop and ("not handled for cirq exporter: Barrier" in r["exception"]
                                       or "not handled for cirq exporter: NopGate" in r["exception"]) else []
            fails.append(("raise", "cirq exporter raises: " + r["exception"], who))
            return obs, fails
        obs = dict(ops=r["ops"])
        if r["top"] != [list(range(n))]:
            fails.append(("shape", f"exported gate is applied to {r['top']}", []))
        got = cirq_ops_semantic(r["ops"])
        if not ops_close(got, exp):
            fails.append(("ops", "cirq operation list differs from the circuit's gates", [],
                          dict(got=[list(map(str, g)) for g in got][:40])))
        if small and not fails:
            if not np_close(cirq_unitary_le(r["obj"], n), own_unitary(n, gates)):
                fails.append(("unitary", "unitary of the cirq export differs from the circuit's", []))
        return obs, fails
    if fw == "sympy":
        r = run_sympy(qc, mode)
        if "exception" in r:
            obs = dict(error=r["exception"])
            if unexportable and "not handled" in r["exception"]:
                return obs, fails
            fails.append(("raise", "sympy exporter raises: " + r["exception"], []))
            return obs, fails
        fs, ket = sympy_factors(r["obj"], n, mode)
        obs = dict(factors=fs, ket=ket)
        if (mode == "circuit") != (ket is not None) or (ket is not None and ket != [0] * n):
            fails.append(("shape", f"initial ket of the sympy export is {ket}", []))
        got = [sy_sem(g) for g in fs]
        # both lists reduced to their normal form under removal of adjacent equal involutions
        if cancel_sem(got) != cancel_sem([(b, k, w, ()) for b, k, w, _ in exp]):
            fails.append(("ops", "sympy factor list differs from the circuit's gates (after removing squares of involutions)", [],
                          dict(got=[list(map(str, g)) for g in got][:40])))
        if small and not fails and n <= 4 and len(exp) <= 10 and fs:
            from sympy.physics.quantum.qapply import qapply
            from sympy.physics.quantum.represent import represent
            import numpy as np

            if mode == "gate":
                m = np.array(represent(r["obj"], nqubits=n).evalf().tolist(), dtype=complex)
                if not np_close(m, own_unitary(n, gates)):
                    fails.append(("unitary", "matrix of the sympy export differs from the circuit's", []))
            else:
                st = represent(qapply(r["obj"]), nqubits=n)
                v = np.array(st.evalf().tolist(), dtype=complex).reshape(-1)
                own = C.run_sv(n, [dict(d, p=pval(d.get("p"))) for d in gates])
                if not np_close(v, own):
                    fails.append(("unitary", "state of the sympy export differs from the circuit applied to |0..0>", []))
        return obs, fails
    # ---- qasm
    from qlasskit.qcircuit.exporter_qasm import QasmExporter

    try:
        text = qc.export(mode, "qasm") if ver == 3 else QasmExporter(version=2).export(qc, mode)
    except Exception as e:  # noqa
        obs = dict(error=f"{type(e).__name__}: {e}")
        who = [F_FORMALS] if trig_formals(desc) and "not found" in str(e) else []
        fails.append(("raise", "qasm exporter raises: " + obs["error"], who))
        return obs, fails
    obs = dict(text=text)
    P = py_parse_qasm(text, ver, mode) if isinstance(text, str) else None
    if P is None:
        fails.append(("text", "emitted text is not of the shape 'gate <name> <formals> {' / lines / '}'", []))
        return obs, fails
    obs["parsed"] = P
    if not P["header_ok"] or not P["tail_ok"] or P["name"] != desc["name"]:
        fails.append(("text", "header / tail / gate name of the emitted text is wrong", []))
    if mode == "circuit":
        if P["call"] is None or P["call"][0] != desc["name"] or P["call"][1] != [f"q[{i}]" for i in range(n)]:
            fails.append(("call", "the call does not apply the gate to q[0..n-1]", []))
        if ver == 2 and P.get("qreg") != n:
            fails.append(("call", "qreg size differs from the number of qubits", []))
    who_f = [F_FORMALS] if trig_formals(desc) else []
    if len(P["formals"]) != n:
        fails.append(("formals", f"gate declares {len(P['formals'])} formals for {n} qubits", who_f))
    ops = qasm_ops(P)
    if isinstance(ops, str):
        fails.append(("wires", ops, who_f))
        return obs, fails
    if len(ops) != len(exp):
        fails.append(("ops", "number of body lines differs from the number of non-nop gates", []))
        return obs, fails
    nn = nonnop(gates)
    for o, e, d in zip(ops, exp, nn):
        if o[0] != e[0] or o[1] != e[1]:
            fails.append(("ops", f"line {o} does not name gate {e}", []))
        elif o[2] != e[2]:
            fails.append(("wires", f"line applies to formal positions {o[2]}, gate to qubits {e[2]}", who_f))
        else:
            ep = pval(e[3])
            if e[3] is None or not is_num(ep):
                ok = o[3] is None
            else:
                try:
                    ok = o[3] is not None and Fraction(o[3]) == Fraction(ep)
                except ValueError:
                    ok = False
            if not ok:
                who = []
                if gate_zero(d) and o[3] is None:
                    who = [F_ZERO]
                elif gate_lossy(d) and o[3] is not None:
                    who = [F_2F]
                fails.append(("param", f"printed parameter {o[3]!r} is not the gate's parameter {e[3]}", who))
    return obs, fails


def compare_model(fw, mode, obs, rep):
    """exact correspondence; returns None or a message"""
    if "error" in obs or "error" in rep:
        if ("error" in obs) != ("error" in rep):
            return "one of model/code raises, the other does not"
        if ("not handled" in obs["error"]) != (rep["error"] == "unhandled"):
            return "model and code raise for different reasons"
        return None
    m = rep["ok"]
    if fw == "qiskit":
        if [canon_model_qk(c) for c in m] != obs["calls"]:
            return "QuantumCircuit call sequence differs"
    elif fw == "cirq":
        ops = obs["ops"]
        if len(ops) != len(m):
            return "number of cirq operations differs"
        for op, mm in zip(ops, m):
            if op.gate != cirq_expected_gate(mm) or [q.x for q in op.qubits] != mm["w"]:
                return f"cirq operation {op!r} differs from the model's {mm}"
    elif fw == "sympy":
        if obs["factors"] != sympy_cancel(m):
            return "sympy factor list differs"
    else:
        if obs["text"] != m:
            return "QASM text differs"
    return None


def strip_obs(obs):
    out = {}
    for k, v in obs.items():
        if k in ("ops",):
            out[k] = [repr(o) for o in v][:30]
        elif k == "parsed":
            continue
        else:
            out[k] = v
    return out


def observe(ctx, res, case, bucket, lean_parse=True):
    """one circuit x all exporters x both modes on the real code; returns the record to judge"""
    seq = None
    try:
        if case.get("steps"):
            # one circuit object taken through exports and mutators; what is judged below is the
            # export of THAT object after the last step, against the harness' own account of it
            seq = run_steps(case)
            qc, desc = seq.qc, seq.desc
        else:
            qc = build_real(case)
            desc = describe(qc)
    except Exception as e:  # noqa
        res.notes.append(f"could not build case {case.get('label')}: {type(e).__name__}: {e}")
        return None
    small = desc["n"] <= 6
    quirks = active_quirks(ctx)
    wf = wellformed(desc["gates"])
    reqs = model_requests(desc, quirks)
    observations = []
    k = 0
    parse_reqs, parse_idx = [], []
    for fw, ver in FRAMEWORKS:
        for mode in MODES:
            obs, fails = evaluate(desc, qc, fw, ver, mode, small)
            if not wf:
                fails = []  # outside the property's domain: correspondence only
            observations.append((fw, ver, mode, obs, fails))
            if fw == "qasm" and mode == "gate" and "text" in obs and isinstance(obs["text"], str) and lean_parse:
                parse_reqs.append(dict(op="c13.parse", text=obs["text"]))
                parse_idx.append(len(observations) - 1)
            k += 1
    dom_req = dict(op="c13.domain", name=desc["name"], n=desc["n"], qmap=desc["qmap"], gates=desc["gates"],
                   fvals=fvals_of(desc["gates"]), quirks=quirks)
    if seq is not None:
        finish_seq(seq)
    return dict(case=case, bucket=bucket, desc=desc, reqs=reqs + parse_reqs + [dom_req], nreq=len(reqs), parse_idx=parse_idx, observations=observations, seq=seq)


def judge(ctx, res, rec, replies):
    """decide one observed circuit given the model's replies (None: model does not build)"""
    case, bucket, desc, observations, parse_idx = rec["case"], rec["bucket"], rec["desc"], rec["observations"], rec["parse_idx"]
    nreq = rec["nreq"]
    for i, (fw, ver, mode, obs, fails) in enumerate(observations):
        sub = dict(case=case, fw=fw, version=ver, mode=mode)
        nontriv = len(nonnop(desc["gates"])) >= 2
        res.count(sub, nontrivial=nontriv, bucket=f"{bucket}/{fw}{ver or ''}/{mode}")
        rep = replies[i] if replies is not None else None
        diff = compare_model(fw, mode, obs, rep) if rep is not None and "driver_error" not in rep else None
        if rep is not None and "driver_error" in rep:
            diff = "driver error: " + rep["driver_error"]
        if fails:
            # attribute every failure, or report
            unexplained = []
            hit = set()
            for f in fails:
                who = [w for w in f[2] if active(ctx, w)]
                if who and diff is None and rep is not None:
                    hit.update(who)
                else:
                    unexplained.append(f)
            if unexplained:
                f = unexplained[0]
                res.violation(sub, f[1], code=strip_obs(obs), model=rep, expected=dict(ops=[list(map(str, e)) for e in expected_ops(desc["gates"])][:40], n=desc["n"]),
                              all_failures=[x[1] for x in fails], detail=(f[3] if len(f) > 3 else None), circuit=desc if case.get("src") else None)
            else:
                for w in hit:
                    res.known(w)
        elif diff is not None:
            res.disagree(sub, diff, code=strip_obs(obs), model=rep)
    # the sequence-level checks (after the verdicts of the independent oracle on the last export)
    if rec.get("seq") is not None:
        judge_seq(ctx, res, rec)
    # the Lean reader on the real text vs the Python reader
    if replies is not None:
        for j, oi in enumerate(parse_idx):
            rep = replies[nreq + j]
            fw, ver, mode, obs, fails = observations[oi]
            P = obs.get("parsed")
            sub = dict(case=case, fw=fw, version=ver, mode=mode, reader=True)
            if P is None:
                if rep.get("decl") is not None:
                    res.disagree(sub, "Lean reader accepts a text the Python reader rejects", code=obs.get("text"), model=rep)
                continue
            d = rep.get("decl")
            mine = dict(name=P["name"], formals=P["formals"], body=[dict(g=h, p=p, args=a) for h, p, a in P["lines"]])
            if d != mine:
                res.disagree(sub, "Lean reader and Python reader differ on the emitted text", code=mine, model=d)
                continue
            po = qasm_ops(P)
            # Lean resolves a duplicated formal to its first position; the Python reader refuses
            if not isinstance(po, str):
                lo = rep.get("ops")
                if lo is None or [(o["base"], o["nctrl"], tuple(o["w"]), o["p"]) for o in lo] != po:
                    res.disagree(sub, "Lean reader and Python reader resolve the body differently", code=[list(map(str, x)) for x in po], model=lo)


    # the hypotheses of C13_full / qasm_asis_resolves: model's predicates vs the harness' own, and on
    # the real code what the theorems conclude from them (export returns, one distinct
    # identifier-shaped formal per qubit, every line resolves)
    dom = py_domain(desc)
    sub = dict(case=case, domain=True)
    in_domain = all(dom.values())
    res.count(sub, nontrivial=in_domain and len(nonnop(desc["gates"])) >= 2, bucket=f"{bucket}/domain/{'in' if in_domain else 'out'}")
    if replies is not None:
        rep = replies[nreq + len(parse_idx)]
        if "driver_error" in rep:
            res.disagree(sub, "driver error: " + rep["driver_error"], code=dom, model=rep)
        elif {k: rep.get(k) for k in dom} != dom:
            res.disagree(sub, "model's wellNamed / paramsPlain / qasmExportable / gateWF differ from the harness' own", code=dom, model=rep)
        elif in_domain and not (rep.get("readable") and rep.get("nodup")):
            res.disagree(sub, "in the theorem's domain but the model's export is not readable / its formals not distinct", code=dom, model=rep)
    if in_domain:
        for fw, ver, mode, obs, fails in observations:
            if fw != "qasm":
                continue
            P = obs.get("parsed")
            ok = P is not None and len(set(P["formals"])) == desc["n"] == len(P["formals"]) and all(py_ident(f) for f in P["formals"]) \
                and not isinstance(qasm_ops(P), str)
            if not ok:
                res.violation(dict(case=case, fw=fw, version=ver, mode=mode, domain=True),
                              "circuit satisfies wellNamed / paramsPlain / qasmExportable but the real QASM export raises, is unreadable, or its formals are not one distinct identifier per qubit",
                              code=strip_obs(obs), expected=dict(n=desc["n"], domain=dom))


def check_circuits(ctx, res, cases, chunk=150):
    """observe the real code on a chunk of circuits, ask the model once, judge"""
    for k in range(0, len(cases), chunk):
        recs = [r for r in (observe(ctx, res, case, bucket) for case, bucket in cases[k:k + chunk]) if r is not None]
        allreq = [q for r in recs for q in r["reqs"]]
        replies = ctx.model(allreq) if allreq else []
        pos = 0
        for r in recs:
            m = len(r["reqs"])
            judge(ctx, res, r, replies[pos:pos + m] if replies is not None else None)
            pos += m


def check_circuit(ctx, res, case, bucket):
    check_circuits(ctx, res, [(case, bucket)])


# ------------------------------------------------------------------ multi-step sequences on one circuit object
#
# A case with "steps" takes ONE real QCircuit through exports and public mutators:
#   export (one framework / mode, or all) -> mutate -> ... -> export again (the ordinary pipeline
#   above: every exporter, both modes, judged by the independent readers / simulator).
# The harness keeps its own account (`St`) of what the circuit is after every step - name, number
# of qubits, ordered name map, gate list - from the documented meaning of the mutators alone; it
# never reads it back from the object.  Checked:
#   * after the last step the object's name / qubits / map / gates are the account's ("state");
#   * the export after the last step denotes the ACCOUNT's gates (ordinary pipeline, desc = account);
#   * every export taken along the way and every export after the last step reads exactly like the
#     export of a FRESH circuit built with the account's gates and names ("stale");
#   * an object exported earlier still reads as it did when it was exported ("first-changed");
#   * circuits left behind by `+`, repeat, copy are what they were and export like fresh ones.

F_LIVE = "C13-cirq-export-live-view"

ALL_EXPORTS = [(fw, ver, mode) for fw, ver in FRAMEWORKS for mode in MODES]


class St:
    """the harness' own account of a circuit"""

    def __init__(self, name, n, qmap, gates):
        self.name, self.n = name, n
        self.qmap = [[k, v] for k, v in qmap]
        self.gates = [canon_gate(d) for d in gates]

    def copy(self):
        return St(self.name, self.n, self.qmap, self.gates)

    def desc(self):
        return dict(name=self.name, n=self.n, qmap=[[k, v] for k, v in self.qmap], gates=[canon_gate(d) for d in self.gates])

    def setname(self, key, qubit):
        for kv in self.qmap:
            if kv[0] == key:
                kv[1] = qubit
                return
        self.qmap.append([key, qubit])

    def delname(self, key):
        self.qmap = [kv for kv in self.qmap if kv[0] != key]

    def wire(self, a):
        """a wire argument of a gate method: an index, a name, or a Symbol (by its name)"""
        if isinstance(a, int):
            return a
        key = a["sym"] if isinstance(a, dict) else a
        for k, v in self.qmap:
            if k == key:
                return v
        raise KeyError(key)


def canon_gate(d):
    return dict(c=d["c"], n=d.get("n", 0), g=d.get("g", ""), w=list(d["w"]), p=d.get("p"))


def real_arg(a):
    from sympy import Symbol

    return Symbol(a["sym"]) if isinstance(a, dict) else a


def plain_qc(desc):
    """a fresh real circuit with exactly these gates and names"""
    from qlasskit.qcircuit import QCircuit

    qc = QCircuit(desc["n"], name=desc.get("name", "qc"))
    qc.qubit_map = {k: v for k, v in desc.get("qmap", default_map(desc["n"]))}
    for d in desc["gates"]:
        qc.append(C.make_gate(d), list(d["w"]), pval(d.get("p")))
    return qc


def qft_gates(ws, inverse):
    """the gate list QCircuit.qft / iqft stand for (H, controlled phases 2pi/2^k, final swaps)"""
    n, out = len(ws), []
    if not inverse:
        for i in range(n):
            out.append(mk("H", [ws[i]]))
            for j in range(i + 1, n):
                out.append(mk("CP", [ws[j], ws[i]], 2 * math.pi / (2 ** (j - i + 1))))
        for i in range(n // 2):
            out.append(mk("Swap", [ws[i], ws[n - i - 1]]))
    else:
        for i in range(n // 2):
            out.append(mk("Swap", [ws[i], ws[n - i - 1]]))
        for i in reversed(range(n)):
            for j in reversed(range(i + 1, n)):
                out.append(mk("CP", [ws[j], ws[i]], -2 * math.pi / (2 ** (j - i + 1))))
            out.append(mk("H", [ws[i]]))
    return out


def method_gate(st, m, args):
    """the gate a convenience method appends, from the account's name map"""
    r = st.wire
    if m in ("h", "z", "x", "y", "t", "s"):
        return mk(m.upper(), [r(args[0])])
    if m in ("cx", "cz"):
        return mk(m.upper(), [r(args[0]), r(args[1])])
    if m == "swap":
        return mk("Swap", [r(args[0]), r(args[1])])
    if m == "ccx":
        return mk("CCX", [r(a) for a in args])
    if m == "cp":
        return mk("CP", [r(args[1]), r(args[2])], args[0])
    if m == "mcx":
        return mk(f"MCX{len(args[0])}", [r(a) for a in args[0]] + [r(args[1])])
    if m == "mctrl":
        return mk(f"MCtrl{args[0]}{len(args[1])}", [r(a) for a in args[1]] + [r(args[2])], args[3] if len(args) > 3 else None)
    raise ValueError(m)


def remap(gates, qubits):
    return [canon_gate(dict(d, w=[qubits[w] for w in d["w"]])) for d in gates]


def model_step(st, step):
    """own account of one mutator: returns (account after the step, True when the step yields a
    NEW circuit object and leaves the old one as it was)"""
    op = step["op"]
    if op in ("append", "iadd_gate"):
        st.gates.append(canon_gate(step["g"]))
    elif op == "method":
        st.gates.append(canon_gate(method_gate(st, step["m"], step["args"])))
    elif op in ("qft", "iqft"):
        st.gates.extend(canon_gate(d) for d in qft_gates([st.wire(a) for a in step["wl"]], op == "iqft"))
    elif op == "iadd":
        st.gates.extend(remap(step["other"]["gates"], list(range(step["other"]["n"]))))
    elif op == "append_circuit":
        st.gates.extend(remap(step["other"]["gates"], step["qubits"]))
    elif op == "add_qubit":
        nm = step.get("name")
        nm = nm["sym"] if isinstance(nm, dict) else nm
        st.setname(nm if nm is not None else f"q{st.n}", st.n)
        st.n += 1
    elif op == "setitem":
        k = step["key"]
        st.setname(k["sym"] if isinstance(k, dict) else k, step["qubit"])
    elif op == "delitem":
        k = step["key"]
        st.delname(k["sym"] if isinstance(k, dict) else k)
    elif op == "barrier":
        st.gates.append(canon_gate(mk("Barrier", [], step.get("label"))))
    elif op == "rename":
        st.name = step["name"]
    elif op == "add":
        new = st.copy()
        new.gates.extend(remap(step["other"]["gates"], list(range(step["other"]["n"]))))
        return new, True
    elif op == "repeat":
        new = st.copy()
        new.gates = [canon_gate(d) for _ in range(max(step["k"], 0)) for d in st.gates]
        return new, True
    elif op == "copy":
        if step.get("vanilla"):
            return St("qc", st.n, default_map(st.n), st.gates), True
        return st.copy(), True
    elif op == "deepcopy":
        return st.copy(), True
    else:
        raise ValueError(op)
    return st, False


def real_step(qc, step):
    """the same mutator on the real circuit; returns the circuit the sequence goes on with"""
    import copy as _copy

    op = step["op"]
    if op == "append":
        g = step["g"]
        qc.append(C.make_gate(g), list(g["w"]), pval(g.get("p")))
    elif op == "iadd_gate":
        g = step["g"]
        qc += (C.make_gate(g), list(g["w"]), pval(g.get("p")))
    elif op == "method":
        m, a = step["m"], step["args"]
        if m == "mcx":
            qc.mcx([real_arg(x) for x in a[0]], real_arg(a[1]))
        elif m == "mctrl":
            inner = C.make_gate(dict(c=a[0], w=[]))
            qc.mctrl(inner, [real_arg(x) for x in a[1]], real_arg(a[2]), *(a[3:4]))
        elif m == "cp":
            qc.cp(a[0], real_arg(a[1]), real_arg(a[2]))
        else:
            getattr(qc, m)(*[real_arg(x) for x in a])
    elif op in ("qft", "iqft"):
        getattr(qc, op)([real_arg(x) for x in step["wl"]])
    elif op == "iadd":
        qc += plain_qc(step["other"])
    elif op == "append_circuit":
        qc.append_circuit(plain_qc(step["other"]), list(step["qubits"]))
    elif op == "add_qubit":
        nm = step.get("name")
        if nm is None:
            qc.add_qubit()
        else:
            qc.add_qubit(real_arg(nm))
    elif op == "setitem":
        qc[real_arg(step["key"])] = step["qubit"]
    elif op == "delitem":
        del qc[real_arg(step["key"])]
    elif op == "barrier":
        if step.get("label") is None:
            qc.barrier()
        else:
            qc.barrier(step["label"])
    elif op == "rename":
        qc.name = step["name"]
    elif op == "add":
        return qc + plain_qc(step["other"])
    elif op == "repeat":
        return qc.repeat(step["k"])
    elif op == "copy":
        return qc.copy(vanilla=True) if step.get("vanilla") else qc.copy()
    elif op == "deepcopy":
        return _copy.deepcopy(qc)
    else:
        raise ValueError(op)
    return qc


# ---- reading an exported object (everything the harness can observe of it), JSON-able

def _clean(msg):
    import re

    return re.sub(r"0x[0-9a-fA-F]+", "0x..", str(msg))[:200]


def try_export(qc, fw, ver, mode):
    """(object, None) or (None, 'Type: message')"""
    try:
        if fw == "qasm" and ver == 2:
            from qlasskit.qcircuit.exporter_qasm import QasmExporter

            return QasmExporter(version=2).export(qc, mode), None
        return qc.export(mode, fw), None
    except Exception as e:  # noqa
        return None, f"{type(e).__name__}: {_clean(e)}"


def read_cirq_gate(g, qubits):
    import cirq

    out = {}
    try:
        out["nq"] = g.num_qubits()
    except Exception as e:  # noqa
        out["nq"] = f"error {type(e).__name__}"
    try:
        out["ops"] = [repr(o) for o in cirq.decompose_once_with_qubits(g, qubits)]
    except Exception as e:  # noqa
        out["ops"] = f"error {type(e).__name__}: {_clean(e)}"
    return out


def snap(fw, mode, obj, err, n):
    """reading of an exported object; `n` = number of qubits of the circuit when it was exported"""
    if err is not None:
        return dict(error=err)
    try:
        if fw == "qasm":
            return dict(text=obj)
        if fw == "sympy":
            from sympy import srepr

            return dict(expr=None if obj is None else srepr(obj))
        if fw == "qiskit":
            circ_ = obj if mode == "circuit" else obj.definition
            ops = []
            for ins in circ_.data:
                o = ins.operation
                ops.append([o.name, [circ_.find_bit(b).index for b in ins.qubits], [C.param_text(p) for p in o.params],
                            getattr(o, "num_ctrl_qubits", None), getattr(o, "ctrl_state", None),
                            o.label if o.name == "barrier" else None])
            if mode == "gate":
                # to_gate() may reorder instructions on disjoint wires: per-wire projections
                return dict(name=obj.name, nq=obj.num_qubits, wires=[[o for o in ops if w in o[1]] for w in range(obj.num_qubits)])
            return dict(nq=obj.num_qubits, ops=ops)
        if fw == "cirq":
            import cirq

            if mode == "gate":
                return dict(cls=getattr(obj, "__name__", None), top=None, gates=[read_cirq_gate(obj(), cirq.LineQubit.range(n))])
            tops = list(obj.all_operations())
            return dict(cls=None, top=[[getattr(q, "x", str(q)) for q in op.qubits] for op in tops],
                        gates=[dict(read_cirq_gate(op.gate, list(op.qubits)), cls=type(op.gate).__name__) for op in tops])
    except Exception as e:  # noqa
        return dict(unreadable=f"{type(e).__name__}: {_clean(e)}")
    raise ValueError(fw)


def live_reading(first, final_desc):
    """what a cirq export object reads as IF it is a live view of its circuit: the gate of a fresh
    export of the circuit as it is now, decomposed on the qubits the first export was placed on"""
    import cirq

    obj, err = try_export(plain_qc(final_desc), "cirq", None, first["mode"])
    if err is not None:
        return None
    qs = cirq.LineQubit.range(first["n"])
    try:
        if first["mode"] == "gate":
            return [read_cirq_gate(obj(), qs)]
        return [dict(read_cirq_gate(op.gate, qs), cls=type(op.gate).__name__) for op in obj.all_operations()]
    except Exception:  # noqa
        return None


class SeqRun:
    def __init__(self):
        self.recs = []      # [dict(qc=real circuit, st=account)]: every circuit object of the sequence, last = current
        self.firsts = []    # exports taken along the way
        self.fails = []     # (tag, message, finding ids that could explain it, detail)
        self.aborted = None

    @property
    def qc(self):
        return self.recs[-1]["qc"]

    @property
    def desc(self):
        return self.recs[-1]["st"].desc()


def expand_steps(steps):
    out = []
    for s in steps:
        if s["op"] == "export_all":
            out.extend(dict(op="export", fw=fw, ver=ver, mode=mode) for fw, ver, mode in ALL_EXPORTS)
        else:
            out.append(s)
    return out


def fresh_differs(rec, fw, ver, mode, obj_err=None):
    """export of rec's circuit (or the given one) vs export of a fresh circuit with the account's gates and names"""
    st = rec["st"]
    obj, err = obj_err if obj_err is not None else try_export(rec["qc"], fw, ver, mode)
    s = snap(fw, mode, obj, err, st.n)
    fobj, ferr = try_export(plain_qc(st.desc()), fw, ver, mode)
    sf = snap(fw, mode, fobj, ferr, st.n)
    return (s, sf) if s != sf else None


def run_steps(case):
    """take one real circuit through the steps; returns the SeqRun (current circuit + account + failures so far)"""
    run = SeqRun()
    if case.get("src"):
        qc = compile_src(case)
        d = describe(qc)
        st = St(d["name"], d["n"], d["qmap"], d["gates"])
    else:
        qc = plain_qc(case)
        st = St(case["name"], case["n"], case["qmap"], case["gates"])
    run.recs.append(dict(qc=qc, st=st, born=0))
    for i, step in enumerate(expand_steps(case["steps"]), 1):
        rec = run.recs[-1]
        if step["op"] == "export":
            fw, ver, mode = step["fw"], step.get("ver"), step["mode"]
            obj, err = try_export(rec["qc"], fw, ver, mode)
            s = snap(fw, mode, obj, err, rec["st"].n)
            run.firsts.append(dict(i=i, fw=fw, ver=ver, mode=mode, obj=obj, err=err, snap=s, rec=rec, n=rec["st"].n))
            diff = fresh_differs(rec, fw, ver, mode, (obj, err))
            if diff:
                run.fails.append(("stale", f"step {i}: the {fw}{ver or ''} {mode} export of the circuit as it is after steps 1..{i - 1} differs from the export of a fresh circuit with the same gates and names",
                                  [], dict(code=diff[0], expected=diff[1], step=i, fw=fw, version=ver, mode=mode)))
            continue
        try:
            nqc = real_step(rec["qc"], step)
        except Exception as e:  # noqa
            run.fails.append(("raise", f"step {i} ({step['op']}) raises {type(e).__name__}: {_clean(e)}", [], dict(step=i)))
            run.aborted = i
            break
        nst, fresh_obj = model_step(rec["st"], step)
        if fresh_obj:
            if nqc is rec["qc"]:
                run.fails.append(("state", f"step {i} ({step['op']}) returns the circuit it was called on, not a new one", [], dict(step=i)))
            run.recs.append(dict(qc=nqc, st=nst, born=i))
        else:
            rec["st"] = nst
    return run


def finish_seq(run):
    """after the ordinary pipeline has exported the current circuit once more: state, first exports, stale exports"""
    last = len(run.recs) - 1
    for k, rec in enumerate(run.recs):
        who = "circuit after the last step" if k == last else f"circuit left behind at step {run.recs[k + 1]['born']}"
        try:
            d = describe(rec["qc"])
        except Exception as e:  # noqa
            d = dict(unreadable=f"{type(e).__name__}: {e}")
        exp = rec["st"].desc()
        if d != exp:
            run.fails.append(("state", f"{who}: its name / qubits / name map / gates are not what the steps describe", [], dict(code=d, expected=exp)))
        for fw, ver, mode in ALL_EXPORTS:
            diff = fresh_differs(rec, fw, ver, mode)
            if diff:
                run.fails.append(("stale", f"{who}: its {fw}{ver or ''} {mode} export differs from the export of a fresh circuit with the same gates and names",
                                  [], dict(code=diff[0], expected=diff[1], fw=fw, version=ver, mode=mode)))
    for f in run.firsts:
        now = snap(f["fw"], f["mode"], f["obj"], f["err"], f["n"])
        if now != f["snap"]:
            who = []
            if f["fw"] == "cirq" and "gates" in now and "gates" in f["snap"]:
                # the class name and the qubits it was placed on are fixed when the object is made;
                # its number of qubits and its decomposition are what a live view reads anew
                live = live_reading(f, f["rec"]["st"].desc())
                fixed = lambda s_: (s_.get("cls"), s_.get("top"), [g.get("cls") for g in s_["gates"]])  # noqa: E731
                moving = lambda gs: [{k: v for k, v in g.items() if k != "cls"} for g in gs]  # noqa: E731
                if live is not None and moving(now["gates"]) == moving(live) and fixed(now) == fixed(f["snap"]):
                    who = [F_LIVE]
            run.fails.append(("first-changed", f"the object returned by the {f['fw']}{f['ver'] or ''} {f['mode']} export at step {f['i']} no longer reads as it did when it was returned (the circuit was changed afterwards)",
                              who, dict(code=now, expected=f["snap"], step=f["i"], fw=f["fw"], version=f["ver"], mode=f["mode"])))


def judge_seq(ctx, res, rec):
    case, bucket, run = rec["case"], rec["bucket"], rec["seq"]
    muts = [s["op"] for s in case["steps"] if not s["op"].startswith("export")]
    sub = dict(case=case, sequence=True)
    res.count(sub, nontrivial=bool(muts) and bool(run.firsts), bucket=f"{bucket}/steps")
    hit, first_v = set(), None
    for f in run.fails:
        who = [w for w in f[2] if active(ctx, w)]
        if who:
            hit.update(who)
        elif first_v is None:
            first_v = f
    if first_v is not None:
        det = first_v[3] or {}
        res.violation(dict(case=case, sequence=first_v[0], **{k: det[k] for k in ("step", "fw", "version", "mode") if k in det}),
                      first_v[1], code=det.get("code"), expected=det.get("expected"),
                      all_failures=[x[1] for x in run.fails][:20])
    for w in hit:
        res.known(w)


# ------------------------------------------------------------------ generators

PARAMS = [math.pi / 2, math.pi / 4, -math.pi / 8, 0.79, 1.0, 2 * math.pi / 3, 0.123456, 0.5, 0.25, -1.57,
          0.125, 0.165, 0.375, 2.675, 1.005, 0.005, 0.015, -0.001, 1e-05, 123456.789, 3, -2, 0.0, 0, 100.0, 0.995, 9.995]

KINDS = ["I", "X", "Y", "Z", "H", "S", "T", "P", "Swap", "CX", "CZ", "CP", "CCX", "MCX1", "MCX2", "MCX3",
         "MCtrlX1", "MCtrlX2", "MCtrlX3", "MCtrlZ1", "MCtrlZ2", "MCtrlZ3", "MCtrlH1", "Barrier", "NopGate"]


def mk(kind, wires, p=None):
    d = dict(c=kind, n=0, g="", w=list(wires), p=None)
    if kind.startswith("MCX"):
        d.update(c="MCX", n=int(kind[3:]))
    elif kind.startswith("MCtrl"):
        d.update(c="MCtrl", g=kind[5], n=int(kind[6:]))
    if p is not None:
        d["p"] = C.param_text(p)
    return d


def arity(kind):
    if kind.startswith("MCX"):
        return int(kind[3:]) + 1
    if kind.startswith("MCtrl"):
        return int(kind[6:]) + 1
    return {"Swap": 2, "CX": 2, "CZ": 2, "CP": 2, "CCX": 3, "Barrier": 0, "NopGate": 0}.get(kind, 1)


def default_map(n):
    return [[f"q{i}", i] for i in range(n)]


def gen_map(rng, n, flavour):
    names = [rng.choice(["a", "b", "x", "anc_", "_ret", "v", "in"]) + str(i) for i in range(n)]
    if flavour == "default":
        return default_map(n)
    if flavour == "named":
        return [[names[i], i] for i in range(n)]
    if flavour == "dotted":
        return [[f"{rng.choice(['a', 'b', '_ret'])}.{i}", i] for i in range(n)]
    m = [[names[i], i] for i in range(n)]
    if flavour == "alias":
        for _ in range(rng.randint(1, 2)):
            m.insert(rng.randint(0, len(m)), [f"al{len(m)}", rng.randrange(n)])
        return m
    if flavour == "permuted":
        if n >= 2:
            i, j = rng.sample(range(n), 2)
            m[i], m[j] = m[j], m[i]
        return m
    if flavour == "missing":
        del m[rng.randrange(n)]
        return m
    raise ValueError(flavour)


def systematic_cases():
    """every gate kind alone / in the middle / next to a barrier / next to H, at the smallest size;
    every parameter value on P and CP; every name-map flavour"""
    out = []
    n = 4
    for kd in KINDS:
        a = arity(kd)
        w = [2, 0, 3, 1][:a]
        ps = [0.3] if kd in ("P", "CP") else [None]
        for p in ps:
            g = mk(kd, w, p)
            w2 = [1, 3, 0, 2][:a]
            g2 = mk(kd, w2, p)
            shapes = [[g], [mk("H", [0]), g, mk("X", [1])], [mk("Barrier", []), g, g2], [g, mk("H", [w[0] if w else 0]), g2, g]]
            for si, gs in enumerate(shapes):
                out.append((dict(label=f"sys-{kd}-{si}", name="qc", n=n, qmap=default_map(n), gates=gs), "systematic"))
    for p in PARAMS:
        gs = [mk("H", [0]), mk("P", [1], p), mk("CP", [1, 0], p), mk("X", [1])]
        out.append((dict(label=f"sys-param-{p!r}", name="qc", n=2, qmap=default_map(2), gates=gs), "systematic-param"))
    # parameters where they do not belong / missing where they do
    out.append((dict(label="sys-x-with-param", name="qc", n=2, qmap=default_map(2), gates=[mk("X", [0], 0.5)]), "systematic-badparam"))
    out.append((dict(label="sys-p-none", name="qc", n=2, qmap=default_map(2), gates=[mk("P", [0])]), "systematic-badparam"))
    out.append((dict(label="sys-cp-none", name="qc", n=2, qmap=default_map(2), gates=[mk("CP", [0, 1])]), "systematic-badparam"))
    out.append((dict(label="sys-barrier-label", name="qc", n=2, qmap=default_map(2), gates=[mk("X", [0]), mk("Barrier", [], "lab"), mk("CX", [0, 1])]), "systematic"))
    base = [mk("H", [0]), mk("CX", [0, 2]), mk("CCX", [2, 1, 0]), mk("X", [1])]
    maps = {
        "named": [["a", 0], ["b", 1], ["c", 2]],
        "dotted": [["a.0", 0], ["a.1", 1], ["_ret", 2]],
        "alias-end": [["a", 0], ["b", 1], ["c", 2], ["d", 0]],
        "alias-mid": [["a", 0], ["z", 1], ["b", 1], ["c", 2]],
        "permuted": [["a", 0], ["c", 2], ["b", 1]],
        "missing-used": [["a", 0], ["c", 2]],
        "rebound": [["a", 2], ["b", 1], ["r", 0]],
        "empty": [],
        # outside `wellNamed` (not identifier-shaped) although the lenient reader still copes
        "dashed": [["a-b", 0], ["b", 1], ["c", 2]],
        "fallback-noclash": [["q2", 0], ["q0", 2]],
    }
    for k, m in maps.items():
        out.append((dict(label=f"sys-map-{k}", name="fun", n=3, qmap=m, gates=base), "systematic-map"))
    out.append((dict(label="sys-map-missing-unused", name="fun", n=3, qmap=[["a", 0], ["c", 2]], gates=[mk("CX", [0, 2])]), "systematic-map"))
    out.append((dict(label="sys-map-fallback-clash", name="g", n=2, qmap=[["q1", 0]], gates=[mk("CX", [0, 1])]), "systematic-map"))
    out.append((dict(label="sys-map-fallback-clash2", name="g", n=3, qmap=[["q2", 0], ["_q2", 1]], gates=[mk("CCX", [0, 1, 2])]), "systematic-map"))
    out.append((dict(label="sys-name-dashed", name="my-gate", n=3, qmap=[["a", 0], ["b", 1], ["c", 2]], gates=base), "systematic-map"))
    out.append((dict(label="sys-empty", name="qc", n=2, qmap=default_map(2), gates=[]), "systematic"))
    out.append((dict(label="sys-name-clash", name="x", n=1, qmap=default_map(1), gates=[mk("X", [0])]), "systematic"))
    return out


SOURCES = [
    "def g1(a: bool, b: bool) -> bool:\n    c = a\n    return c and b",
    "def g2(a: bool, b: bool) -> Tuple[bool,bool]:\n    c = a and b\n    d = c\n    return (c, d)",
    "def g3(a: Qint[2], b: Qint[2]) -> Qint[2]:\n    c = a + b\n    d = c\n    return d + a",
    "def g4(a: bool, b: bool) -> bool:\n    a = not a\n    return a and b",
    "def g5(a: bool, b: bool, c: bool) -> bool:\n    return (a and b) ^ c",
    "def g6(a: Qint[2]) -> Qint[2]:\n    return a + 1",
    "def g7(a: bool) -> bool:\n    return not a",
    "def g8(a: Qint[2], b: Qint[2]) -> bool:\n    return a == b",
    "def g9(a: bool, b: bool, c: bool, d: bool) -> bool:\n    return a and b and c and d",
    "def g10(a: Qint[4]) -> Qint[4]:\n    return a + 3",
    "def g11(a: bool, b: bool) -> Tuple[bool,bool]:\n    c = a ^ b\n    return (c, c)",
    "def g12(a: Qint[2], b: bool) -> Qint[2]:\n    return a + 1 if b else a",
]


def compiled_cases(thorough):
    out = []
    for s in SOURCES:
        for unc in (True, False):
            for opt in (("default", "fast") if thorough else ("default",)):
                out.append((dict(label=s.split("(")[0][4:], src=s, uncompute=unc, opt=opt), "compiled"))
    return out


def seq_mutators():
    """every public way of changing a QCircuit (or getting a changed one), as step lists"""
    T = dict(n=3, gates=[mk("CCX", [0, 1, 2]), mk("X", [1])])
    T2 = dict(n=2, gates=[mk("CX", [1, 0]), mk("H", [1])])
    TP = dict(n=3, gates=[mk("CP", [2, 0], 0.25), mk("Barrier", []), mk("CZ", [1, 2])])
    S = lambda nm: {"sym": nm}  # noqa: E731
    out = [
        ("append", [dict(op="append", g=mk("X", [2]))]),
        ("append-cp", [dict(op="append", g=mk("CP", [2, 0], 0.25))]),
        ("append-mcx", [dict(op="append", g=mk("MCX2", [2, 0, 1]))]),
        ("append-nop", [dict(op="append", g=mk("NopGate", []))]),
        ("iadd-gate", [dict(op="iadd_gate", g=mk("CX", [1, 2]))]),
        ("iadd", [dict(op="iadd", other=T)]),
        ("iadd-small", [dict(op="iadd", other=T2)]),
        ("iadd-phase", [dict(op="iadd", other=TP)]),
        ("iadd-empty", [dict(op="iadd", other=dict(n=3, gates=[]))]),
        ("append_circuit", [dict(op="append_circuit", other=T, qubits=[0, 1, 2])]),
        ("append_circuit-perm", [dict(op="append_circuit", other=T, qubits=[2, 0, 1])]),
        ("append_circuit-small", [dict(op="append_circuit", other=T2, qubits=[2, 0])]),
        ("add_qubit", [dict(op="add_qubit", name=None)]),
        ("add_qubit-named", [dict(op="add_qubit", name="anc")]),
        ("add_qubit-sym", [dict(op="add_qubit", name=S("s"))]),
        ("add_qubit-use", [dict(op="add_qubit", name=None), dict(op="append", g=mk("CX", [0, 3]))]),
        ("add_qubit-rebinds", [dict(op="add_qubit", name="a")]),
        ("setitem-alias", [dict(op="setitem", key="z", qubit=0)]),
        ("setitem-rebind", [dict(op="setitem", key="a", qubit=1)]),
        ("setitem-sym", [dict(op="setitem", key=S("y"), qubit=2)]),
        ("delitem", [dict(op="delitem", key="b")]),
        ("delitem-sym", [dict(op="delitem", key=S("c"))]),
        ("delitem-setitem", [dict(op="delitem", key="a"), dict(op="setitem", key="a2", qubit=0)]),
        ("barrier", [dict(op="barrier", label=None)]),
        ("barrier-label", [dict(op="barrier", label="lab")]),
        ("rename", [dict(op="rename", name="other")]),
        ("add", [dict(op="add", other=T)]),
        ("add-small", [dict(op="add", other=T2)]),
        ("add-append", [dict(op="add", other=T), dict(op="append", g=mk("H", [2]))]),
        ("repeat0", [dict(op="repeat", k=0)]),
        ("repeat1", [dict(op="repeat", k=1)]),
        ("repeat2", [dict(op="repeat", k=2)]),
        ("repeat3", [dict(op="repeat", k=3)]),
        ("copy", [dict(op="copy", vanilla=False)]),
        ("copy-vanilla", [dict(op="copy", vanilla=True)]),
        ("deepcopy", [dict(op="deepcopy")]),
        ("copy-append", [dict(op="copy", vanilla=False), dict(op="append", g=mk("X", [2]))]),
        ("copy-iadd", [dict(op="copy", vanilla=False), dict(op="iadd", other=T)]),
        ("deepcopy-iadd", [dict(op="deepcopy"), dict(op="iadd", other=T)]),
        ("copy-vanilla-iadd", [dict(op="copy", vanilla=True), dict(op="iadd", other=T)]),
        ("qft", [dict(op="qft", wl=[0, 1, 2])]),
        ("iqft", [dict(op="iqft", wl=[2, "a"])]),
    ]
    for m in ("h", "z", "x", "y", "t", "s"):
        out.append((f"m-{m}", [dict(op="method", m=m, args=[2])]))
    out += [
        ("m-cx", [dict(op="method", m="cx", args=[1, 2])]),
        ("m-cx-names", [dict(op="method", m="cx", args=["c", "a"])]),
        ("m-x-sym", [dict(op="method", m="x", args=[S("b")])]),
        ("m-ccx", [dict(op="method", m="ccx", args=[2, 0, 1])]),
        ("m-cz", [dict(op="method", m="cz", args=[2, 1])]),
        ("m-swap", [dict(op="method", m="swap", args=[0, 2])]),
        ("m-cp", [dict(op="method", m="cp", args=[0.5, 2, 1])]),
        ("m-mcx", [dict(op="method", m="mcx", args=[[2, "a"], 1])]),
        ("m-mctrl-z", [dict(op="method", m="mctrl", args=["Z", [0, 2], 1])]),
        ("m-mctrl-x", [dict(op="method", m="mctrl", args=["X", [1], "c"])]),
    ]
    return out


def seq_base(label, steps, gates=None):
    return dict(label=label, name="fun", n=3, qmap=[["a", 0], ["b", 1], ["c", 2]],
                gates=gates if gates is not None else [mk("H", [0]), mk("CX", [0, 1])], steps=steps)


def systematic_sequences():
    """export (each framework / mode, or all of them) -> every public mutator -> export again"""
    out = []
    ALL = [dict(op="export_all")]
    T = dict(n=3, gates=[mk("CCX", [0, 1, 2]), mk("X", [1])])
    for nm, st in seq_mutators():
        out.append(seq_base(f"seq-all-{nm}", ALL + st))
    # one export only (a cache per framework / mode shows with that export alone), then the three
    # basic kinds of change: a gate, a composed circuit, a qubit
    for fw, ver, mode in ALL_EXPORTS:
        one = [dict(op="export", fw=fw, ver=ver, mode=mode)]
        tag = f"{fw}{ver or ''}-{mode}"
        out.append(seq_base(f"seq-{tag}-append", one + [dict(op="append", g=mk("X", [2]))]))
        out.append(seq_base(f"seq-{tag}-iadd", one + [dict(op="iadd", other=T)]))
        out.append(seq_base(f"seq-{tag}-add_qubit", one + [dict(op="add_qubit", name=None), dict(op="append", g=mk("CX", [0, 3]))]))
    # several rounds: export / change / export / change ... (an invalidation by one mutator must
    # not hide a missing one in the next round)
    out.append(seq_base("seq-rounds-append-iadd", ALL + [dict(op="append", g=mk("X", [2]))] + ALL + [dict(op="iadd", other=T)]))
    out.append(seq_base("seq-rounds-iadd-append", ALL + [dict(op="iadd", other=T)] + ALL + [dict(op="append", g=mk("X", [2]))]))
    out.append(seq_base("seq-rounds-names-iadd", ALL + [dict(op="setitem", key="z", qubit=1)] + ALL + [dict(op="append_circuit", other=T, qubits=[1, 2, 0])] + ALL + [dict(op="add_qubit", name="anc")]))
    out.append(seq_base("seq-rounds-repeat-append", ALL + [dict(op="repeat", k=2)] + ALL + [dict(op="append", g=mk("H", [1]))] + ALL + [dict(op="add", other=T)]))
    out.append(seq_base("seq-rounds-copy-chain", ALL + [dict(op="copy", vanilla=False)] + ALL + [dict(op="iadd", other=T)] + ALL + [dict(op="deepcopy")] + [dict(op="barrier", label=None)]))
    # the same on gates with parameters / barriers (qiskit, QASM) and without any previous export
    ph = [mk("H", [0]), mk("P", [1], 0.5), mk("Barrier", [], "b0"), mk("CP", [2, 0], 0.25), mk("MCtrlZ2", [0, 1, 2])]
    out.append(seq_base("seq-phase-iadd", ALL + [dict(op="iadd", other=dict(n=3, gates=ph))], gates=ph))
    out.append(seq_base("seq-phase-repeat", ALL + [dict(op="repeat", k=2)], gates=ph))
    out.append(seq_base("seq-phase-append", ALL + [dict(op="method", m="cp", args=[0.75, "c", "a"])], gates=ph))
    out.append(seq_base("seq-noexport-iadd", [dict(op="iadd", other=T)]))
    out.append(seq_base("seq-noexport-repeat", [dict(op="repeat", k=2)]))
    out.append(seq_base("seq-empty-iadd", ALL + [dict(op="iadd", other=T)], gates=[]))
    # a compiled function's circuit, exported, then extended
    src = "def g5(a: bool, b: bool, c: bool) -> bool:\n    return (a and b) ^ c"
    out.append(dict(label="seq-compiled-append", src=src, uncompute=True, opt="default", steps=ALL + [dict(op="method", m="x", args=["a"])]))
    out.append(dict(label="seq-compiled-iadd", src=src, uncompute=True, opt="default", steps=ALL + [dict(op="iadd", other=dict(n=2, gates=[mk("CX", [0, 1])]))]))
    return [(c, "sequence") for c in out]


def random_sequence(rng, k):
    """random circuit, random exports, random mutators"""
    case, _ = random_case(rng, 3 * k + rng.randrange(3))
    case["label"] = f"seq-rnd-{k}"
    st = St(case["name"], case["n"], case["qmap"], case["gates"])
    steps = []

    def exports():
        if rng.random() < 0.5:
            return [dict(op="export_all")]
        picks = rng.sample(ALL_EXPORTS, rng.randint(1, 3))
        return [dict(op="export", fw=fw, ver=ver, mode=mode) for fw, ver, mode in picks]

    def other(n):
        m = rng.randint(1, n)
        gs = [canon_gate(d) for d in C.rand_circuit(rng, m, rng.randint(0, 4))]
        return dict(n=m, gates=gs)

    steps += exports()
    for _ in range(rng.randint(1, 5)):
        n = st.n
        names = [kv[0] for kv in st.qmap]
        kind = rng.choice(["append", "append", "iadd_gate", "method", "iadd", "iadd", "append_circuit", "append_circuit", "add_qubit",
                           "setitem", "delitem", "barrier", "rename", "add", "repeat", "copy", "deepcopy", "qft"])
        if kind in ("append", "iadd_gate"):
            g = canon_gate(C.rand_gate(rng, n))
            step = dict(op=kind, g=g)
        elif kind == "method":
            m = rng.choice(["h", "z", "x", "y", "t", "s"] + (["cx", "cz", "swap", "cp"] if n >= 2 else []) + (["ccx", "mcx"] if n >= 3 else []))
            ar = {"cx": 2, "cz": 2, "swap": 2, "cp": 2, "ccx": 3, "mcx": 3}.get(m, 1)
            ws = rng.sample(range(n), ar)
            byname = {}
            for kk, v in st.qmap:
                byname.setdefault(v, kk)
            args = [(byname[w] if w in byname and st.wire(byname[w]) == w and rng.random() < 0.4 else w) for w in ws]
            if m == "cp":
                args = [rng.choice([0.5, 0.25, -1.5, math.pi / 4, rng.uniform(-3, 3)])] + args
            elif m == "mcx":
                args = [args[:-1], args[-1]]
            step = dict(op="method", m=m, args=args)
        elif kind == "iadd":
            step = dict(op="iadd", other=other(n))
        elif kind == "append_circuit":
            o = other(n)
            step = dict(op="append_circuit", other=o, qubits=rng.sample(range(n), o["n"]))
        elif kind == "add_qubit":
            step = dict(op="add_qubit", name=rng.choice([None, f"anc{len(steps)}", {"sym": f"s{len(steps)}"}]))
        elif kind == "setitem":
            step = dict(op="setitem", key=rng.choice(names + [f"n{len(steps)}", {"sym": f"y{len(steps)}"}]), qubit=rng.randrange(n))
        elif kind == "delitem":
            if not names:
                continue
            step = dict(op="delitem", key=rng.choice(names))
        elif kind == "barrier":
            step = dict(op="barrier", label=rng.choice([None, "lab"]))
        elif kind == "rename":
            step = dict(op="rename", name=rng.choice(["qc", "other", "g2", "fun_1"]))
        elif kind == "add":
            step = dict(op="add", other=other(n))
        elif kind == "repeat":
            if len(st.gates) > 12:
                continue
            step = dict(op="repeat", k=rng.randint(0, 3))
        elif kind == "copy":
            step = dict(op="copy", vanilla=rng.random() < 0.3)
        elif kind == "deepcopy":
            step = dict(op="deepcopy")
        else:
            if n < 2:
                continue
            step = dict(op=rng.choice(["qft", "iqft"]), wl=rng.sample(range(n), rng.randint(1, min(n, 3))))
        st, _new = model_step(st, step)
        steps.append(step)
        if rng.random() < 0.5:
            steps += exports()
    case["steps"] = steps
    return case, "sequence-random"


def random_case(rng, k):
    n = rng.randint(1, 6) if k % 5 else rng.randint(1, 3)
    length = rng.randint(1, 12)
    gs = []
    for _ in range(length):
        d = C.rand_gate(rng, n)
        d.pop("id", None)
        if d["c"] in ("P", "CP") and rng.random() < 0.5:
            d["p"] = C.param_text(rng.choice(PARAMS + [round(rng.uniform(-7, 7), rng.randint(0, 6)), rng.uniform(-4, 4)]))
        if d["c"] == "I" and rng.random() < 0.7:
            d = mk("H", d["w"])
        gs.append(d)
    fl = rng.choice(["default"] * 3 + ["named"] * 3 + ["dotted", "alias", "permuted", "missing"])
    # sympy-friendly circuits now and then, so that exporter is exercised beyond refusals
    if k % 3 == 0:
        gs = C.rand_circuit(rng, n, length, kinds=[x for x in ["X", "H", "CX", "Swap", "CCX", "MCX", "Barrier"] if x in ("X", "H", "Barrier") or n >= 2])
        for d in gs:
            d.pop("id", None)
    return dict(label=f"rnd-{k}", name=rng.choice(["qc", "fun", "g", "oracle"]), n=n, qmap=gen_map(rng, n, fl), gates=gs), "random-" + fl


def fmt_cases(ctx, res, count):
    """`{p:.2f}` of CPython vs the model's exact rounding"""
    rng = ctx.rng
    vals = [k / 200 for k in range(0, 400)] + [-(k / 200) for k in range(1, 60)] + [k / 1000 for k in range(0, 300, 7)]
    vals += [rng.uniform(-10, 10) for _ in range(count)] + [round(rng.uniform(-100, 100), 3) for _ in range(count)]
    vals += [1e-5, 1e22, 123456789.125, 0.994999999999, 0.995, 2.5e-3, 4.35, 4.345, 4.355]
    reqs = []
    for v in vals:
        fr = Fraction(v)
        reqs.append(dict(op="c13.fmt2f", neg=math.copysign(1.0, v) < 0, num=str(abs(fr.numerator)), den=str(fr.denominator)))
    reps = ctx.model(reqs)
    for v, rep in zip(vals, reps or []):
        case = dict(fmt2f=repr(v))
        res.count(case, nontrivial=True, bucket="fmt2f")
        if rep.get("text") != f"{v:.2f}":
            res.disagree(case, "model's %.2f rounding differs from CPython's", code=f"{v:.2f}", model=rep)


# ------------------------------------------------------------------ entry points

def env_note(res):
    import cirq
    import qiskit
    import sympy

    res.notes.append(f"qiskit {qiskit.__version__}, cirq {cirq.__version__}, sympy {sympy.__version__}")
    res.notes.append("pennylane is not installed and the qutip exporter fails in the repo's baseline: both exporters are out of scope of this check")
    res.notes.append("whether a standard OpenQASM parser accepts the emitted text (no ';' on gate lines, names like cccx, dotted identifiers) is outside the property as stated and is not checked")


def run(ctx: Ctx) -> Result:
    res = Result("C13")
    res.rule = "circuit has >= 2 non-nop gates"
    res.assumptions = [
        "qiskit / cirq / sympy.physics.quantum gate semantics (x, cx, mcx, CNOT, CZPowGate, CGate ... mean the textbook gates): the model's output is the call list / text; validated numerically per case against harness/circ.py's simulator (<= 6 qubits)",
        "CPython float formatting '{p:.2f}' = round-half-even of the exact binary value (validated against the model on every run)",
        "harness-side readers of the exported objects (QuantumCircuit.data, cirq.decompose_once, sympy Mul.args, the line reader of the QASM text)",
    ]
    env_note(res)
    cases = systematic_cases() + systematic_sequences() + compiled_cases(ctx.thorough)
    n_rand = 6000 if ctx.thorough else 300
    for k in range(n_rand):
        cases.append(random_case(ctx.rng, k))
    # after the plain random circuits, so that those are the same as before for a given seed
    for k in range(800 if ctx.thorough else 40):
        cases.append(random_sequence(ctx.rng, k))
    check_circuits(ctx, res, cases)
    fmt_cases(ctx, res, 3000 if ctx.thorough else 300)
    return res


def witness_fails(ctx: Ctx, f):
    """does the finding's witness still violate the property on the real code?"""
    w = f.get("witness") or {}
    case = w.get("case")
    if not case:
        return None
    if case.get("steps"):
        run = run_steps(case)
        finish_seq(run)
        return any(f["id"] in x[2] for x in run.fails)
    qc = build_real(case)
    desc = describe(qc)
    obs, fails = evaluate(desc, qc, w["fw"], w.get("version"), w["mode"], desc["n"] <= 6)
    return any(f["id"] in x[2] for x in fails)


def replay(ctx: Ctx, payload):
    import json

    first = payload.get("first") or {}
    sub = first.get("case") or {}
    case = sub.get("case")
    if not case:
        print("nothing to replay (tie-broken payload?)")
        return 2
    for f in ctx.findings:
        if f.get("status", "open") == "open":
            try:
                f["_active"] = bool(witness_fails(ctx, f))
            except Exception:  # noqa
                f["_active"] = False
    res = Result("C13")
    check_circuit(ctx, res, case, "replay")
    print(json.dumps(dict(violations=res.violations[:3], disagreements=res.disagreements[:3]), indent=1, default=str)[:6000])
    return 1 if (res.violations or res.disagreements) else 0
