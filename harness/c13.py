"""C13 - exports denote the same operation on the same qubits.

For every generated circuit (hand-built gate lists over the library's gate set incl. MCX(k),
MCtrl(X/Z), P/CP with many parameter values, barriers, nop gates; name maps that are in order,
dotted, aliased, permuted or incomplete; compiled qlassf functions) and every exporter
(qiskit, cirq, sympy, OpenQASM 2 and 3) in both modes:

(a) always-on search on the REAL code, judged by oracles that do not use the code under test:
    the instruction list of the exported object (qiskit `data`, cirq `decompose_once`, sympy
    factors, QASM text read by the small parser below) must be the circuit's non-nop gates -
    same base gate, number of controls, wire indices, parameter value, same order - and the
    unitary of the exported object (qiskit Operator, cirq.unitary, sympy represent) must be the
    one computed by harness/circ.py's own state-vector simulator (<= 6 qubits); the QASM gate
    must declare exactly one formal per qubit, in index order, and the call must bind q[0..n-1].
(b) correspondence with the Lean model (QV/Model/Export.lean) through the driver: the sequence
    of library calls made by the qiskit exporter (recorded by wrapping QuantumCircuit methods),
    the cirq op list, the sympy factor list and the QASM text are compared exactly; the Lean
    reader `parseDecl` is run on the real text and compared with the Python reader.
(c) a failing case is attributed to an open finding only if its precise trigger holds, the
    failing sub-check is the one the finding explains, and the quirk-model reproduces the
    code's output exactly.
"""
from __future__ import annotations

import ast
import math
from fractions import Fraction

from . import circ as C
from .common import Ctx, Result

LEVEL = "proof"

FRAMEWORKS = [("qiskit", None), ("cirq", None), ("sympy", None), ("qasm", 3), ("qasm", 2)]
MODES = ["circuit", "gate"]

# ------------------------------------------------------------------ oracle tables (own)

# gate class -> (base, number of controls); None = nop
def kind_of(d):
    c = d["c"]
    if c in ("Barrier", "NopGate"):
        return None
    if c in ("I", "X", "Y", "Z", "H", "S", "T", "P"):
        return (c, 0)
    if c == "Swap":
        return ("SWAP", 0)
    if c in ("CX", "CZ", "CP"):
        return (c[1], 1)
    if c == "CCX":
        return ("X", 2)
    if c == "MCX":
        return ("X", d["n"])
    if c == "MCtrl":
        return (d["g"], d["n"])
    raise ValueError(c)


# what each exporter is expected to handle (anything else: it must refuse with "not handled")
def exportable(fw, d):
    c = d["c"]
    if c in ("Barrier", "NopGate"):
        return True
    if fw == "qiskit":
        if c == "MCtrl":
            return d["g"] in ("X", "Z")
        return c != "I"
    if fw == "cirq":
        if c == "MCtrl":
            return d["g"] in ("X", "Z")
        return c != "P"
    if fw == "sympy":
        return c in ("X", "H", "CX", "Swap", "CCX", "MCX")
    if fw == "qasm":
        return True
    raise ValueError(fw)


def pval(text):
    """python value of a parameter text"""
    if text is None:
        return None
    try:
        return ast.literal_eval(text)
    except Exception:
        return text


def is_num(p):
    return isinstance(p, (int, float)) and not isinstance(p, bool) and math.isfinite(p)


def expected_ops(gates):
    out = []
    for d in gates:
        k = kind_of(d)
        if k is None:
            continue
        out.append((k[0], k[1], tuple(d["w"]), d.get("p")))
    return out


def fvals_of(gates):
    rows, seen = [], set()
    for d in gates:
        t = d.get("p")
        if t is None or t in seen:
            continue
        seen.add(t)
        p = pval(t)
        if is_num(p):
            fr = Fraction(p)
            neg = math.copysign(1.0, p) < 0
            rows.append([t, neg, str(abs(fr.numerator)), str(fr.denominator)])
    return rows


# ------------------------------------------------------------------ building the real circuit

def build_real(case):
    from qlasskit.qcircuit import QCircuit

    if case.get("src"):
        return compile_src(case)
    qc = QCircuit(case["n"], name=case["name"])
    qc.qubit_map = {k: v for k, v in case["qmap"]}
    for d in case["gates"]:
        qc.append(C.make_gate(d), list(d["w"]), pval(d.get("p")))
    return qc


def compile_src(case):
    from qlasskit import qlassf
    from qlasskit.boolopt import bool_optimizer

    opt = {"default": bool_optimizer.defaultOptimizer, "fast": bool_optimizer.fastOptimizer}[case.get("opt", "default")]
    qf = qlassf(case["src"], to_compile=True, uncompute=case.get("uncompute", True), bool_optimizer=opt)
    return qf.circuit()


def describe(qc):
    """circuit facts the model and the oracles work from"""
    return dict(name=qc.name, n=qc.num_qubits, qmap=[[k, v] for k, v in qc.qubit_map.items()],
                gates=[dict(c=d["c"], n=d["n"], g=d["g"], w=d["w"], p=d["p"]) for d in C.qc_to_json(qc)])


# ------------------------------------------------------------------ observing the real exporters

class QkSpy:
    """records the top-level QuantumCircuit method calls made on the first circuit touched"""
    NAMES = ["x", "y", "z", "h", "s", "t", "p", "swap", "cx", "cz", "cp", "ccx", "mcx", "append", "barrier", "i", "id"]

    def __enter__(self):
        from qiskit import QuantumCircuit

        self.QC = QuantumCircuit
        self.calls, self.depth, self.saved, self.first = [], 0, {}, None
        spy = self

        def wrap(nm, orig):
            def w(self_, *a, **k):
                if spy.depth == 0 and spy.first == id(self_):
                    spy.calls.append((nm, a, k))
                spy.depth += 1
                try:
                    return orig(self_, *a, **k)
                finally:
                    spy.depth -= 1
            return w

        for nm in self.NAMES:
            if nm in QuantumCircuit.__dict__:
                self.saved[nm] = QuantumCircuit.__dict__[nm]
                setattr(QuantumCircuit, nm, wrap(nm, self.saved[nm]))

        # the exporter's circuit is the first one constructed; what qiskit does inside
        # to_gate / remove_final_measurements is not a call of the exporter's loop
        def quiet(orig, note_first=False):
            def w(self_, *a, **k):
                if note_first and spy.depth == 0 and spy.first is None:
                    spy.first = id(self_)
                spy.depth += 1
                try:
                    return orig(self_, *a, **k)
                finally:
                    spy.depth -= 1
            return w

        for nm in ("__init__", "to_gate", "remove_final_measurements"):
            self.saved[nm] = QuantumCircuit.__dict__[nm]
            setattr(QuantumCircuit, nm, quiet(self.saved[nm], nm == "__init__"))
        return self

    def __exit__(self, *exc):
        for nm, orig in self.saved.items():
            setattr(self.QC, nm, orig)
        return False


def ptxt(p):
    return None if p is None else C.param_text(p)


def canon_qk_call(nm, a, k):
    if nm == "mcx":
        return dict(m="mcx", ctrls=[int(x) for x in a[0]], t=int(a[1]))
    if nm == "append":
        g = a[0]
        base = getattr(getattr(g, "base_gate", None), "name", None)
        return dict(m="append_c" + str(base), n=getattr(g, "num_ctrl_qubits", None), w=[int(x) for x in a[1]])
    if nm == "barrier":
        return dict(m="barrier", label=ptxt(k.get("label")), extra=[str(x) for x in a])
    return dict(m=nm, args=[C.param_text(x) for x in a], kw=sorted(k))


def canon_model_qk(c):
    if c["m"] == "mcx":
        return dict(m="mcx", ctrls=c["ctrls"], t=c["t"])
    if c["m"] == "append_cz":
        return dict(m="append_cz", n=c["n"], w=c["w"])
    if c["m"] == "barrier":
        return dict(m="barrier", label=c["label"], extra=[])
    args = ([c["p"]["v"]] if c["p"] is not None else []) + [str(x) for x in c["w"]]
    return dict(m=c["m"], args=args, kw=[])


QK_PLAIN = {"x": "X", "y": "Y", "z": "Z", "h": "H", "s": "S", "t": "T", "p": "P", "swap": "SWAP", "id": "I"}


def qk_instructions(circ):
    """(base, nctrl, wires, params) per non-barrier instruction of a qiskit circuit"""
    out = []
    for ins in circ.data:
        op = ins.operation
        ws = tuple(circ.find_bit(b).index for b in ins.qubits)
        if op.name == "barrier":
            continue
        nctrl = getattr(op, "num_ctrl_qubits", None)
        if nctrl is not None and getattr(op, "base_gate", None) is not None:
            base = QK_PLAIN.get(op.base_gate.name, "?" + op.base_gate.name)
            if getattr(op, "ctrl_state", 2 ** nctrl - 1) != 2 ** nctrl - 1:
                base = "?ctrl_state"
        else:
            nctrl = 0
            base = QK_PLAIN.get(op.name, "?" + op.name)
        out.append((base, nctrl, ws, tuple(op.params)))
    return out


def barriers_of(circ):
    return [(tuple(circ.find_bit(b).index for b in ins.qubits), ins.operation.label)
            for ins in circ.data if ins.operation.name == "barrier"]


def per_wire(ops, n):
    """projection of an instruction list on every wire (equal projections <=> equal up to
    commuting instructions on disjoint wires)"""
    return [[o for o in ops if w in o[2]] for w in range(n)]


def ops_equal(got, exp):
    """got: (base, nctrl, wires, params tuple); exp: (base, nctrl, wires, ptext)"""
    if len(got) != len(exp):
        return False
    for g, e in zip(got, exp):
        if g[0] != e[0] or g[1] != e[1] or tuple(g[2]) != tuple(e[2]):
            return False
        ep = pval(e[3])
        if e[0] == "P":
            if len(g[3]) != 1 or not is_num(ep) or not is_num(g[3][0]) or Fraction(g[3][0]) != Fraction(ep):
                return False
        elif len(g[3]) != 0:
            return False
    return True


def run_qiskit(qc, mode):
    out = {}
    try:
        with QkSpy() as spy:
            obj = qc.export(mode, "qiskit")
        out["calls"] = [canon_qk_call(*c) for c in spy.calls]
        out["obj"] = obj
    except Exception as e:  # noqa
        out["exception"] = f"{type(e).__name__}: {e}"
    return out


def run_cirq(qc, mode):
    import cirq

    out = {}
    try:
        n = qc.num_qubits
        qs = cirq.LineQubit.range(n)
        if mode == "gate":
            Gt = qc.export("gate", "cirq")
            top = [Gt().on(*qs)]
            obj = cirq.Circuit(top)
        else:
            obj = qc.export("circuit", "cirq")
            top = list(obj.all_operations())
        out["top"] = [[q.x for q in op.qubits] for op in top]
        ops = []
        for op in top:
            ops.extend(cirq.decompose_once(op))
        out["ops"] = ops
        out["obj"] = obj
    except Exception as e:  # noqa
        out["exception"] = f"{type(e).__name__}: {e}"
    return out


def cirq_expected_gate(m):
    import cirq

    if m["k"] == "ctrl":
        return cirq.ControlledGate(sub_gate=getattr(cirq, m["sub"]), num_controls=m["n"])
    if m["k"] == "swap":
        return cirq.SWAP
    if m["k"] == "czpow":
        return cirq.CZPowGate(exponent=pval(m["p"]) / math.pi)
    return getattr(cirq, m["name"])


def cirq_ops_semantic(ops):
    """(base, nctrl, wires, params) of cirq operations, by an own reading of the cirq gates"""
    import cirq

    plain = [(cirq.X, "X", 0), (cirq.Y, "Y", 0), (cirq.Z, "Z", 0), (cirq.H, "H", 0), (cirq.S, "S", 0),
             (cirq.T, "T", 0), (cirq.I, "I", 0), (cirq.CNOT, "X", 1), (cirq.CZ, "Z", 1),
             (cirq.CCNOT, "X", 2), (cirq.SWAP, "SWAP", 0)]
    out = []
    for op in ops:
        g = op.gate
        ws = tuple(q.x for q in op.qubits)
        hit = None
        for obj, base, nc in plain:
            if g == obj:
                hit = (base, nc, ws, ())
                break
        if hit is None and isinstance(g, cirq.ControlledGate):
            try:
                cvs_ok = all(tuple(v) == (1,) for v in g.control_values)
            except Exception:  # noqa
                cvs_ok = False
            for obj, base, nc in plain[:7]:
                if g.sub_gate == obj and cvs_ok:
                    hit = (base, g.num_controls(), ws, ())
                    break
        if hit is None and isinstance(g, cirq.CZPowGate) and g.global_shift == 0:
            hit = ("P", 1, ws, (g.exponent * math.pi,))
        out.append(hit if hit is not None else ("?" + repr(g), 0, ws, ()))
    return out


def ops_close(got, exp):
    """like ops_equal but the parameter is compared numerically (cirq stores p/pi)"""
    if len(got) != len(exp):
        return False
    for g, e in zip(got, exp):
        if g[0] != e[0] or g[1] != e[1] or tuple(g[2]) != tuple(e[2]):
            return False
        if e[0] == "P":
            ep = pval(e[3])
            if len(g[3]) != 1 or not is_num(ep) or abs(g[3][0] - ep) > 1e-12 * max(1.0, abs(ep)):
                return False
        elif len(g[3]) != 0:
            return False
    return True


def run_sympy(qc, mode):
    out = {}
    try:
        out["obj"] = qc.export(mode, "sympy")
    except Exception as e:  # noqa
        out["exception"] = f"{type(e).__name__}: {e}"
    return out


def sympy_factors(expr, n, mode):
    """application-order list of canonical gate dicts + whether the |0..0> ket is present"""
    from sympy import Integer, Mul, Pow
    from sympy.physics.quantum.gate import CGate, CNotGate, HadamardGate, SwapGate, XGate
    from sympy.physics.quantum.qubit import Qubit

    if expr is None:
        return [], None
    fs = list(expr.args) if isinstance(expr, Mul) else [expr]
    fs = [f for f in fs if f != Integer(1)]
    ket = None
    if fs and isinstance(fs[-1], Qubit):
        ket = [int(v) for v in fs[-1].qubit_values]
        fs = fs[:-1]
    flat = []
    for f in fs:
        if isinstance(f, Pow) and isinstance(f.exp, Integer) and int(f.exp) > 0:
            flat.extend([f.base] * int(f.exp))
        else:
            flat.append(f)

    def one(f):
        if isinstance(f, CNotGate):
            return dict(k="CNOT", w=[int(f.controls[0]), int(f.targets[0])])
        if isinstance(f, CGate):
            g = f.gate
            if isinstance(g, XGate):
                return dict(k="CGate", ctrls=[int(c) for c in f.controls], t=int(g.targets[0]))
            return dict(k="?" + str(f))
        if isinstance(f, SwapGate):
            return dict(k="SWAP", w=[int(x) for x in f.targets])
        if isinstance(f, XGate):
            return dict(k="X", w=[int(f.targets[0])])
        if isinstance(f, HadamardGate):
            return dict(k="H", w=[int(f.targets[0])])
        return dict(k="?" + str(f))

    return [one(f) for f in reversed(flat)], ket


def sympy_cancel(gs):
    """sympy's Mul removes the square of an involutive gate as soon as it is formed
    (X, H, CNOT, CGate; SWAP**2 is kept): the product is built one factor at a time"""
    st = []
    for g in gs:
        if st and st[-1] == g and g["k"] != "SWAP":
            st.pop()
        else:
            st.append(g)
    return st


def sy_sem(g):
    if g["k"] == "CGate":
        return ("X", len(g["ctrls"]), tuple(g["ctrls"]) + (g["t"],), ())
    if g["k"] == "CNOT":
        return ("X", 1, tuple(g["w"]), ())
    if g["k"] in ("X", "H", "SWAP"):
        return (g["k"], 0, tuple(g["w"]), ())
    return (g["k"], 0, (), ())


def cancel_sem(ops):
    st = []
    for o in ops:
        if st and st[-1][:3] == o[:3] and o[0] in ("X", "H", "SWAP"):
            st.pop()
        else:
            st.append(o)
    return st


QASM_BASES = {"i": "I", "x": "X", "y": "Y", "z": "Z", "h": "H", "s": "S", "t": "T", "p": "P", "swap": "SWAP"}


def py_parse_qasm(text, version, mode):
    """independent reader of the emitted text -> dict(name, formals, lines, call, header_ok)"""
    hdr3 = "OPENQASM 3.0;\n\n"
    out = dict(header_ok=True, call=None)
    t = text
    if mode == "circuit":
        if version == 3:
            out["header_ok"] = t.startswith(hdr3)
            t = t[len(hdr3):]
            out["qreg"] = None
        else:
            pre = 'OPENQASM 2.0;\n\ninclude "qelib1.inc";\n\nqreg q['
            out["header_ok"] = t.startswith(pre)
            t = t[len(pre):]
            num, _, t = t.partition("];\n")
            out["qreg"] = int(num) if num.isdigit() else None
    lines = t.split("\n")
    l0 = [x for x in lines[0].split(" ") if x]
    if len(l0) < 3 or l0[0] != "gate" or l0[-1] != "{":
        return None
    out["name"], out["formals"] = l0[1], l0[2:-1]
    body, i = [], 1
    while i < len(lines) and lines[i] != "}":
        ln = lines[i]
        if not ln.startswith("\t"):
            return None
        toks = ln[1:].split(" ")
        head, args = toks[0], toks[1:]
        p = None
        if "(" in head:
            head, _, rest = head.partition("(")
            if not rest.endswith(")"):
                return None
            p = rest[:-1]
        body.append((head, p, args))
        i += 1
    if i >= len(lines):
        return None
    out["lines"] = body
    rest = lines[i + 1:]
    if mode == "gate":
        out["tail_ok"] = rest == ["", ""]
    else:
        out["tail_ok"] = len(rest) == 3 and rest[0] == "" and rest[2] == ""
        if out["tail_ok"]:
            cl = rest[1]
            nm, _, a = cl.partition(" ")
            out["call"] = (nm, a[:-1].split(",") if a.endswith(";") and len(a) > 1 else ([] if a == ";" else None))
    return out


def qasm_ops(parsed):
    """resolve the body against the formals: (base, nctrl, wires, ptext) or a reason string"""
    formals = parsed["formals"]
    out = []
    for head, p, args in parsed["lines"]:
        k = 0
        while head.startswith("c"):
            head, k = head[1:], k + 1
        if head not in QASM_BASES:
            return f"unknown gate name {head!r}"
        ws = []
        for a in args:
            if formals.count(a) != 1:
                return f"argument {a!r} is not exactly one formal"
            ws.append(formals.index(a))
        out.append((QASM_BASES[head], k, tuple(ws), p))
    return out


# ------------------------------------------------------------------ numerics

def own_unitary(n, gates):
    return C.unitary(n, [dict(d, p=pval(d.get("p"))) for d in gates])


def np_close(a, b, tol=1e-8):
    import numpy as np

    a, b = np.asarray(a, dtype=complex), np.asarray(b, dtype=complex)
    return a.shape == b.shape and bool(np.all(np.abs(a - b) < tol))


def rev_bits(i, n):
    return int(format(i, f"0{n}b")[::-1], 2) if n else 0


def cirq_unitary_le(obj, n):
    import cirq
    import numpy as np

    u = cirq.unitary(obj)
    idx = [rev_bits(i, n) for i in range(2 ** n)]
    return np.asarray(u)[np.ix_(idx, idx)]


# ------------------------------------------------------------------ findings: triggers

F_FORMALS = "C13-qasm-formals-from-names"
F_2F = "C13-qasm-param-2f"
F_ZERO = "C13-param-zero-dropped"
F_CIRQ = "C13-cirq-nop-raises"
QUIRK_OF = {F_FORMALS: "qasmFormalsFromKeys", F_2F: "qasmParam2f", F_ZERO: "exportParamTruthy", F_CIRQ: "cirqNopRaises"}


def nonnop(gates):
    return [d for d in gates if kind_of(d) is not None]


def wellformed(gates):
    """parameters exactly where the gate takes one (P, CP, MCtrl(P)), and numeric there"""
    for d in gates:
        k = kind_of(d)
        if k is None:
            continue
        if k[0] == "P":
            if d.get("p") is None or not is_num(pval(d["p"])):
                return False
        elif d.get("p") is not None:
            return False
    return True


# hypotheses of the Lean theorems C13_full / qasm_asis_resolves, computed independently of the model
BASE_NAMES = ("I", "X", "Y", "Z", "H", "S", "T", "P", "SWAP")


def py_ident(t):
    return len(t) > 0 and all((ch.isascii() and ch.isalnum()) or ch in "_." for ch in t)


def py_well_named(desc):
    """circuit / qubit names identifier-shaped and distinct, no name equal to the fallback q<i> of an unnamed qubit"""
    keys = [k for k, _ in desc["qmap"]]
    if not py_ident(desc["name"]) or not all(py_ident(k) for k in keys) or len(set(keys)) != len(keys):
        return False
    named = {v for _, v in desc["qmap"]}
    return not any(i not in named and f"q{i}" in keys for i in range(desc["n"]))


def py_domain(desc):
    gates, n = desc["gates"], desc["n"]
    return dict(
        wellNamed=py_well_named(desc),
        paramsPlain=all(d.get("p") is None or not any(ch in " \n" for ch in d["p"]) for d in gates),
        qasmExportable=all(d["c"] != "MCtrl" or d["g"] in BASE_NAMES for d in gates),
        wf=wellformed(gates) and all(len(d["w"]) == gate_arity(d) and all(0 <= w < n for w in d["w"]) for d in gates),
    )


def gate_arity(d):
    c = d["c"]
    if c in ("MCX", "MCtrl"):
        return d["n"] + 1
    return {"Swap": 2, "CX": 2, "CZ": 2, "CP": 2, "CCX": 3, "Barrier": 0, "NopGate": 0}.get(c, 1)


def trig_formals(desc):
    return [v for _, v in desc["qmap"]] != list(range(desc["n"]))


def gate_zero(d):
    p = pval(d.get("p"))
    return kind_of(d) is not None and d.get("p") is not None and is_num(p) and p == 0


def gate_lossy(d):
    p = pval(d.get("p"))
    return kind_of(d) is not None and is_num(p) and p != 0 and (Fraction(p) * 100).denominator != 1


def active(ctx, fid):
    return any(f["id"] == fid and f.get("status", "open") == "open" and f.get("_active") for f in ctx.findings)


def active_quirks(ctx):
    return sorted(QUIRK_OF[f["id"]] for f in ctx.findings
                  if f.get("status", "open") == "open" and f.get("_active") and f["id"] in QUIRK_OF)


# ------------------------------------------------------------------ one circuit through everything

def model_requests(desc, quirks):
    reqs = []
    fv = fvals_of(desc["gates"])
    for fw, ver in FRAMEWORKS:
        for mode in MODES:
            r = dict(op="c13.export", fw=fw, mode=mode, name=desc["name"], n=desc["n"], qmap=desc["qmap"],
                     gates=desc["gates"], fvals=fv, quirks=quirks)
            if ver:
                r["version"] = ver
            reqs.append(r)
    return reqs


def evaluate(desc, qc, fw, ver, mode, small):
    """run the real exporter; return (observation for the correspondence, list of failures).
    A failure is (tag, message, finding ids that could explain it)."""
    fails = []
    gates = desc["gates"]
    n = desc["n"]
    exp = expected_ops(gates)
    unexportable = [d["c"] for d in gates if not exportable(fw, d)]
    obs = {}
    if fw == "qiskit":
        r = run_qiskit(qc, mode)
        if "exception" in r:
            obs = dict(error=r["exception"])
            if unexportable and "not handled" in r["exception"]:
                return obs, fails
            who = [F_ZERO] if any(gate_zero(d) for d in gates) and r["exception"].startswith("TypeError") else []
            fails.append(("raise", "qiskit exporter raises: " + r["exception"], who))
            return obs, fails
        obs = dict(calls=r["calls"])
        obj = r["obj"]
        circ_ = obj if mode == "circuit" else obj.definition
        if obj.num_qubits != n:
            fails.append(("shape", f"exported object has {obj.num_qubits} qubits, circuit {n}", []))
            return obs, fails
        got = qk_instructions(circ_)
        if mode == "circuit":
            same = ops_equal(got, exp)
            nb = sum(1 for d in gates if d["c"] == "Barrier")
            if [b[0] for b in barriers_of(circ_)] != [tuple(range(n))] * nb:
                fails.append(("barrier", "barriers of the export differ from the circuit's", []))
        else:
            pg, pe = per_wire(got, n), per_wire(exp, n)
            same = len(got) == len(exp) and all(ops_equal(a, b) for a, b in zip(pg, pe))
        if not same:
            fails.append(("ops", "qiskit instruction list differs from the circuit's gates",
                          [], dict(got=[list(map(str, g)) for g in got][:40])))
        if small and not fails:
            from qiskit.quantum_info import Operator

            if not np_close(Operator(obj).data, own_unitary(n, gates)):
                fails.append(("unitary", "unitary of the qiskit export differs from the circuit's", []))
        return obs, fails
    if fw == "cirq":
        r = run_cirq(qc, mode)
        if "exception" in r:
            obs = dict(error=r["exception"])
            if unexportable and "not handled" in r["exception"]:
                return obs, fails
            nop = any(kind_of(d) is None for d in gates)
            who = [F_CIRQ] if nop and ("not handled for cirq exporter: Barrier" in r["exception"]
                                       or "not handled for cirq exporter: NopGate" in r["exception"]) else []
            fails.append(("raise", "cirq exporter raises: " + r["exception"], who))
            return obs, fails
        obs = dict(ops=r["ops"])
        if r["top"] != [list(range(n))]:
            fails.append(("shape", f"exported gate is applied to {r['top']}", []))
        got = cirq_ops_semantic(r["ops"])
        if not ops_close(got, exp):
            fails.append(("ops", "cirq operation list differs from the circuit's gates", [],
                          dict(got=[list(map(str, g)) for g in got][:40])))
        if small and not fails:
            if not np_close(cirq_unitary_le(r["obj"], n), own_unitary(n, gates)):
                fails.append(("unitary", "unitary of the cirq export differs from the circuit's", []))
        return obs, fails
    if fw == "sympy":
        r = run_sympy(qc, mode)
        if "exception" in r:
            obs = dict(error=r["exception"])
            if unexportable and "not handled" in r["exception"]:
                return obs, fails
            fails.append(("raise", "sympy exporter raises: " + r["exception"], []))
            return obs, fails
        fs, ket = sympy_factors(r["obj"], n, mode)
        obs = dict(factors=fs, ket=ket)
        if (mode == "circuit") != (ket is not None) or (ket is not None and ket != [0] * n):
            fails.append(("shape", f"initial ket of the sympy export is {ket}", []))
        got = [sy_sem(g) for g in fs]
        # both lists reduced to their normal form under removal of adjacent equal involutions
        if cancel_sem(got) != cancel_sem([(b, k, w, ()) for b, k, w, _ in exp]):
            fails.append(("ops", "sympy factor list differs from the circuit's gates (after removing squares of involutions)", [],
                          dict(got=[list(map(str, g)) for g in got][:40])))
        if small and not fails and n <= 4 and len(exp) <= 10 and fs:
            from sympy.physics.quantum.qapply import qapply
            from sympy.physics.quantum.represent import represent
            import numpy as np

            if mode == "gate":
                m = np.array(represent(r["obj"], nqubits=n).evalf().tolist(), dtype=complex)
                if not np_close(m, own_unitary(n, gates)):
                    fails.append(("unitary", "matrix of the sympy export differs from the circuit's", []))
            else:
                st = represent(qapply(r["obj"]), nqubits=n)
                v = np.array(st.evalf().tolist(), dtype=complex).reshape(-1)
                own = C.run_sv(n, [dict(d, p=pval(d.get("p"))) for d in gates])
                if not np_close(v, own):
                    fails.append(("unitary", "state of the sympy export differs from the circuit applied to |0..0>", []))
        return obs, fails
    # ---- qasm
    from qlasskit.qcircuit.exporter_qasm import QasmExporter

    try:
        text = qc.export(mode, "qasm") if ver == 3 else QasmExporter(version=2).export(qc, mode)
    except Exception as e:  # noqa
        obs = dict(error=f"{type(e).__name__}: {e}")
        who = [F_FORMALS] if trig_formals(desc) and "not found" in str(e) else []
        fails.append(("raise", "qasm exporter raises: " + obs["error"], who))
        return obs, fails
    obs = dict(text=text)
    P = py_parse_qasm(text, ver, mode) if isinstance(text, str) else None
    if P is None:
        fails.append(("text", "emitted text is not of the shape 'gate <name> <formals> {' / lines / '}'", []))
        return obs, fails
    obs["parsed"] = P
    if not P["header_ok"] or not P["tail_ok"] or P["name"] != desc["name"]:
        fails.append(("text", "header / tail / gate name of the emitted text is wrong", []))
    if mode == "circuit":
        if P["call"] is None or P["call"][0] != desc["name"] or P["call"][1] != [f"q[{i}]" for i in range(n)]:
            fails.append(("call", "the call does not apply the gate to q[0..n-1]", []))
        if ver == 2 and P.get("qreg") != n:
            fails.append(("call", "qreg size differs from the number of qubits", []))
    who_f = [F_FORMALS] if trig_formals(desc) else []
    if len(P["formals"]) != n:
        fails.append(("formals", f"gate declares {len(P['formals'])} formals for {n} qubits", who_f))
    ops = qasm_ops(P)
    if isinstance(ops, str):
        fails.append(("wires", ops, who_f))
        return obs, fails
    if len(ops) != len(exp):
        fails.append(("ops", "number of body lines differs from the number of non-nop gates", []))
        return obs, fails
    nn = nonnop(gates)
    for o, e, d in zip(ops, exp, nn):
        if o[0] != e[0] or o[1] != e[1]:
            fails.append(("ops", f"line {o} does not name gate {e}", []))
        elif o[2] != e[2]:
            fails.append(("wires", f"line applies to formal positions {o[2]}, gate to qubits {e[2]}", who_f))
        else:
            ep = pval(e[3])
            if e[3] is None or not is_num(ep):
                ok = o[3] is None
            else:
                try:
                    ok = o[3] is not None and Fraction(o[3]) == Fraction(ep)
                except ValueError:
                    ok = False
            if not ok:
                who = []
                if gate_zero(d) and o[3] is None:
                    who = [F_ZERO]
                elif gate_lossy(d) and o[3] is not None:
                    who = [F_2F]
                fails.append(("param", f"printed parameter {o[3]!r} is not the gate's parameter {e[3]}", who))
    return obs, fails


def compare_model(fw, mode, obs, rep):
    """exact correspondence; returns None or a message"""
    if "error" in obs or "error" in rep:
        if ("error" in obs) != ("error" in rep):
            return "one of model/code raises, the other does not"
        if ("not handled" in obs["error"]) != (rep["error"] == "unhandled"):
            return "model and code raise for different reasons"
        return None
    m = rep["ok"]
    if fw == "qiskit":
        if [canon_model_qk(c) for c in m] != obs["calls"]:
            return "QuantumCircuit call sequence differs"
    elif fw == "cirq":
        ops = obs["ops"]
        if len(ops) != len(m):
            return "number of cirq operations differs"
        for op, mm in zip(ops, m):
            if op.gate != cirq_expected_gate(mm) or [q.x for q in op.qubits] != mm["w"]:
                return f"cirq operation {op!r} differs from the model's {mm}"
    elif fw == "sympy":
        if obs["factors"] != sympy_cancel(m):
            return "sympy factor list differs"
    else:
        if obs["text"] != m:
            return "QASM text differs"
    return None


def strip_obs(obs):
    out = {}
    for k, v in obs.items():
        if k in ("ops",):
            out[k] = [repr(o) for o in v][:30]
        elif k == "parsed":
            continue
        else:
            out[k] = v
    return out


def observe(ctx, res, case, bucket, lean_parse=True):
    """one circuit x all exporters x both modes on the real code; returns the record to judge"""
    try:
        qc = build_real(case)
    except Exception as e:  # noqa
        res.notes.append(f"could not build case {case.get('label')}: {type(e).__name__}: {e}")
        return None
    desc = describe(qc)
    small = desc["n"] <= 6
    quirks = active_quirks(ctx)
    wf = wellformed(desc["gates"])
    reqs = model_requests(desc, quirks)
    observations = []
    k = 0
    parse_reqs, parse_idx = [], []
    for fw, ver in FRAMEWORKS:
        for mode in MODES:
            obs, fails = evaluate(desc, qc, fw, ver, mode, small)
            if not wf:
                fails = []  # outside the property's domain: correspondence only
            observations.append((fw, ver, mode, obs, fails))
            if fw == "qasm" and mode == "gate" and "text" in obs and isinstance(obs["text"], str) and lean_parse:
                parse_reqs.append(dict(op="c13.parse", text=obs["text"]))
                parse_idx.append(len(observations) - 1)
            k += 1
    dom_req = dict(op="c13.domain", name=desc["name"], n=desc["n"], qmap=desc["qmap"], gates=desc["gates"],
                   fvals=fvals_of(desc["gates"]), quirks=quirks)
    return dict(case=case, bucket=bucket, desc=desc, reqs=reqs + parse_reqs + [dom_req], nreq=len(reqs), parse_idx=parse_idx, observations=observations)


def judge(ctx, res, rec, replies):
    """decide one observed circuit given the model's replies (None: model does not build)"""
    case, bucket, desc, observations, parse_idx = rec["case"], rec["bucket"], rec["desc"], rec["observations"], rec["parse_idx"]
    nreq = rec["nreq"]
    for i, (fw, ver, mode, obs, fails) in enumerate(observations):
        sub = dict(case=case, fw=fw, version=ver, mode=mode)
        nontriv = len(nonnop(desc["gates"])) >= 2
        res.count(sub, nontrivial=nontriv, bucket=f"{bucket}/{fw}{ver or ''}/{mode}")
        rep = replies[i] if replies is not None else None
        diff = compare_model(fw, mode, obs, rep) if rep is not None and "driver_error" not in rep else None
        if rep is not None and "driver_error" in rep:
            diff = "driver error: " + rep["driver_error"]
        if fails:
            # attribute every failure, or report
            unexplained = []
            hit = set()
            for f in fails:
                who = [w for w in f[2] if active(ctx, w)]
                if who and diff is None and rep is not None:
                    hit.update(who)
                else:
                    unexplained.append(f)
            if unexplained:
                f = unexplained[0]
                res.violation(sub, f[1], code=strip_obs(obs), model=rep, expected=dict(ops=[list(map(str, e)) for e in expected_ops(desc["gates"])][:40], n=desc["n"]),
                              all_failures=[x[1] for x in fails], detail=(f[3] if len(f) > 3 else None), circuit=desc if case.get("src") else None)
            else:
                for w in hit:
                    res.known(w)
        elif diff is not None:
            res.disagree(sub, diff, code=strip_obs(obs), model=rep)
    # the Lean reader on the real text vs the Python reader
    if replies is not None:
        for j, oi in enumerate(parse_idx):
            rep = replies[nreq + j]
            fw, ver, mode, obs, fails = observations[oi]
            P = obs.get("parsed")
            sub = dict(case=case, fw=fw, version=ver, mode=mode, reader=True)
            if P is None:
                if rep.get("decl") is not None:
                    res.disagree(sub, "Lean reader accepts a text the Python reader rejects", code=obs.get("text"), model=rep)
                continue
            d = rep.get("decl")
            mine = dict(name=P["name"], formals=P["formals"], body=[dict(g=h, p=p, args=a) for h, p, a in P["lines"]])
            if d != mine:
                res.disagree(sub, "Lean reader and Python reader differ on the emitted text", code=mine, model=d)
                continue
            po = qasm_ops(P)
            # Lean resolves a duplicated formal to its first position; the Python reader refuses
            if not isinstance(po, str):
                lo = rep.get("ops")
                if lo is None or [(o["base"], o["nctrl"], tuple(o["w"]), o["p"]) for o in lo] != po:
                    res.disagree(sub, "Lean reader and Python reader resolve the body differently", code=[list(map(str, x)) for x in po], model=lo)


    # the hypotheses of C13_full / qasm_asis_resolves: model's predicates vs the harness' own, and on
    # the real code what the theorems conclude from them (export returns, one distinct
    # identifier-shaped formal per qubit, every line resolves)
    dom = py_domain(desc)
    sub = dict(case=case, domain=True)
    in_domain = all(dom.values())
    res.count(sub, nontrivial=in_domain and len(nonnop(desc["gates"])) >= 2, bucket=f"{bucket}/domain/{'in' if in_domain else 'out'}")
    if replies is not None:
        rep = replies[nreq + len(parse_idx)]
        if "driver_error" in rep:
            res.disagree(sub, "driver error: " + rep["driver_error"], code=dom, model=rep)
        elif {k: rep.get(k) for k in dom} != dom:
            res.disagree(sub, "model's wellNamed / paramsPlain / qasmExportable / gateWF differ from the harness' own", code=dom, model=rep)
        elif in_domain and not (rep.get("readable") and rep.get("nodup")):
            res.disagree(sub, "in the theorem's domain but the model's export is not readable / its formals not distinct", code=dom, model=rep)
    if in_domain:
        for fw, ver, mode, obs, fails in observations:
            if fw != "qasm":
                continue
            P = obs.get("parsed")
            ok = P is not None and len(set(P["formals"])) == desc["n"] == len(P["formals"]) and all(py_ident(f) for f in P["formals"]) \
                and not isinstance(qasm_ops(P), str)
            if not ok:
                res.violation(dict(case=case, fw=fw, version=ver, mode=mode, domain=True),
                              "circuit satisfies wellNamed / paramsPlain / qasmExportable but the real QASM export raises, is unreadable, or its formals are not one distinct identifier per qubit",
                              code=strip_obs(obs), expected=dict(n=desc["n"], domain=dom))


def check_circuits(ctx, res, cases, chunk=150):
    """observe the real code on a chunk of circuits, ask the model once, judge"""
    for k in range(0, len(cases), chunk):
        recs = [r for r in (observe(ctx, res, case, bucket) for case, bucket in cases[k:k + chunk]) if r is not None]
        allreq = [q for r in recs for q in r["reqs"]]
        replies = ctx.model(allreq) if allreq else []
        pos = 0
        for r in recs:
            m = len(r["reqs"])
            judge(ctx, res, r, replies[pos:pos + m] if replies is not None else None)
            pos += m


def check_circuit(ctx, res, case, bucket):
    check_circuits(ctx, res, [(case, bucket)])


# ------------------------------------------------------------------ generators

PARAMS = [math.pi / 2, math.pi / 4, -math.pi / 8, 0.79, 1.0, 2 * math.pi / 3, 0.123456, 0.5, 0.25, -1.57,
          0.125, 0.165, 0.375, 2.675, 1.005, 0.005, 0.015, -0.001, 1e-05, 123456.789, 3, -2, 0.0, 0, 100.0, 0.995, 9.995]

KINDS = ["I", "X", "Y", "Z", "H", "S", "T", "P", "Swap", "CX", "CZ", "CP", "CCX", "MCX1", "MCX2", "MCX3",
         "MCtrlX1", "MCtrlX2", "MCtrlX3", "MCtrlZ1", "MCtrlZ2", "MCtrlZ3", "MCtrlH1", "Barrier", "NopGate"]


def mk(kind, wires, p=None):
    d = dict(c=kind, n=0, g="", w=list(wires), p=None)
    if kind.startswith("MCX"):
        d.update(c="MCX", n=int(kind[3:]))
    elif kind.startswith("MCtrl"):
        d.update(c="MCtrl", g=kind[5], n=int(kind[6:]))
    if p is not None:
        d["p"] = C.param_text(p)
    return d


def arity(kind):
    if kind.startswith("MCX"):
        return int(kind[3:]) + 1
    if kind.startswith("MCtrl"):
        return int(kind[6:]) + 1
    return {"Swap": 2, "CX": 2, "CZ": 2, "CP": 2, "CCX": 3, "Barrier": 0, "NopGate": 0}.get(kind, 1)


def default_map(n):
    return [[f"q{i}", i] for i in range(n)]


def gen_map(rng, n, flavour):
    names = [rng.choice(["a", "b", "x", "anc_", "_ret", "v", "in"]) + str(i) for i in range(n)]
    if flavour == "default":
        return default_map(n)
    if flavour == "named":
        return [[names[i], i] for i in range(n)]
    if flavour == "dotted":
        return [[f"{rng.choice(['a', 'b', '_ret'])}.{i}", i] for i in range(n)]
    m = [[names[i], i] for i in range(n)]
    if flavour == "alias":
        for _ in range(rng.randint(1, 2)):
            m.insert(rng.randint(0, len(m)), [f"al{len(m)}", rng.randrange(n)])
        return m
    if flavour == "permuted":
        if n >= 2:
            i, j = rng.sample(range(n), 2)
            m[i], m[j] = m[j], m[i]
        return m
    if flavour == "missing":
        del m[rng.randrange(n)]
        return m
    raise ValueError(flavour)


def systematic_cases():
    """every gate kind alone / in the middle / next to a barrier / next to H, at the smallest size;
    every parameter value on P and CP; every name-map flavour"""
    out = []
    n = 4
    for kd in KINDS:
        a = arity(kd)
        w = [2, 0, 3, 1][:a]
        ps = [0.3] if kd in ("P", "CP") else [None]
        for p in ps:
            g = mk(kd, w, p)
            w2 = [1, 3, 0, 2][:a]
            g2 = mk(kd, w2, p)
            shapes = [[g], [mk("H", [0]), g, mk("X", [1])], [mk("Barrier", []), g, g2], [g, mk("H", [w[0] if w else 0]), g2, g]]
            for si, gs in enumerate(shapes):
                out.append((dict(label=f"sys-{kd}-{si}", name="qc", n=n, qmap=default_map(n), gates=gs), "systematic"))
    for p in PARAMS:
        gs = [mk("H", [0]), mk("P", [1], p), mk("CP", [1, 0], p), mk("X", [1])]
        out.append((dict(label=f"sys-param-{p!r}", name="qc", n=2, qmap=default_map(2), gates=gs), "systematic-param"))
    # parameters where they do not belong / missing where they do
    out.append((dict(label="sys-x-with-param", name="qc", n=2, qmap=default_map(2), gates=[mk("X", [0], 0.5)]), "systematic-badparam"))
    out.append((dict(label="sys-p-none", name="qc", n=2, qmap=default_map(2), gates=[mk("P", [0])]), "systematic-badparam"))
    out.append((dict(label="sys-cp-none", name="qc", n=2, qmap=default_map(2), gates=[mk("CP", [0, 1])]), "systematic-badparam"))
    out.append((dict(label="sys-barrier-label", name="qc", n=2, qmap=default_map(2), gates=[mk("X", [0]), mk("Barrier", [], "lab"), mk("CX", [0, 1])]), "systematic"))
    base = [mk("H", [0]), mk("CX", [0, 2]), mk("CCX", [2, 1, 0]), mk("X", [1])]
    maps = {
        "named": [["a", 0], ["b", 1], ["c", 2]],
        "dotted": [["a.0", 0], ["a.1", 1], ["_ret", 2]],
        "alias-end": [["a", 0], ["b", 1], ["c", 2], ["d", 0]],
        "alias-mid": [["a", 0], ["z", 1], ["b", 1], ["c", 2]],
        "permuted": [["a", 0], ["c", 2], ["b", 1]],
        "missing-used": [["a", 0], ["c", 2]],
        "rebound": [["a", 2], ["b", 1], ["r", 0]],
        "empty": [],
        # outside `wellNamed` (not identifier-shaped) although the lenient reader still copes
        "dashed": [["a-b", 0], ["b", 1], ["c", 2]],
        "fallback-noclash": [["q2", 0], ["q0", 2]],
    }
    for k, m in maps.items():
        out.append((dict(label=f"sys-map-{k}", name="fun", n=3, qmap=m, gates=base), "systematic-map"))
    out.append((dict(label="sys-map-missing-unused", name="fun", n=3, qmap=[["a", 0], ["c", 2]], gates=[mk("CX", [0, 2])]), "systematic-map"))
    out.append((dict(label="sys-map-fallback-clash", name="g", n=2, qmap=[["q1", 0]], gates=[mk("CX", [0, 1])]), "systematic-map"))
    out.append((dict(label="sys-map-fallback-clash2", name="g", n=3, qmap=[["q2", 0], ["_q2", 1]], gates=[mk("CCX", [0, 1, 2])]), "systematic-map"))
    out.append((dict(label="sys-name-dashed", name="my-gate", n=3, qmap=[["a", 0], ["b", 1], ["c", 2]], gates=base), "systematic-map"))
    out.append((dict(label="sys-empty", name="qc", n=2, qmap=default_map(2), gates=[]), "systematic"))
    out.append((dict(label="sys-name-clash", name="x", n=1, qmap=default_map(1), gates=[mk("X", [0])]), "systematic"))
    return out


SOURCES = [
    "def g1(a: bool, b: bool) -> bool:\n    c = a\n    return c and b",
    "def g2(a: bool, b: bool) -> Tuple[bool,bool]:\n    c = a and b\n    d = c\n    return (c, d)",
    "def g3(a: Qint[2], b: Qint[2]) -> Qint[2]:\n    c = a + b\n    d = c\n    return d + a",
    "def g4(a: bool, b: bool) -> bool:\n    a = not a\n    return a and b",
    "def g5(a: bool, b: bool, c: bool) -> bool:\n    return (a and b) ^ c",
    "def g6(a: Qint[2]) -> Qint[2]:\n    return a + 1",
    "def g7(a: bool) -> bool:\n    return not a",
    "def g8(a: Qint[2], b: Qint[2]) -> bool:\n    return a == b",
    "def g9(a: bool, b: bool, c: bool, d: bool) -> bool:\n    return a and b and c and d",
    "def g10(a: Qint[4]) -> Qint[4]:\n    return a + 3",
    "def g11(a: bool, b: bool) -> Tuple[bool,bool]:\n    c = a ^ b\n    return (c, c)",
    "def g12(a: Qint[2], b: bool) -> Qint[2]:\n    return a + 1 if b else a",
]


def compiled_cases(thorough):
    out = []
    for s in SOURCES:
        for unc in (True, False):
            for opt in (("default", "fast") if thorough else ("default",)):
                out.append((dict(label=s.split("(")[0][4:], src=s, uncompute=unc, opt=opt), "compiled"))
    return out


def random_case(rng, k):
    n = rng.randint(1, 6) if k % 5 else rng.randint(1, 3)
    length = rng.randint(1, 12)
    gs = []
    for _ in range(length):
        d = C.rand_gate(rng, n)
        d.pop("id", None)
        if d["c"] in ("P", "CP") and rng.random() < 0.5:
            d["p"] = C.param_text(rng.choice(PARAMS + [round(rng.uniform(-7, 7), rng.randint(0, 6)), rng.uniform(-4, 4)]))
        if d["c"] == "I" and rng.random() < 0.7:
            d = mk("H", d["w"])
        gs.append(d)
    fl = rng.choice(["default"] * 3 + ["named"] * 3 + ["dotted", "alias", "permuted", "missing"])
    # sympy-friendly circuits now and then, so that exporter is exercised beyond refusals
    if k % 3 == 0:
        gs = C.rand_circuit(rng, n, length, kinds=[x for x in ["X", "H", "CX", "Swap", "CCX", "MCX", "Barrier"] if x in ("X", "H", "Barrier") or n >= 2])
        for d in gs:
            d.pop("id", None)
    return dict(label=f"rnd-{k}", name=rng.choice(["qc", "fun", "g", "oracle"]), n=n, qmap=gen_map(rng, n, fl), gates=gs), "random-" + fl


def fmt_cases(ctx, res, count):
    """`{p:.2f}` of CPython vs the model's exact rounding"""
    rng = ctx.rng
    vals = [k / 200 for k in range(0, 400)] + [-(k / 200) for k in range(1, 60)] + [k / 1000 for k in range(0, 300, 7)]
    vals += [rng.uniform(-10, 10) for _ in range(count)] + [round(rng.uniform(-100, 100), 3) for _ in range(count)]
    vals += [1e-5, 1e22, 123456789.125, 0.994999999999, 0.995, 2.5e-3, 4.35, 4.345, 4.355]
    reqs = []
    for v in vals:
        fr = Fraction(v)
        reqs.append(dict(op="c13.fmt2f", neg=math.copysign(1.0, v) < 0, num=str(abs(fr.numerator)), den=str(fr.denominator)))
    reps = ctx.model(reqs)
    for v, rep in zip(vals, reps or []):
        case = dict(fmt2f=repr(v))
        res.count(case, nontrivial=True, bucket="fmt2f")
        if rep.get("text") != f"{v:.2f}":
            res.disagree(case, "model's %.2f rounding differs from CPython's", code=f"{v:.2f}", model=rep)


# ------------------------------------------------------------------ entry points

def env_note(res):
    import cirq
    import qiskit
    import sympy

    res.notes.append(f"qiskit {qiskit.__version__}, cirq {cirq.__version__}, sympy {sympy.__version__}")
    res.notes.append("pennylane is not installed and the qutip exporter fails in the repo's baseline: both exporters are out of scope of this check")
    res.notes.append("whether a standard OpenQASM parser accepts the emitted text (no ';' on gate lines, names like cccx, dotted identifiers) is outside the property as stated and is not checked")


def run(ctx: Ctx) -> Result:
    res = Result("C13")
    res.rule = "circuit has >= 2 non-nop gates"
    res.assumptions = [
        "qiskit / cirq / sympy.physics.quantum gate semantics (x, cx, mcx, CNOT, CZPowGate, CGate ... mean the textbook gates): the model's output is the call list / text; validated numerically per case against harness/circ.py's simulator (<= 6 qubits)",
        "CPython float formatting '{p:.2f}' = round-half-even of the exact binary value (validated against the model on every run)",
        "harness-side readers of the exported objects (QuantumCircuit.data, cirq.decompose_once, sympy Mul.args, the line reader of the QASM text)",
    ]
    env_note(res)
    cases = systematic_cases() + compiled_cases(ctx.thorough)
    n_rand = 6000 if ctx.thorough else 300
    for k in range(n_rand):
        cases.append(random_case(ctx.rng, k))
    check_circuits(ctx, res, cases)
    fmt_cases(ctx, res, 3000 if ctx.thorough else 300)
    return res


def witness_fails(ctx: Ctx, f):
    """does the finding's witness still violate the property on the real code?"""
    w = f.get("witness") or {}
    case = w.get("case")
    if not case:
        return None
    qc = build_real(case)
    desc = describe(qc)
    obs, fails = evaluate(desc, qc, w["fw"], w.get("version"), w["mode"], desc["n"] <= 6)
    return any(f["id"] in x[2] for x in fails)


def replay(ctx: Ctx, payload):
    import json

    first = payload.get("first") or {}
    sub = first.get("case") or {}
    case = sub.get("case")
    if not case:
        print("nothing to replay (tie-broken payload?)")
        return 2
    for f in ctx.findings:
        if f.get("status", "open") == "open":
            try:
                f["_active"] = bool(witness_fails(ctx, f))
            except Exception:  # noqa
                f["_active"] = False
    res = Result("C13")
    check_circuit(ctx, res, case, "replay")
    print(json.dumps(dict(violations=res.violations[:3], disagreements=res.disagreements[:3]), indent=1, default=str)[:6000])
    return 1 if (res.violations or res.disagreements) else 0
