"""C17 - command-line tools print what the library computes.

Always-on search on the real code: `py2bexp.main()` and `py2qasm.main()` are called in-process
(patched sys.argv / stdin / stdout; the repo's own tool tests shell out to a `python` that does
not exist here) on generated scripts (1-3 qlassf functions, helpers, aliases, rebinding; names
whose alphabetical order differs from the definition order) x forms x formats x entry points x
QASM versions x stdin/file input x stdout/file output.  The printed text is judged by an oracle
that shares nothing with the tools: own parser for sympy's expression syntax and for DIMACS, own
evaluator, truth table of the selected function's return bits from `QlassF.expressions`
(evaluated sequentially) and from executing the Python semantics of the generated function;
DIMACS semantically under the best one-to-one numbering; QASM by own line parser against an
independently compiled circuit.  `convert_to_dimacs` is also called directly on every small CNF.
Correspondence: the same cases through the Lean model (QV.Model.Tools) - selection, combined
expression, normal-form dispatch, DIMACS text, QASM text - compared exactly.
"""
from __future__ import annotations

import contextlib
import importlib
import io
import itertools
import json
import os
import re
import shutil
import sys
import tempfile

from . import bexp as B
from .common import Ctx, Result

LEVEL = "proof"

WARNING = "Warning: DIMACS format is only supported for CNF form. Converting to CNF.\n"

# --------------------------------------------------------------------------- own parsers / evaluators

_TOK = re.compile(r"\s*(~|&|\||\^|\(|\)|,|[A-Za-z_][A-Za-z_0-9.]*)")


class ParseError(Exception):
    pass


def parse_sympy_text(text):
    """sympy's `str` of a boolean expression -> JSON BExp.  sympy parenthesises every change of
    operator, so one level holds a chain of a single operator; anything else is rejected."""
    s = text.strip()
    toks, i = [], 0
    while i < len(s):
        m = _TOK.match(s, i)
        if not m:
            raise ParseError(f"bad character at {i}: {s[i:i+10]!r}")
        toks.append(m.group(1))
        i = m.end()
    pos = [0]

    def peek():
        return toks[pos[0]] if pos[0] < len(toks) else None

    def eat(t=None):
        x = peek()
        if x is None or (t is not None and x != t):
            raise ParseError(f"expected {t!r}, got {x!r}")
        pos[0] += 1
        return x

    def unary():
        x = peek()
        if x == "~":
            eat()
            return ["not", unary()]
        if x == "(":
            eat()
            e = expr()
            eat(")")
            return e
        if x in ("ITE", "Implies"):
            eat()
            eat("(")
            xs = [expr()]
            while peek() == ",":
                eat()
                xs.append(expr())
            eat(")")
            if x == "ITE" and len(xs) == 3:
                return ["ite"] + xs
            if x == "Implies" and len(xs) == 2:
                return ["imp"] + xs
            raise ParseError("arity")
        if x is None or x in ("&", "|", "^", ")", ","):
            raise ParseError(f"unexpected {x!r}")
        eat()
        if x == "True":
            return ["tt"]
        if x == "False":
            return ["ff"]
        return ["sym", x]

    def expr():
        first = unary()
        op = peek()
        if op not in ("&", "|", "^"):
            return first
        xs = [first]
        while peek() == op:
            eat()
            xs.append(unary())
        if peek() in ("&", "|", "^"):
            raise ParseError("mixed operators without parentheses")
        return [{"&": "and", "|": "or", "^": "xor"}[op]] + xs

    e = expr()
    if pos[0] != len(toks):
        raise ParseError(f"trailing input {toks[pos[0]:][:3]}")
    return e


def is_lit(j):
    return j[0] == "sym" or (j[0] == "not" and j[1][0] == "sym")


def shape_ok(form, j):
    if form == "cnf":
        cl = lambda c: is_lit(c) or (c[0] == "or" and all(is_lit(x) for x in c[1:]))
        return j[0] in ("tt", "ff") or cl(j) or (j[0] == "and" and all(cl(c) for c in j[1:]))
    if form == "dnf":
        cu = lambda c: is_lit(c) or (c[0] == "and" and all(is_lit(x) for x in c[1:]))
        return j[0] in ("tt", "ff") or cu(j) or (j[0] == "or" and all(cu(c) for c in j[1:]))
    if form == "nnf":
        if j[0] in ("tt", "ff") or is_lit(j):
            return True
        return j[0] in ("and", "or") and all(shape_ok("nnf", c) for c in j[1:])
    if form == "anf":
        mono = lambda c: c[0] in ("tt", "sym") or (c[0] == "and" and all(x[0] == "sym" for x in c[1:]))
        return j[0] == "ff" or mono(j) or (j[0] == "xor" and all(mono(c) for c in j[1:]))
    return True


def parse_dimacs(text):
    """-> (nvars, clauses) or raises ParseError; strict: header counts must match"""
    lines = text.split("\n")
    while lines and lines[-1].strip() == "":
        lines.pop()
    if not lines:
        raise ParseError("empty")
    m = re.fullmatch(r"p cnf (\d+) (\d+)", lines[0])
    if not m:
        raise ParseError(f"bad header {lines[0]!r}")
    n, k = int(m.group(1)), int(m.group(2))
    clauses = []
    for ln in lines[1:]:
        t = ln.split()
        if not t or t[-1] != "0":
            raise ParseError(f"bad clause line {ln!r}")
        try:
            c = [int(x) for x in t[:-1]]
        except ValueError:
            raise ParseError(f"bad clause line {ln!r}")
        if any(x == 0 or abs(x) > n for x in c):
            raise ParseError(f"literal out of range in {ln!r}")
        clauses.append(c)
    if len(clauses) != k:
        raise ParseError(f"header says {k} clauses, {len(clauses)} printed")
    return n, clauses


def table_mask(names, fn):
    """bitmask over the 2^len(names) rows (row r: names[i] = bit i of r) where fn(env) holds"""
    m = 0
    for r in range(2 ** len(names)):
        env = {nm: bool((r >> i) & 1) for i, nm in enumerate(names)}
        if fn(env):
            m |= 1 << r
    return m


def dimacs_matches(nvars, clauses, names, fmask):
    """is there a one-to-one map of the DIMACS variables 1..nvars into `names` under which the
    clause set has exactly the satisfying assignments `fmask` (unmapped names are don't-cares)?"""
    m = len(names)
    if nvars > m:
        return False, "more DIMACS variables than argument bits"
    rows = 2 ** m
    full = (1 << rows) - 1
    col = []
    for i in range(m):
        c = 0
        for r in range(rows):
            if (r >> i) & 1:
                c |= 1 << r
        col.append(c)

    def ev(mapping):
        acc = full
        for cl in clauses:
            o = 0
            for lit in cl:
                c = col[mapping[abs(lit)]]
                o |= c if lit > 0 else (full & ~c)
            acc &= o
            if acc == 0 and fmask != 0:
                return 0
        return acc

    # signature of argument bit i: number of satisfying rows with bit i set
    fsig = [bin(fmask & col[i]).count("1") for i in range(m)]
    # the clause set's own signatures, computed on its own variables
    gn = nvars
    grows = 2 ** gn
    gfull = (1 << grows) - 1
    gcol = []
    for i in range(gn):
        c = 0
        for r in range(grows):
            if (r >> i) & 1:
                c |= 1 << r
        gcol.append(c)
    g = gfull
    for cl in clauses:
        o = 0
        for lit in cl:
            c = gcol[abs(lit) - 1]
            o |= c if lit > 0 else (gfull & ~c)
        g &= o
    scale = 2 ** (m - gn)
    gsig = [bin(g & gcol[i]).count("1") * scale for i in range(gn)]
    if bin(g).count("1") * scale != bin(fmask).count("1"):
        return False, "number of satisfying assignments differs"
    cands = [[j for j in range(m) if fsig[j] == gsig[i]] for i in range(gn)]
    order = sorted(range(gn), key=lambda i: len(cands[i]))
    mapping = {}
    used = set()
    budget = [200000]

    def bt(k):
        if budget[0] <= 0:
            return None
        if k == gn:
            budget[0] -= 1
            return dict(mapping) if ev(mapping) == fmask else None
        i = order[k]
        for j in cands[i]:
            if j in used:
                continue
            used.add(j)
            mapping[i + 1] = j
            r = bt(k + 1)
            if r is not None:
                return r
            used.discard(j)
            del mapping[i + 1]
        return None

    r = bt(0)
    if r is None:
        return False, "no one-to-one numbering gives the same satisfying assignments"
    return True, {str(k): names[v] for k, v in r.items()}


def parse_qasm(text):
    """lenient line parser of the exporter's text -> dict(version, gate, formals, body, applied, qreg)"""
    lines = [l for l in text.split("\n")]
    out = dict(version=None, gate=None, formals=None, body=[], applied=None, qreg=None, include=False)
    i = 0
    m = re.fullmatch(r"OPENQASM (\d\.\d);", lines[0]) if lines else None
    if not m:
        raise ParseError("no OPENQASM header")
    out["version"] = m.group(1)
    i = 1
    in_gate = False
    for ln in lines[1:]:
        if in_gate:
            if ln == "}":
                in_gate = False
            else:
                if not ln.startswith("\t"):
                    raise ParseError(f"bad body line {ln!r}")
                t = ln.strip().split(" ")
                out["body"].append((t[0], t[1:]))
            continue
        if ln.strip() == "":
            continue
        if ln == 'include "qelib1.inc";':
            out["include"] = True
            continue
        m = re.fullmatch(r"qreg q\[(\d+)\];", ln)
        if m:
            out["qreg"] = int(m.group(1))
            continue
        m = re.fullmatch(r"gate (\S+) (.*) \{", ln)
        if m:
            if out["gate"] is not None:
                raise ParseError("two gate definitions")
            out["gate"] = m.group(1)
            out["formals"] = m.group(2).split(" ")
            in_gate = True
            continue
        m = re.fullmatch(r"(\S+) (q\[\d+\](?:,q\[\d+\])*);", ln)
        if m and out["applied"] is None:
            out["applied"] = (m.group(1), [int(x) for x in re.findall(r"q\[(\d+)\]", m.group(2))])
            continue
        raise ParseError(f"unexpected line {ln!r}")
    if in_gate or out["gate"] is None or out["applied"] is None:
        raise ParseError("incomplete")
    return out


# --------------------------------------------------------------------------- generated functions

HEADER = ("from typing import Tuple\nfrom qlasskit import qlassf, qlassfa, Qint\n"
          "from qlasskit.boolopt.bool_optimizer import fastOptimizer, defaultOptimizer\n")
HEADER_BINDINGS = [["Tuple", None], ["qlassf", None], ["qlassfa", None], ["Qint", None],
                   ["fastOptimizer", None], ["defaultOptimizer", None]]

# ---- the configuration a script chooses for one function (everything the decorator / the call offers
# besides types/defs/compiler): how the QlassF is made and with which options
#   style: "qlassf" = bare decorator, "qlassfa" = decorator with arguments, "call" = qlassf(<source string>, ...)
DEFAULT_CFG = dict(style="qlassf", opt=None, to_compile=None, uncompute=None)


def mk_cfg(style="qlassf", opt=None, to_compile=None, uncompute=None):
    return dict(style=style, opt=opt, to_compile=to_compile, uncompute=uncompute)


def cfg_kwargs(cfg):
    parts = []
    if cfg["opt"]:
        parts.append(f"bool_optimizer={cfg['opt']}Optimizer")
    if cfg["to_compile"] is not None:
        parts.append(f"to_compile={cfg['to_compile']}")
    if cfg["uncompute"] is not None:
        parts.append(f"uncompute={cfg['uncompute']}")
    return ", ".join(parts)


def cfg_tag(cfg):
    t = cfg["style"]
    if cfg["opt"]:
        t += "+" + cfg["opt"]
    if cfg["to_compile"] is not None:
        t += "+nocompile" if cfg["to_compile"] is False else "+compile"
    if cfg["uncompute"] is not None:
        t += "+nouncompute" if cfg["uncompute"] is False else "+uncompute"
    return t
NAME_POOL = ["alpha", "beta", "gamma", "delta", "zeta", "kappa", "omega", "Bravo", "Zulu", "_under",
             "sigma", "theta", "lambda_", "rho", "Mike", "a_b", "eta"]


class Fn:
    """one generated qlassf function: source (without decorator), argument spec, python reference"""

    def __init__(self, name, args, ret, body, ref=None, tag="", cfg=None, py_auth=False):
        self.cfg = dict(cfg or DEFAULT_CFG)  # how the script builds the QlassF
        self.py_auth = py_auth  # judge against CPython's execution of the source (not the library's expressions)
        self.defname = None  # name of the `def` when it differs from the bound name (source-string style)
        self.name = name
        self.args = args  # [(name, 'bool'|int width)]
        self.ret = ret  # annotation text
        self.body = body  # list of lines
        self.ref = ref  # callable(values dict) -> tuple of return bits, or None
        self.tag = tag

    def src(self, name=None):
        ann = ", ".join(f"{a}: {'bool' if t == 'bool' else f'Qint[{t}]'}" for a, t in self.args)
        return f"def {name or self.name}({ann}) -> {self.ret}:\n" + "".join(f"    {l}\n" for l in self.body)

    def renamed(self, name):
        return Fn(name, self.args, self.ret, self.body, self.ref, self.tag, self.cfg, self.py_auth)

    def with_cfg(self, cfg):
        return Fn(self.name, self.args, self.ret, self.body, self.ref, self.tag, cfg, self.py_auth)

    def ret_tuple(self, r):
        """the value CPython returns -> tuple of return bits (Qint: little endian, modulo the width)"""
        def one(ann, v):
            ann = ann.strip()
            if ann == "bool":
                return (bool(v),)
            m = re.fullmatch(r"Qint\[(\d+)\]", ann)
            if m:
                return int_bits(int(v) % 2 ** int(m.group(1)), int(m.group(1)))
            raise ValueError(ann)
        m = re.fullmatch(r"Tuple\[(.*)\]", self.ret)
        if m:
            anns = [x for x in m.group(1).split(",")]
            out = ()
            for a, v in zip(anns, r):
                out += one(a, v)
            return out
        return one(self.ret, r)

    def bit_names(self):
        out = []
        for a, t in self.args:
            if t == "bool":
                out.append(a)
            else:
                out += [f"{a}.{k}" for k in range(t)]
        return out

    def values(self, env):
        v = {}
        for a, t in self.args:
            if t == "bool":
                v[a] = bool(env[a])
            else:
                v[a] = sum((1 << k) for k in range(t) if env[f"{a}.{k}"])
        return v


def int_bits(v, w):
    return tuple(bool((v >> k) & 1) for k in range(w))


def bool_fn(name, n, expr, tag="bool"):
    vs = "abcdefghij"[:n]
    return Fn(name, [(v, "bool") for v in vs], "bool", [f"return {expr}"],
              ref=lambda val, e=expr: (bool(eval(e, {}, dict(val))),), tag=tag)


def systematic_fns():
    """every CNF shape, intermediates, constants, multi-bit returns, > 8 variables - same for every seed"""
    F = []
    F.append(bool_fn("f", 1, "a", "cnf-symbol"))
    F.append(bool_fn("f", 1, "not a", "cnf-negated-symbol"))
    F.append(bool_fn("f", 1, "a or not a", "cnf-true"))
    F.append(bool_fn("f", 1, "a and not a", "cnf-false"))
    F.append(bool_fn("f", 2, "a or b", "cnf-single-clause-2"))
    F.append(bool_fn("f", 3, "a or b or c", "cnf-single-clause-3"))
    F.append(bool_fn("f", 3, "a or not b or c", "cnf-single-clause-neg"))
    F.append(bool_fn("f", 2, "a and b", "cnf-two-units"))
    F.append(bool_fn("f", 2, "a and not b", "cnf-two-units-neg"))
    F.append(bool_fn("f", 3, "(a or b) and (not b or c)", "cnf-two-clauses"))
    F.append(bool_fn("f", 3, "(a or b or not c) and (c or not b)", "cnf-repo-test"))
    F.append(bool_fn("f", 2, "a ^ b", "xor2"))
    F.append(bool_fn("f", 3, "a ^ b ^ c", "xor3"))
    F.append(bool_fn("f", 3, "(a and b) or (b and c) or (a and c)", "majority"))
    F.append(bool_fn("f", 3, "b if a else c", "ite"))
    F.append(bool_fn("f", 3, "a and (b or c)", "and-or"))
    F.append(bool_fn("f", 4, "(a == b) and (c != d)", "eq-ne"))
    F.append(bool_fn("f", 3, "a and b and not c", "cnf-three-units"))
    F.append(bool_fn("f", 2, "not (a and b)", "nand"))
    F.append(bool_fn("f", 3, "c or (a and b) or (not a and not b)", "unused-simplifies"))
    F.append(bool_fn("f", 2, "(a == (not a)) or b", "anf-complement-xor"))
    F.append(bool_fn("f", 2, "(a != (not a)) and b", "complement-xor-true"))
    F.append(bool_fn("f", 1, "((a and a) and (a == a)) != (((not a) or a) and a)", "anf-complement-or"))
    F.append(Fn("f", [("a", 4), ("b", 4)], "bool", ["return a == b"], ref=lambda v: (v["a"] == v["b"],), tag="qint-eq-8vars"))
    F.append(Fn("f", [(v, "bool") for v in "abcd"], "bool", ["e = a and b", "return (e or c) and (e ^ d)"],
                ref=lambda v: ((((v["a"] and v["b"]) or v["c"]) and ((v["a"] and v["b"]) ^ v["d"])),), tag="intermediate-stmt"))
    F.append(Fn("f", [("a", "bool"), ("b", "bool")], "Tuple[bool, bool]", ["return (a and b, a ^ b)"],
                ref=lambda v: (v["a"] and v["b"], v["a"] ^ v["b"]), tag="tuple-return"))
    F.append(Fn("f", [("a", 2), ("b", 2)], "bool", ["return a == b"], ref=lambda v: (v["a"] == v["b"],), tag="qint-eq"))
    F.append(Fn("f", [("a", 2), ("b", 2)], "bool", ["return a < b"], ref=lambda v: (v["a"] < v["b"],), tag="qint-lt"))
    F.append(Fn("f", [("a", 2), ("b", 2)], "Qint[2]", ["return a + b"],
                ref=lambda v: int_bits((v["a"] + v["b"]) % 4, 2), tag="qint-add"))
    F.append(Fn("f", [("a", 2), ("b", 2)], "Qint[4]", ["return a * b"],
                ref=lambda v: int_bits(v["a"] * v["b"], 4), tag="qint-mul-cse"))
    F.append(Fn("f", [("a", 4)], "Qint[4]", ["return a + 3"], ref=lambda v: int_bits((v["a"] + 3) % 16, 4), tag="qint-addconst-cse"))
    F.append(Fn("f", [("a", 4), ("b", 4)], "bool", ["return a > b"], ref=lambda v: (v["a"] > v["b"],), tag="qint-gt-8vars"))
    F.append(Fn("f", [("a", 2), ("c", "bool")], "bool", ["return (a == 3) and c"], ref=lambda v: (v["a"] == 3 and v["c"],), tag="mixed"))
    F.append(Fn("f", [("a", 3), ("b", 3), ("c", 3)], "bool", ["return (a == b) or (b == c)"],
                ref=lambda v: (v["a"] == v["b"] or v["b"] == v["c"],), tag="nine-vars"))
    F.append(Fn("f", [(v, "bool") for v in "abcdefghi"], "bool", ["return a or b or c or d or e or f or g or h or i"],
                ref=lambda v: (any(v.values()),), tag="nine-vars-or"))
    return F


def random_bool_expr(rng, vs, depth):
    if depth <= 0 or rng.random() < 0.25:
        v = rng.choice(vs)
        return v if rng.random() < 0.7 else f"(not {v})"
    k = rng.random()
    a = random_bool_expr(rng, vs, depth - 1)
    b = random_bool_expr(rng, vs, depth - 1)
    if k < 0.3:
        return f"({a} and {b})"
    if k < 0.6:
        return f"({a} or {b})"
    if k < 0.72:
        return f"({a} ^ {b})"
    if k < 0.8:
        return f"({a} == {b})"
    if k < 0.86:
        return f"({a} != {b})"
    if k < 0.93:
        c = random_bool_expr(rng, vs, depth - 1)
        return f"({a} if {b} else {c})"
    return f"(not {a})"


def random_fn(rng, name):
    k = rng.random()
    if k < 0.6:
        n = rng.randint(1, 5)
        vs = list("abcde"[:n])
        return bool_fn(name, n, random_bool_expr(rng, vs, rng.randint(1, 3)), "rand-bool")
    if k < 0.7:
        n = rng.randint(2, 4)
        vs = list("abcd"[:n])
        e1 = random_bool_expr(rng, vs, 2)
        e2 = random_bool_expr(rng, vs + ["t"], 2)
        return Fn(name, [(v, "bool") for v in vs], "bool", [f"t = {e1}", f"return {e2}"],
                  ref=lambda val, e1=e1, e2=e2: (bool(eval(e2, {}, dict(val, t=bool(eval(e1, {}, dict(val)))))),),
                  tag="rand-stmt")
    w = rng.choice([2, 2, 3, 4])
    kind = rng.choice(["eq", "ne", "lt", "add", "addc", "eqc", "addeq", "tuple"])
    c = rng.randrange(1, 2 ** w)
    if kind == "eq":
        return Fn(name, [("a", w), ("b", w)], "bool", ["return a == b"], lambda v: (v["a"] == v["b"],), "rand-qint-eq")
    if kind == "ne":
        return Fn(name, [("a", w), ("b", w)], "bool", ["return a != b"], lambda v: (v["a"] != v["b"],), "rand-qint-ne")
    if kind == "lt":
        return Fn(name, [("a", w), ("b", w)], "bool", ["return a < b"], lambda v: (v["a"] < v["b"],), "rand-qint-lt")
    if kind == "add":
        return Fn(name, [("a", w), ("b", w)], f"Qint[{w}]", ["return a + b"],
                  lambda v, w=w: int_bits((v["a"] + v["b"]) % 2 ** w, w), "rand-qint-add")
    if kind == "addc":
        return Fn(name, [("a", w)], f"Qint[{w}]", [f"return a + {c}"],
                  lambda v, w=w, c=c: int_bits((v["a"] + c) % 2 ** w, w), "rand-qint-addc")
    if kind == "eqc":
        return Fn(name, [("a", w), ("p", "bool")], "bool", [f"return (a == {c}) or p"],
                  lambda v, c=c: (v["a"] == c or v["p"],), "rand-qint-eqc")
    if kind == "addeq":
        w = min(w, 3)
        c = c % 2 ** w
        return Fn(name, [("a", w), ("b", w)], "bool", [f"return (a + b) == {c}"],
                  lambda v, w=w, c=c: ((v["a"] + v["b"]) % 2 ** w == c,), "rand-qint-addeq")
    return Fn(name, [("a", w), ("p", "bool")], "Tuple[bool, bool]", [f"return (a == {c}, p)"],
              lambda v, c=c: (v["a"] == c, v["p"]), "rand-tuple")



# --------------------------------------------------------------------------- configurations x re-binding bodies

def cpython_fn(name, args, ret, body, tag, cfg=None):
    """an Fn whose reference is CPython's own execution of the generated source (annotations are not
    evaluated); Qint arguments are python ints, a Qint[w] result is read modulo 2^w"""
    import __future__

    fn = Fn(name, args, ret, body, tag=tag, cfg=cfg, py_auth=True)
    ns = {}
    exec(compile(fn.src(), "<c17-cpython-ref>", "exec", flags=__future__.annotations.compiler_flag, dont_inherit=True), ns)
    pyf = ns[name]
    fn.ref = lambda val, pyf=pyf, fn=fn: fn.ret_tuple(pyf(**val))
    return fn


def _bools(names):
    return [(v, "bool") for v in names]


def config_bodies():
    """bodies that bind a name more than once (variables, arguments, through if / for), with readers of the
    name before and after the re-binding - the same list for every seed"""
    B_ = []
    add = lambda tag, args, ret, body: B_.append(cpython_fn("f", args, ret, body, tag))
    add("rebind-read-before-after", _bools("abe"), "bool", ["c = a and b", "d = c or e", "c = not a", "return d and c"])
    add("rebind-self-twice", _bools("abc"), "bool", ["t = a and b", "u = t or c", "t = t ^ c", "t = not t", "return u and t"])
    add("rebind-argument", _bools("abc"), "bool", ["a = a and b", "c = c or a", "a = not a", "return a ^ c"])
    add("rebind-swap", _bools("ab"), "bool", ["t = a", "a = b", "b = t", "return a and not b"])
    add("rebind-three-times", _bools("abcd"), "bool",
        ["t = a or b", "u = t and c", "t = c ^ d", "v = t or u", "t = not b", "return (t and v) or (u and not t)"])
    add("if-else-rebind", _bools("abc"), "bool",
        ["t = a", "u = t and c", "if b:", "    t = c", "else:", "    t = not t", "return t ^ u"])
    add("if-rebind", _bools("abc"), "bool", ["t = a", "u = t or c", "if b:", "    t = not c", "return t and u"])
    add("if-rebind-argument", _bools("abc"), "bool", ["d = a or c", "if a:", "    a = b", "return a and d"])
    add("for-rebind", _bools("abc"), "bool",
        ["t = a", "u = t", "for i in range(3):", "    t = t ^ b", "    u = u or t", "return t and (u ^ c)"])
    add("rebind-tuple-return", _bools("abe"), "Tuple[bool, bool]",
        ["c = a and b", "d = c ^ e", "c = not a", "return (d, c or e)"])
    add("rebind-qint", [("a", 2), ("b", 2), ("c", "bool")], "bool",
        ["t = a", "u = t == b", "t = b", "if c:", "    t = a", "return u or (t == 1)"])
    add("rebind-qint-return", [("a", 2), ("b", 2)], "Qint[2]", ["t = a", "u = t", "t = b", "return u if t == 2 else t"])
    add("intermediates-once", _bools("abcd"), "bool", ["e = a and b", "g = e or c", "return (g ^ d) and (e or d)"])
    return B_


def systematic_cfgs():
    return [
        mk_cfg("qlassf"),
        mk_cfg("qlassfa"),
        mk_cfg("qlassfa", opt="fast"),
        mk_cfg("qlassfa", opt="default"),
        mk_cfg("qlassfa", to_compile=False),
        mk_cfg("qlassfa", uncompute=False),
        mk_cfg("qlassfa", opt="fast", to_compile=False),
        mk_cfg("qlassfa", opt="fast", uncompute=False),
        mk_cfg("call"),
        mk_cfg("call", opt="fast"),
        mk_cfg("call", opt="fast", to_compile=False, uncompute=False),
        mk_cfg("call", opt="default", to_compile=False),
    ]


def random_cfg(rng):
    return mk_cfg(rng.choice(["qlassf", "qlassfa", "qlassfa", "call"]),
                  opt=rng.choice([None, "fast", "fast", "default"]),
                  to_compile=rng.choice([None, None, False, True]),
                  uncompute=rng.choice([None, None, False, True]))


def _normal_cfg(cfg):
    """the bare decorator takes no options"""
    if cfg["style"] == "qlassf" and cfg_kwargs(cfg):
        cfg = dict(cfg, style="qlassfa")
    return cfg


def random_rebind_fn(rng, name):
    """random straight-line / if / for body over booleans in which names are bound again (locals and
    arguments) and read before and after; reference = CPython"""
    n = rng.randint(2, 4)
    args = list("abcd"[:n])
    locs = ["t", "u", "v"]
    defined = list(args)
    lines = []

    def ex(depth=None):
        return random_bool_expr(rng, defined, rng.randint(1, 2) if depth is None else depth)

    # a first local so that something can be re-bound and read
    lines.append(f"t = {ex()}")
    defined.append("t")
    for _ in range(rng.randint(2, 5)):
        k = rng.random()
        if k < 0.55:
            pool = defined if rng.random() < 0.7 else locs
            x = rng.choice(pool)
            lines.append(f"{x} = {ex()}")
            if x not in defined:
                defined.append(x)
        elif k < 0.8:
            x = rng.choice(defined)
            lines.append(f"if {ex(1)}:")
            lines.append(f"    {x} = {ex()}")
            if rng.random() < 0.5:
                lines.append("else:")
                lines.append(f"    {rng.choice(defined)} = {ex()}")
        else:
            x = rng.choice(defined)
            lines.append(f"for i in range({rng.randint(1, 3)}):")
            lines.append(f"    {x} = {ex(1)}")
            if rng.random() < 0.5:
                lines.append(f"    {rng.choice(defined)} = {ex(1)}")
    if rng.random() < 0.2 and len(defined) >= 2:
        p, q = rng.sample(defined, 2)
        return cpython_fn(name, _bools(args), "Tuple[bool, bool]", lines + [f"return ({p}, {ex()})"], "rand-rebind-tuple")
    return cpython_fn(name, _bools(args), "bool", lines + [f"return {ex(2)}"], "rand-rebind")


class Script:
    """text + the module-level bindings it performs (execution order) + function table"""

    def __init__(self):
        self.text = HEADER
        self.bindings = [list(b) for b in HEADER_BINDINGS]
        self.fns = []  # Fn objects, index = id
        self.deflines = {}  # line number (1-based) of '@qlassf' and 'def' -> id
        self.strdefs = {}  # name of the `def` inside a source string handed to qlassf(...) -> id

    def add_fn(self, fn):
        i = len(self.fns)
        self.fns.append(fn)
        cfg = fn.cfg
        kw = cfg_kwargs(cfg)
        if cfg["style"] == "call":
            # the QlassF is made by calling qlassf on a source string; the def inside gets a name of its own
            fn.defname = f"{fn.name}_s{i}"
            self.strdefs[fn.defname] = i
            var = f"_src{i}"
            self.text += f"{var} = '''" + fn.src(fn.defname) + "'''\n"
            self.bindings.append([var, None])
            self.text += f"{fn.name} = qlassf({var}{', ' + kw if kw else ''})\n\n"
            self.bindings.append([fn.name, i])
            return i
        ln = self.text.count("\n") + 1
        self.deflines[ln] = i
        self.deflines[ln + 1] = i
        deco = "@qlassf" if cfg["style"] == "qlassf" else f"@qlassfa({kw})"
        assert cfg["style"] != "qlassf" or not kw
        self.text += deco + "\n" + fn.src() + "\n"
        self.bindings.append([fn.name, i])
        return i

    def add_plain(self, name):
        self.text += f"def {name}(x):\n    return x\n\n"
        self.bindings.append([name, None])

    def add_const(self, name, value="3"):
        self.text += f"{name} = {value}\n"
        self.bindings.append([name, None])

    def add_alias(self, name, of_name):
        self.text += f"{name} = {of_name}\n"
        cur = None
        for n, i in self.bindings:
            if n == of_name:
                cur = i
        self.bindings.append([name, cur])

    def final(self):
        d = {}
        for n, i in self.bindings:
            d[n] = i
        return d

    def to_json(self):
        return dict(text=self.text, bindings=self.bindings)


def single_script(fn):
    s = Script()
    s.add_fn(fn)
    return s


def random_script(rng):
    s = Script()
    names = rng.sample(NAME_POOL, 5)
    nf = rng.choice([1, 2, 2, 3, 3])
    for k in range(nf):
        if rng.random() < 0.3:
            s.add_plain(names[3] + str(k))
        fn = random_rebind_fn(rng, names[k]) if rng.random() < 0.45 else random_fn(rng, names[k])
        if rng.random() < 0.6:
            fn = fn.with_cfg(_normal_cfg(random_cfg(rng)))
        s.add_fn(fn)
    r = rng.random()
    if r < 0.15:
        s.add_alias(names[4], names[0])
    elif r < 0.3 and nf >= 2:
        # rebinding: the name of the first function is defined again, differently
        s.add_fn(random_fn(rng, names[0]))
    elif r < 0.4:
        s.add_const(names[0])  # a QlassF name rebound to a non-QlassF
    elif r < 0.5:
        s.add_const(names[4])
    return s


# --------------------------------------------------------------------------- running the tools

class Hooks:
    """observation points: wrappers around module attributes of the tools (DESIGN 2.4b)"""

    def __init__(self):
        self.py2bexp = importlib.import_module("qlasskit.tools.py2bexp")
        self.py2qasm = importlib.import_module("qlasskit.tools.py2qasm")
        self.log = None
        self.orig = {}
        for nm in ("to_anf", "to_cnf", "to_dnf", "to_nnf"):
            self._wrap_nf(nm)
        self._wrap_conv()
        self._wrap_dimacs()
        self._wrap_qasm()

    def _wrap_nf(self, nm):
        orig = getattr(self.py2bexp, nm)
        self.orig[nm] = orig

        def w(expr, *a, **k):
            entry = None
            if self.log is not None:
                try:
                    entry = [nm[3:], B.to_json(expr), None]
                except Exception as e:  # noqa
                    entry = [nm[3:], ["?", repr(expr)], None]
                self.log["nf"].append(entry)
            try:
                r = orig(expr, *a, **k)
            except BaseException as e:  # noqa  (a stopped run too: the entry must stay well-formed)
                if entry is not None:
                    entry[2] = {"error": type(e).__name__}
                raise
            if entry is not None:
                try:
                    entry[2] = B.to_json(r)
                except Exception:  # noqa
                    entry[2] = ["?", repr(r)]
                entry.append((expr, r))
            return r

        setattr(self.py2bexp, nm, w)

    def _wrap_conv(self):
        orig = self.py2bexp.convert_to_bool_expression
        self.orig["conv"] = orig

        def w(qf, form, *a, **k):
            if self.log is not None:
                self.log["selected"] = qf
                self.log["form_seen"] = form
            r = orig(qf, form, *a, **k)
            if self.log is not None:
                self.log["conv_result"] = r
            return r

        self.py2bexp.convert_to_bool_expression = w

    def _wrap_dimacs(self):
        orig = self.py2bexp.convert_to_dimacs
        self.orig["dimacs"] = orig

        def w(expr, *a, **k):
            if self.log is not None:
                try:
                    self.log["order"] = [s.name for s in expr.free_symbols]
                except Exception:  # noqa
                    self.log["order"] = None
            return orig(expr, *a, **k)

        self.py2bexp.convert_to_dimacs = w

    def _wrap_qasm(self):
        orig = self.py2qasm.convert_to_quasm
        self.orig["qasm"] = orig

        def w(qf, *a, **k):
            if self.log is not None:
                self.log["selected"] = qf
                self.log["qasm_args"] = dict(k)
            return orig(qf, *a, **k)

        self.py2qasm.convert_to_quasm = w

    def unhook(self):
        for nm in ("to_anf", "to_cnf", "to_dnf", "to_nnf"):
            setattr(self.py2bexp, nm, self.orig[nm])
        self.py2bexp.convert_to_bool_expression = self.orig["conv"]
        self.py2bexp.convert_to_dimacs = self.orig["dimacs"]
        self.py2qasm.convert_to_quasm = self.orig["qasm"]


_HOOKS = None
_TMP = None


def hooks():
    global _HOOKS, _TMP
    if _HOOKS is None:
        _HOOKS = Hooks()
        _TMP = tempfile.mkdtemp(prefix="qv_c17_")
    return _HOOKS


def cleanup():
    global _HOOKS, _TMP
    if _HOOKS is not None:
        _HOOKS.unhook()
        _HOOKS = None
    if _TMP and os.path.isdir(_TMP):
        shutil.rmtree(_TMP, ignore_errors=True)
    _TMP = None


class ToolTimeout(BaseException):
    """raised by the interval timer inside a tool run (BaseException: no `except Exception` of the code swallows it)"""


TOOL_TIMEOUT_S = float(os.environ.get("QV_C17_TOOL_TIMEOUT", "60"))
MAX_TOOL_S = [0.0, None]
N_TIMEOUTS = [0]  # after two stopped runs the limit drops to a tenth (a tree that hangs is reported, not waited for)


def _on_alarm(signum, frame):
    raise ToolTimeout()


def run_tool(tool, text, args, in_file=False, out_file=False):
    """call main() of py2bexp / py2qasm in-process; a run that does not end within TOOL_TIMEOUT_S
    (far above the slowest run on the unchanged tree: the 9-variable functions with a forced normal form take seconds) is stopped and reported as such"""
    import signal
    import time
    H = hooks()
    mod = H.py2bexp if tool == "py2bexp" else H.py2qasm
    argv = [tool] + list(args)
    outp = None
    if in_file:
        p = os.path.join(_TMP, "in_script.py")
        with open(p, "w") as f:
            f.write(text)
        argv += ["-i", p]
    if out_file:
        outp = os.path.join(_TMP, "out.txt")
        if os.path.exists(outp):
            os.remove(outp)
        argv += ["-o", outp]
    out, err = io.StringIO(), io.StringIO()
    H.log = dict(nf=[], selected=None, order=None)
    old = (sys.argv, sys.stdin, tempfile.tempdir)
    sys.argv, sys.stdin = argv, io.StringIO("" if in_file else text)
    tempfile.tempdir = _TMP
    exc = None
    old_handler = signal.signal(signal.SIGALRM, _on_alarm)
    t0 = time.time()
    try:
        with contextlib.redirect_stdout(out), contextlib.redirect_stderr(err):
            try:
                limit = TOOL_TIMEOUT_S if N_TIMEOUTS[0] < 2 else TOOL_TIMEOUT_S / 10
                signal.setitimer(signal.ITIMER_REAL, limit)
                try:
                    mod.main()
                finally:
                    signal.setitimer(signal.ITIMER_REAL, 0)
            except SystemExit as e:
                exc = f"SystemExit({e.code})"
            except ToolTimeout:
                exc = "ToolTimeout"
                N_TIMEOUTS[0] += 1
                H.log["exc_text"] = f"the tool did not finish within {limit:g} s"
            except Exception as e:  # noqa
                exc = type(e).__name__
                H.log["exc_text"] = f"{type(e).__name__}: {e}"[:300]
    finally:
        signal.setitimer(signal.ITIMER_REAL, 0)
        signal.signal(signal.SIGALRM, old_handler)
        if time.time() - t0 > MAX_TOOL_S[0]:
            MAX_TOOL_S[0], MAX_TOOL_S[1] = time.time() - t0, " ".join(argv[:5])
        sys.argv, sys.stdin, tempfile.tempdir = old
        log, H.log = H.log, None
        for fn in os.listdir(_TMP):
            if fn.startswith("qlassf_"):
                try:
                    os.remove(os.path.join(_TMP, fn))
                except OSError:
                    pass
    filetext = None
    if outp and os.path.exists(outp):
        filetext = open(outp).read()
    return dict(stdout=out.getvalue(), stderr=err.getvalue(), exc=exc, filetext=filetext, log=log)


# --------------------------------------------------------------------------- reference semantics

_REF_CACHE = {}


def reference(fn: Fn):
    """what the library computes for the function, independently of the tools:
    (argument bit names, return bit names, expressions JSON, mask of retConj, mask by python ref)"""
    key = (fn.src(), fn.py_auth)
    if key in _REF_CACHE:
        return _REF_CACHE[key]
    from qlasskit import QlassF

    qf = QlassF.from_function(fn.src(), to_compile=False)
    exprs = [[s.name, B.to_json(e)] for s, e in qf.expressions]
    rets = list(qf.returns.bitvec)
    argbits = []
    for a in qf.args:
        argbits += list(a.bitvec)
    r = dict(argbits=argbits, rets=rets, exprs=exprs, name=qf.name)

    def ret_bits(env):
        env = dict(env)
        for n, e in exprs:
            env[n] = B.eval_json(e, env)
        return tuple(bool(env.get(x, False)) for x in rets)

    r["ret_bits"] = ret_bits
    if len(argbits) <= 12:
        r["mask"] = table_mask(argbits, lambda env: all(ret_bits(env)))
        r["py_ok"] = None
        if fn.ref is not None and sorted(argbits) == sorted(fn.bit_names()):
            bad = None
            for k in range(2 ** len(argbits)):
                env = {nm: bool((k >> i) & 1) for i, nm in enumerate(argbits)}
                want = tuple(bool(x) for x in fn.ref(fn.values(env)))
                if want != ret_bits(env):
                    bad = (env, want, ret_bits(env))
                    break
            r["py_ok"] = bad is None
            r["py_bad"] = bad
            if fn.py_auth:
                # the meaning of the function is what CPython computes when it runs the source
                r["lib_mask"] = r["mask"]
                r["mask"] = table_mask(argbits, lambda env: all(fn.ref(fn.values(env))))
                r["py_ret_bits"] = lambda env: tuple(bool(x) for x in fn.ref(fn.values(env)))
    _REF_CACHE[key] = r
    return r


_CIRC_CACHE = {}


def reference_circuit(fn: Fn, compiler):
    src = fn.src(fn.defname or fn.name)
    key = (src, compiler, fn.cfg["opt"])
    if key in _CIRC_CACHE:
        return _CIRC_CACHE[key]
    from qlasskit import QlassF
    from qlasskit.boolopt.bool_optimizer import defaultOptimizer, fastOptimizer

    from . import circ as C

    # what py2qasm does with the selected QlassF: compile(compiler) with the default uncompute, on the
    # expressions of the optimizer profile the script chose
    kw = {}
    if fn.cfg["opt"]:
        kw["bool_optimizer"] = dict(fast=fastOptimizer, default=defaultOptimizer)[fn.cfg["opt"]]
    qf = QlassF.from_function(src, to_compile=True, compiler=compiler, **kw)
    qc = qf.circuit()
    def qname(i):
        # one formal per qubit, in index order: the last name mapped to the qubit, q<i> if it has none
        names = [k for k, v in qc.qubit_map.items() if v == i]
        if names:
            return names[-1]
        nm = f"q{i}"
        while nm in qc.qubit_map:
            nm = "_" + nm
        return nm

    r = dict(name=qc.name, qubits=[qname(i) for i in range(qc.num_qubits)],
             # the library's convention (QlassF.input_qubits / output_qubits): the argument bits are the
             # first qubits in order (a name bound again in the body moves in qubit_map), the result bits
             # are where the map sends the return names
             in_pos=list(range(sum(len(a.bitvec) for a in qf.args))),
             out_pos=[qc.qubit_map[b] for b in qf.returns.bitvec],
             qmap=[[k, v] for k, v in qc.qubit_map.items()], n=qc.num_qubits,
             gates=C.qc_to_json(qc),
             body=[(g.__name__.lower(),
                    [qname(w) for w in ws]) for g, ws, p in qc.gates
                   if type(g).__name__ not in ("NopGate", "Barrier")])
    _CIRC_CACHE[key] = r
    return r


# --------------------------------------------------------------------------- one case

PENDING = []  # (stage-1 requests, after1(replies)->stage-2 requests, final(replies2))


def flush(ctx):
    """two batched round trips through the model driver for everything queued"""
    items, PENDING[:] = list(PENDING), []
    reqs = [r for it in items for r in it[0]]
    rep = ctx.model(reqs) if reqs else []
    stage2, pos = [], 0
    for reqs1, after1, final in items:
        r = None if rep is None else rep[pos:pos + len(reqs1)]
        pos += len(reqs1)
        stage2.append(after1(r) or [])
    reqs = [r for x in stage2 for r in x]
    rep = ctx.model(reqs) if reqs else []
    pos = 0
    for (reqs1, after1, final), r2 in zip(items, stage2):
        r = None if rep is None else rep[pos:pos + len(r2)]
        pos += len(r2)
        final(r)


FORMS = [None, "anf", "cnf", "dnf", "nnf"]
FORMATS = [None, "dimacs"]


def expected_selection(script: Script, entry):
    """property-level expectation: (fn id | None, determined?)"""
    fin = script.final()
    q = sorted((n, i) for n, i in fin.items() if i is not None)
    if entry:
        return fin.get(entry), True
    if not q:
        return None, True
    if len({i for _, i in q}) == 1:
        return q[0][1], True
    return q[-1][1], False  # several functions, no -e: the property does not say; the model does


def quirks_of(ctx):
    return sorted({f.get("quirk") for f in ctx.findings if f.get("_active") and f.get("quirk")})


def active(ctx, fid):
    return any(f["id"] == fid and f.get("_active") for f in ctx.findings)


def selected_id(script: Script, qf):
    if qf is None:
        return None
    try:
        code = qf.original_f.__code__
        if code.co_filename == "<string>":  # made from a source string: identified by the def's own name
            return script.strdefs.get(qf.name, "?")
        ln = code.co_firstlineno
    except Exception:  # noqa
        return "?"
    return script.deflines.get(ln, "?")


def judge_bexp(script, case, out, form, fmt, want_id):
    """oracle on the printed text.  returns (ok, what, detail)"""
    if want_id is None:
        if out["exc"]:
            return False, f"tool raised {out['exc']} although no function is selected", None
        ok = out["stdout"] == "" and "No qlassf function found" in out["stderr"]
        return ok, "no function selected but something was printed", None
    fn = script.fns[want_id]
    ref = reference(fn)
    if out["exc"] == "ToolTimeout":
        why = stopped_in_sympy_on_correct_input(out["log"], ref)
        if why is None:
            return True, STOPPED_NOTE, None
        return False, f"the tool did not finish ({out['log'].get('exc_text')}); {why}", None
    if out["exc"]:
        return False, f"tool raised {out['exc']}: nothing printed", out["log"].get("exc_text")
    text = out["filetext"] if out["filetext"] is not None else out["stdout"]
    if fmt == "dimacs":
        warn_expected = form != "cnf"
        so = out["stdout"]
        if warn_expected:
            if not so.startswith(WARNING):
                return False, "stdout does not start with the conversion warning", so[:200]
            if out["filetext"] is None:
                text = so[len(WARNING):]
        try:
            n, clauses = parse_dimacs(text)
        except ParseError as e:
            return False, f"printed DIMACS does not parse: {e}", text[:300]
        ok, det = dimacs_matches(n, clauses, ref["argbits"], ref["mask"])
        if not ok:
            return False, f"DIMACS clause set is not the function under any one-to-one numbering: {det}", dict(nvars=n, clauses=clauses)
        return True, "", det
    try:
        j = parse_sympy_text(text)
    except ParseError as e:
        return False, f"printed expression does not parse: {e}", text[:300]
    free = B.syms_json(j)
    extra = [s for s in free if s not in ref["argbits"]]
    if extra:
        return False, f"printed expression has free symbols that are not argument bits: {extra}", text[:300]
    m = table_mask(ref["argbits"], lambda env: B.eval_json(j, env))
    if m != ref["mask"]:
        diff = m ^ ref["mask"]
        row = (diff & -diff).bit_length() - 1
        env = {nm: (row >> i) & 1 for i, nm in enumerate(ref["argbits"])}
        what = "printed expression is not equivalent to the conjunction of the return bits"
        if fn.py_auth:
            what += " as CPython computes them"
            if ref.get("py_ok") is False:
                what += " (the library's own default-profile expressions differ from CPython too)"
        return False, what, dict(at=env, printed=bool((m >> row) & 1), function=bool((ref["mask"] >> row) & 1))
    if form and not shape_ok(form, j):
        return False, f"printed expression is not in {form}", text[:300]
    if ref.get("py_ok") is False:
        return True, "note: library expressions differ from the python semantics (C01 matter)", None
    return True, "", None


STOPPED_NOTE = ("note: a run was stopped inside a sympy normal-form call whose input was the right expression "
                "(argument bits only, equivalent to the function): slowness of the parameter, not judged")


def json_size(j, cap):
    n, stack = 0, [j]
    while stack:
        x = stack.pop()
        n += 1
        if n > cap:
            return n
        stack.extend(y for y in x[1:] if isinstance(y, list))
    return n


def stopped_in_sympy_on_correct_input(log, ref):
    """a stopped run is excused only when the timer fired inside a sympy normal-form call (a parameter of
    the model, assumed total; sympy 1.12 `to_anf` needs 45 s on the 2400-operation tree that inlining a
    12-statement fast-profile body gives, minutes on `Qint[4] < Qint[4]`) and everything the tool had handed
    to sympy up to then was right: argument bits only, same truth table as the function (checked when
    nodes x rows <= 4e6, else not excused).  Returns None when excused, else why not."""
    nf = log.get("nf") or []
    if not nf or not (isinstance(nf[-1][2], dict) and nf[-1][2].get("error") == "ToolTimeout"):
        return "it was not inside a sympy normal-form call when stopped"
    for e in nf:
        j = e[1]
        cap = 4_000_000 >> min(len(ref["argbits"]), 20)
        if j[0] == "?" or json_size(j, cap) > cap:
            return f"the expression handed to sympy's to_{e[0]} has more than {cap} nodes (too large to be checked)"
        extra = [x for x in B.syms_json(j) if x not in ref["argbits"]]
        if extra:
            return f"the expression handed to sympy's to_{e[0]} has symbols that are not argument bits: {extra[:5]}"
        if table_mask(ref["argbits"], lambda env: B.eval_json(j, env)) != ref["mask"]:
            return f"the expression handed to sympy's to_{e[0]} is not equivalent to the function"
    return None


def model_bexp(ctx, script, case, out, form, fmt, entry):
    """requests for the model + a comparison closure"""
    log = out["log"]
    reqs = [dict(op="c17.select", bindings=script.bindings, entry=entry)]
    qf = log.get("selected")
    code_sel = selected_id(script, qf)
    have = qf is not None
    if have:
        exprs = [[s.name, B.to_json(e)] for s, e in qf.expressions]
        rets = list(qf.returns.bitvec)
        reqs.append(dict(op="c17.combined", quirks=quirks_of(ctx), rets=rets, exprs=exprs))

    def compare(replies, res):
        info = {}
        sel = replies[0]
        if "driver_error" in sel:
            res.disagree(case, "model error", model=sel)
            return info
        if sel.get("selected") != code_sel:
            res.disagree(case, "selected function differs", code=code_sel, model=sel)
            return info
        if not have:
            return info
        comb = replies[1]
        if "driver_error" in comb:
            res.disagree(case, "model error", model=comb)
            return info
        info["no_intermediates"] = comb.get("no_intermediates")
        # canonicalise the model's raw tree through sympy's constructors (SympyKernel parameter)
        try:
            canon = B.to_json(B.from_json(comb["combined"]))
        except Exception as e:  # noqa
            res.disagree(case, f"model's combined expression is not a sympy expression: {e}", model=comb)
            return info
        nf = [e[:3] for e in log["nf"]]
        if form is None:
            code_comb = B.to_json(log["conv_result"]) if "conv_result" in log else None
        else:
            code_comb = nf[0][1] if nf else None
        if code_comb != canon:
            res.disagree(case, "combined expression differs", code=code_comb, model=canon)
            return info
        info["second"] = dict(op="c17.output", quirks=quirks_of(ctx), form=form or "sympy",
                              format=fmt or "sympy", combined=canon, nf=nf, order=log.get("order") or [])
        info["nf"] = nf
        return info

    return reqs, compare


def compare_output(case, out, rep, res):
    """model's printed thing vs the tool's text; returns True when they agree exactly"""
    if "driver_error" in rep:
        res.disagree(case, "model error", model=rep)
        return False
    if "error" in rep:
        if out["exc"] != rep["error"]:
            res.disagree(case, "model raises, code differs", code=dict(exc=out["exc"], stdout=out["stdout"][:200]), model=rep)
            return False
        return True
    if out["exc"]:
        res.disagree(case, "code raises, model prints", code=out["exc"], model=rep)
        return False
    if rep.get("kind") == "expr":
        try:
            rendered = str(render_tree(rep["expr"]))
        except Exception as e:  # noqa
            res.disagree(case, f"cannot render the model's expression: {e}", model=rep)
            return False
        want_stdout, want_file = rendered + "\n", rendered
    else:
        want_stdout = rep["stdout"]
        want_file = rep["text"]
    if out["filetext"] is not None:
        warn = WARNING if rep.get("warned") else ""
        if out["filetext"] != want_file or out["stdout"] != warn:
            res.disagree(case, "file/stdout text differs", code=dict(file=out["filetext"][:400], stdout=out["stdout"][:200]),
                         model=dict(file=want_file[:400], stdout=warn))
            return False
        return True
    if out["stdout"] != want_stdout:
        res.disagree(case, "printed text differs", code=out["stdout"][:500], model=want_stdout[:500])
        return False
    return True


def render_tree(j):
    """the model's output tree as the sympy object with exactly that structure (no evaluation;
    `to_anf` keeps `True` as an argument of `Xor`)"""
    from sympy import Symbol, false, true
    from sympy.logic.boolalg import ITE, And, Implies, Not, Or, Xor

    t = j[0]
    if t == "tt":
        return true
    if t == "ff":
        return false
    if t == "sym":
        return Symbol(j[1])
    sub = [render_tree(x) for x in j[1:]]
    if t == "not":
        return Not(sub[0], evaluate=False)
    if t == "xor":
        return Xor(*sub, remove_true=False)
    return {"and": And, "or": Or, "ite": ITE, "imp": Implies}[t](*sub, evaluate=False)


def cnf_shape(nf):
    """JSON head of the CNF `convert_to_dimacs` iterated over (last cnf call of the log)"""
    last = None
    for e in nf:
        if e[0] == "cnf":
            last = e
    if last is None or isinstance(last[2], dict):
        return None
    return last[2]


def attribute(ctx, case, out, fmt, form, info, model_agrees, what):
    """finding ids whose precise trigger this failing case matches (model must reproduce the code)"""
    if not model_agrees:
        return []
    ids = []
    nf = info.get("nf") or []
    if out["exc"] == "ValueError" and (fmt == "dimacs" or form in ("cnf", "dnf")):
        failed = [e for e in nf if isinstance(e[2], dict) and e[2].get("error") == "ValueError"]
        if (failed and failed[-1][0] in ("cnf", "dnf") and failed[-1][1][0] != "?" and n_predicates(failed[-1][1]) > 8
                and active(ctx, "C17-nf-var-limit")):
            return ["C17-nf-var-limit"]
    if info.get("no_intermediates") is False and active(ctx, "C17-bexp-intermediates"):
        ids.append("C17-bexp-intermediates")
    if fmt == "dimacs":
        c = cnf_shape(nf)
        if c is not None:
            if c[0] == "or" and active(ctx, "C17-dimacs-single-clause"):
                ids.append("C17-dimacs-single-clause")
            if (c[0] in ("sym", "ff") or (c[0] == "not" and c[1][0] == "sym")) and active(ctx, "C17-dimacs-atom-cnf"):
                ids.append("C17-dimacs-atom-cnf")
    return ids


ANF_MAX_VARS = 10


def anf_monomials(j):
    """the printed/real ANF tree as a set of monomials (each a frozenset of variable names; the empty one is
    `True`); None when the tree is not a Zhegalkin polynomial"""
    def mono(c):
        if c[0] == "tt":
            return frozenset()
        if c[0] == "sym":
            return frozenset([c[1]])
        if c[0] == "and" and all(x[0] == "sym" for x in c[1:]):
            return frozenset(x[1] for x in c[1:])
        return None

    if j[0] == "ff":
        return set()
    ms = [mono(c) for c in j[1:]] if j[0] == "xor" else [mono(j)]
    if any(m is None for m in ms) or len(set(ms)) != len(ms):
        return None
    return set(ms)


def check_anf_model(ctx, res, case, log):
    """the model computes `to_anf` (QV/Model/Anf.lean, theorem anf_of_table_sound): for every logged call of
    the tool's `to_anf` over at most ANF_MAX_VARS variables the model's ANF of the logged input is compared with
    the logged output - same sorted variables, same set of monomials, same text under sympy's str"""
    todo = []
    for e in log.get("nf") or []:
        if e[0] != "anf" or isinstance(e[2], dict) or e[1][0] == "?" or e[2][0] == "?":
            continue
        if len(set(B.syms_json(e[1]))) > ANF_MAX_VARS:
            res.histogram["anf-model-vs-tool:skipped(more than 10 variables)"] = res.histogram.get(
                "anf-model-vs-tool:skipped(more than 10 variables)", 0) + 1
            continue
        todo.append(e)
    if not todo:
        return

    def after(replies):
        if replies is None:
            return []
        for e, rep in zip(todo, replies):
            res.histogram["anf-model-vs-tool:compared"] = res.histogram.get("anf-model-vs-tool:compared", 0) + 1
            sub = dict(case, anf_input=e[1])
            if "driver_error" in rep:
                res.disagree(sub, "model error (c17.anf)", model=rep)
                continue
            real = anf_monomials(e[2])
            mine = {frozenset(m) for m in rep["monomials"]}
            show = lambda ms: None if ms is None else sorted(sorted(m) for m in ms)
            if rep["monomials_rounds"] != rep["monomials"]:
                res.disagree(sub, "model: sympy's rounds and the transform by halves give different monomials", model=rep)
            elif rep["vars"] != sorted(set(B.syms_json(e[1]))):
                res.disagree(sub, "to_anf: sorted variables differ", code=sorted(set(B.syms_json(e[1]))), model=rep["vars"])
            elif real is None or real != mine or len(mine) != len(rep["monomials"]):
                res.disagree(sub, "to_anf: the model's monomials differ from the tool's", code=dict(tree=e[2], monomials=show(real)),
                             model=show(mine))
            elif len(e) > 3 and str(render_tree(rep["expr"])) != str(e[3][1]):
                res.disagree(sub, "to_anf: same monomials, different text", code=str(e[3][1])[:400],
                             model=str(render_tree(rep["expr"]))[:400])
            else:
                k = "anf-model-vs-tool:agree" + (" (>= 2 variables)" if len(rep["vars"]) >= 2 else " (< 2 variables)")
                res.histogram[k] = res.histogram.get(k, 0) + 1
        return []

    PENDING.append(([dict(op="c17.anf", expr=e[1]) for e in todo], after, lambda r2: None))


def run_bexp_case(ctx, res, script, entry, form, fmt, in_file, out_file, bucket):
    args = []
    if entry is not None:
        args += ["-e", entry]
    if form:
        args += ["-f", form]
    if fmt:
        args += ["-t", fmt]
    case = dict(tool="py2bexp", script=script.to_json(), args=args, in_file=in_file, out_file=out_file)
    out = run_tool("py2bexp", script.text, args, in_file, out_file)
    want_id, determined = expected_selection(script, entry)
    nontriv = want_id is not None and len(reference(script.fns[want_id])["argbits"]) >= 2
    res.count(case, nontrivial=nontriv, bucket=bucket)
    # oracle
    code_sel = selected_id(script, out["log"].get("selected"))
    sel_bad = None
    if determined and code_sel != want_id:
        sel_bad = f"the tool selected function {code_sel}, the script/option determine {want_id}"
    judge_id = want_id if determined else (code_sel if isinstance(code_sel, int) else want_id)
    ok, what, detail = judge_bexp(script, case, out, form, fmt, judge_id)
    if not determined and not isinstance(code_sel, int):
        ok, what = False, "several functions and no -e: the tool selected none of them"
    nf_broken = [(e[:3], w) for e in out["log"]["nf"] for w in [validate_nf(res, case, e)] if w]
    # model (deferred: requests are batched, see Pending)
    reqs, cmp1 = model_bexp(ctx, script, case, out, form, fmt, entry)
    state = dict(info={}, agrees=False, nd=None)

    def after1(replies):
        if replies is None:
            return []
        nd = len(res.disagreements)
        state["info"] = cmp1(replies, res)
        state["ok1"] = len(res.disagreements) == nd
        if "second" in state["info"]:
            return [state["info"]["second"]]
        state["agrees"] = state["ok1"]
        return []

    def final(replies2):
        info = state["info"]
        if replies2:
            state["agrees"] = compare_output(case, out, replies2[0], res) and state.get("ok1", False)
        if sel_bad:
            res.violation(case, sel_bad, code=dict(stdout=out["stdout"][:300], stderr=out["stderr"][:200]))
        elif not ok:
            ids = attribute(ctx, case, out, fmt, form, info, state["agrees"], what)
            if (not ids and state["agrees"] and nf_broken and all(e[0] == "anf" and has_complement_xor(e[1]) for e, _ in nf_broken)
                    and active(ctx, "C17-anf-complement-args")):
                ids = ["C17-anf-complement-args"]
            if ids:
                for fid in ids:
                    res.known(fid)
            else:
                res.violation(case, what, code=dict(stdout=out["stdout"][:600], file=(out["filetext"] or "")[:600], exc=out["exc"]),
                              expected=detail)
        elif nf_broken:
            # the printed text is right although a sympy call broke its assumed spec (masked later)
            bad = [w for e, w in nf_broken if not (e[0] == "anf" and has_complement_xor(e[1]))]
            if bad:
                res.violation(case, bad[0] + " (assumed spec of the parameter broken)", code=nf_broken[0][0])
        elif what.startswith("note:"):
            if what is STOPPED_NOTE:
                res.histogram["stopped-in-sympy-on-correct-input(not judged)"] = res.histogram.get(
                    "stopped-in-sympy-on-correct-input(not judged)", 0) + 1
            if what not in res.notes:
                res.notes.append(what)

    PENDING.append((reqs, after1, final))
    check_anf_model(ctx, res, case, out["log"])
    return ok


def run_qasm_case(ctx, res, script, entry, version, compiler, in_file, out_file, bucket):
    args = []
    if entry is not None:
        args += ["-e", entry]
    if version:
        args += ["-q", version]
    if compiler:
        args += ["-c", compiler]
    case = dict(tool="py2qasm", script=script.to_json(), args=args, in_file=in_file, out_file=out_file)
    out = run_tool("py2qasm", script.text, args, in_file, out_file)
    want_id, determined = expected_selection(script, entry)
    res.count(case, nontrivial=want_id is not None, bucket=bucket)
    code_sel = selected_id(script, out["log"].get("selected"))
    if determined and code_sel != want_id:
        res.violation(case, f"the tool selected function {code_sel}, the script/option determine {want_id}",
                      code=dict(stdout=out["stdout"][:300]))
        return
    jid = want_id if determined else code_sel

    def sel_after(replies):
        if replies is not None and replies[0].get("selected") != code_sel:
            res.disagree(case, "selected function differs", code=code_sel, model=replies[0])
        return []

    PENDING.append(([dict(op="c17.select", bindings=script.bindings, entry=entry)], sel_after, lambda r2: None))
    if jid is None:
        if out["exc"] or out["stdout"] != "" or "No qlassf function found" not in out["stderr"]:
            res.violation(case, "no function selected but the tool printed or raised", code=dict(stdout=out["stdout"][:200], exc=out["exc"]))
        return
    if not isinstance(jid, int):
        res.violation(case, "several functions and no -e: the tool selected none of them", code=out["stdout"][:200])
        return
    if out["exc"]:
        res.violation(case, f"py2qasm raised {out['exc']}", code=out["log"].get("exc_text"))
        return
    fn = script.fns[jid]
    rc = reference_circuit(fn, compiler or "internal")
    text = out["filetext"] if out["filetext"] is not None else out["stdout"]
    try:
        q = parse_qasm(text)
    except ParseError as e:
        res.violation(case, f"printed QASM does not parse: {e}", code=text[:400])
        return
    want_v = "2.0" if version == "2.0" else "3.0"
    bad = None
    if q["version"] != want_v:
        bad = f"OPENQASM version {q['version']} printed, {want_v} requested"
    elif (want_v == "2.0") != (q["include"] and q["qreg"] is not None):
        bad = "qelib include / qreg declaration do not match the version"
    elif q["qreg"] is not None and q["qreg"] != rc["n"]:
        bad = f"qreg size {q['qreg']} != {rc['n']} qubits of the circuit"
    elif q["gate"] != rc["name"] or q["applied"][0] != rc["name"]:
        bad = f"gate name {q['gate']}/{q['applied'][0]} is not the selected function {rc['name']}"
    elif q["formals"] != rc["qubits"]:
        bad = "gate formals are not the circuit's qubits"
    elif q["applied"][1] != list(range(rc["n"])):
        bad = "gate not applied to q[0..n-1]"
    elif [(g, list(ws)) for g, ws in q["body"]] != [(g, list(ws)) for g, ws in rc["body"]]:
        bad = "gate body differs from the independently compiled circuit of the selected function"
    if not bad:
        bad = qasm_semantics(fn, q, rc)
    if bad:
        res.violation(case, bad, code=text[:600], expected=dict(name=rc["name"], qubits=rc["qubits"], body=rc["body"][:20]))
        return
    def q_after(rep):
        if rep is not None:
            want = rep[0].get("stdout")
            if out["filetext"] is not None:
                if want is None or out["filetext"] + "\n" != want or out["stdout"] != "":
                    res.disagree(case, "QASM file text differs", code=out["filetext"][:500], model=rep[0])
            elif out["stdout"] != want:
                res.disagree(case, "QASM text differs", code=out["stdout"][:500], model=rep[0])
        return []

    PENDING.append(([dict(op="c17.qasm", name=rc["name"], qubits=rc["qmap"], n=rc["n"], gates=rc["gates"],
                          version=version or "3.0")], q_after, lambda r2: None))


def qasm_semantics(fn, q, rc):
    """the printed gate, run as a reversible classical circuit by this file's own interpreter on every
    input (ancillas 0), must leave the function's return bits - as CPython computes them when the
    function carries a CPython reference, else as its python reference says - on the result qubits"""
    if fn.ref is None:
        return None
    ref = reference(fn)
    if len(ref["argbits"]) > 8 or sorted(ref["argbits"]) != sorted(fn.bit_names()):
        return None
    pos = {nm: i for i, nm in enumerate(q["formals"])}
    if len(pos) != len(q["formals"]):
        return "gate formals repeat a name"
    body = []
    for g, ws in q["body"]:
        if not re.fullmatch(r"x|cx|ccx|c\d+x|mcx", g) or any(w not in pos for w in ws):
            return None  # not a classical reversible gate of the exporter: not judged here
        body.append([pos[w] for w in ws])
    n = len(q["formals"])
    for r in range(2 ** len(ref["argbits"])):
        env = {nm: bool((r >> i) & 1) for i, nm in enumerate(ref["argbits"])}
        st = [False] * n
        for nm, p in zip(ref["argbits"], rc["in_pos"]):
            st[p] = env[nm]
        for ws in body:
            if all(st[c] for c in ws[:-1]):
                st[ws[-1]] = not st[ws[-1]]
        want = tuple(bool(x) for x in fn.ref(fn.values(env)))
        got = tuple(st[p] for p in rc["out_pos"])
        if got != want:
            return (f"the printed circuit run on {env} leaves {list(got)} on the result qubits, "
                    f"the function returns {list(want)}")
    return None


# --------------------------------------------------------------------------- convert_to_dimacs directly

def small_cnfs(nvars, max_clauses):
    vs = "abcd"[:nvars]
    lits = []
    for v in vs:
        lits += [(v, False), (v, True)]
    clauses = []
    for k in range(1, nvars + 1):
        for combo in itertools.combinations(lits, k):
            if len({v for v, _ in combo}) == k:
                clauses.append(combo)
    out = []
    for k in range(1, max_clauses + 1):
        for cs in itertools.combinations(clauses, k):
            out.append(cs)
    return out


def run_dimacs_direct(ctx, res, cs):
    from sympy import And, Not, Or, Symbol

    H = hooks()
    expr = And(*[Or(*[(Not(Symbol(v)) if n else Symbol(v)) for v, n in c]) for c in cs])
    case = dict(tool="convert_to_dimacs", cnf=[[("-" if n else "") + v for v, n in c] for c in cs])
    res.count(case, nontrivial=len(cs) >= 2 or len(cs[0]) >= 2, bucket="dimacs-direct")
    H.log = dict(nf=[], selected=None, order=None)
    exc, text = None, None
    try:
        text = H.py2bexp.convert_to_dimacs(expr)
    except Exception as e:  # noqa
        exc = type(e).__name__
    log, H.log = H.log, None
    names = sorted(s.name for s in expr.free_symbols) if hasattr(expr, "free_symbols") else []
    ej = B.to_json(expr)
    fmask = table_mask(names, lambda env: B.eval_json(ej, env))
    ok, what, det = True, "", None
    if exc:
        ok, what = False, f"convert_to_dimacs raised {exc}"
    else:
        try:
            n, clauses = parse_dimacs(text)
            ok, det = dimacs_matches(n, clauses, names, fmask)
            if not ok:
                what = f"clause set is not the expression under any one-to-one numbering: {det}"
        except ParseError as e:
            ok, what = False, f"DIMACS does not parse: {e}"
    nf = [e[:3] for e in log["nf"]]
    cnf = cnf_shape(nf)
    req = dict(op="c17.dimacs", quirks=quirks_of(ctx), cnf=cnf if cnf is not None else ["tt"],
               order=log.get("order") or [])

    def after1(rep):
        agrees = False
        if rep is not None and cnf is not None:
            r = rep[0]
            if "error" in r:
                agrees = exc == r["error"]
            else:
                agrees = exc is None and r.get("text") == text
            if not agrees:
                res.disagree(case, "convert_to_dimacs differs", code=dict(exc=exc, text=text), model=r)
        elif cnf is None:
            res.disagree(case, "convert_to_dimacs made no to_cnf call", code=dict(exc=exc, text=text))
        if not ok:
            ids = []
            if agrees and cnf is not None:
                if cnf[0] == "or" and active(ctx, "C17-dimacs-single-clause"):
                    ids.append("C17-dimacs-single-clause")
                if (cnf[0] in ("sym", "ff") or (cnf[0] == "not" and cnf[1][0] == "sym")) and active(ctx, "C17-dimacs-atom-cnf"):
                    ids.append("C17-dimacs-atom-cnf")
            if ids:
                for fid in ids:
                    res.known(fid)
            else:
                res.violation(case, what, code=dict(text=text, exc=exc), expected=dict(names=names))
        return []

    PENDING.append(([req], after1, lambda r2: None))
    # the spec assumed of sympy's to_cnf, validated on this call
    for e in log["nf"]:
        w = validate_nf(res, case, e)
        if w:
            res.violation(case, w + " (assumed spec of the parameter broken)", code=e[:3])


def has_complement_xor(j):
    """trigger of C17-anf-complement-args: the expression keeps a sub-expression that mentions
    symbols but is constant (`a ^ ~a`, `a | ~a`, `a ^ b ^ ~(a ^ b)` - qlasskit builds such
    unevaluated nodes for `a != (not a)`, `(not a) or a`, ...); sympy 1.12 `to_anf` is unsound there"""
    if j[0] in ("tt", "ff", "sym"):
        return False
    if both_polarities(j):
        return True
    names = B.syms_json(j)
    if names and len(names) <= 10:
        tt = B.truth_table(names, [j])
        if tt.count("1") in (0, len(tt)):
            return True
    return any(has_complement_xor(x) for x in j[1:] if isinstance(x, list))


def both_polarities(j):
    """wider trigger of the same sympy defect (thorough sweep, seed 7: `(a & ~b) ^ (~b | ~a) ^ ~(~a ^ (a & b))`
    has no constant sub-expression, yet `to_anf` returns a different function): an operator node, other than `And`, with
    an operand that is a negation of a compound expression, or with operands in which one symbol occurs both plain
    and negated - what every instance met so far has in common.  The logged call itself (input and output of `to_anf`,
    compared by truth table) is the evidence that sympy broke its spec; this predicate only keeps the attribution
    to expressions of that kind."""
    pol = {}

    def go(x, neg):
        if x[0] == "sym":
            pol.setdefault(x[1], set()).add(neg)
        elif x[0] == "not":
            go(x[1], not neg)
        elif x[0] in ("tt", "ff"):
            pass
        else:
            for y in x[1:]:
                go(y, neg)

    go(j, False)
    return any(len(v) == 2 for v in pol.values())


def n_predicates(j):
    """sympy `_find_predicates`: symbols and constants"""
    out = set()

    def go(x):
        if x[0] == "sym":
            out.add(x[1])
        elif x[0] in ("tt", "ff"):
            out.add("!" + x[0])
        else:
            for y in x[1:]:
                go(y)

    go(j)
    return len(out)


def validate_nf(res, case, e):
    """NFSpec on one logged call: same truth table, no new symbols, cnf shape.
    Returns None when the spec holds, else a short description."""
    if isinstance(e[2], dict) or e[1][0] == "?" or e[2][0] == "?":
        return None
    si, so = B.syms_json(e[1]), B.syms_json(e[2])
    if any(s not in si for s in so):
        return f"sympy to_{e[0]} introduced symbols"
    if len(si) <= 10:
        if B.truth_table(si, [e[1]]) != B.truth_table(si, [e[2]]):
            return f"sympy to_{e[0]} changed the meaning"
    if e[0] == "cnf" and not shape_ok("cnf", e[2]):
        return "sympy to_cnf result is not a conjunction of clauses"
    return None


# --------------------------------------------------------------------------- run

def run(ctx: Ctx) -> Result:
    res = Result("C17")
    rng = ctx.rng
    res.rule = (
        "case = (tool, script text, argv, input/output channel); systematic: every hand-picked function "
        "(each CNF shape, constants, intermediates/CSE, multi-bit returns, 8 and 9 variables) as a single-function "
        "script x every form x every format, entry-point scenarios (named, missing, alias, rebinding, shadowed, "
        "definition order != alphabetical order), py2qasm x versions; every configuration a script can choose "
        "(@qlassf, @qlassfa() with bool_optimizer=fastOptimizer/defaultOptimizer, to_compile=False, uncompute=False and "
        "combinations, qlassf(<source string>, ...)) x 13 bodies that bind variables/arguments again (straight-line, "
        "if, for, tuple and Qint results; readers before and after the re-binding) judged against CPython's execution "
        "of the source, x plain form + rotating form/format pairs (all pairs in the thorough tier) and py2qasm "
        "(printed gate simulated on every input), multi-function scripts with one setting per function; "
        "convert_to_dimacs on every CNF over <=3 "
        "variables with <=2 clauses; then random scripts (1-3 functions + helpers; 45% random re-binding bodies "
        "with if/for, 60% a random configuration) x random options; "
        "non-trivial = selected function has >= 2 argument bits (py2bexp), a function is selected (py2qasm), "
        ">= 2 literals (direct DIMACS)"
    )
    res.assumptions = [
        "sympy to_cnf/to_dnf/to_nnf are parameters of the model with the spec NFSpec (semantics-preserving, "
        "cnf = conjunction of clauses over no new symbols); every call made in a run is logged and validated against that spec; "
        "to_anf is the tool's own function since /repo fbcfb53 and is modelled (QV/Model/Anf.lean: truth table over the sorted "
        "symbols, sympy's anf_coeffs rounds, ANFform) and proved to meet that spec (anf_of_table_sound, anf_no_new_symbols, "
        "anf_meets_NFSpec); every logged to_anf call over <= 10 variables is compared with the model's ANF "
        "(histogram anf-model-vs-tool:*); sympy's truth_table/ANFform themselves are read, not verified",
        "sympy's str() of an expression is the renderer of the model's output tree; the oracle reads the printed text with its own parser",
        "the iteration order of expr.free_symbols is an input of the model (theorems hold for every duplicate-free order)",
        "script execution (importlib) is not modelled: the model's input is the list of module-level bindings the generated script performs; dunder members of the module are ignored (never QlassF)",
        "py2qasm: compilation is a parameter (circuit taken from an independent QlassF.from_function of the same source); tweedledum is not installed and 'recompiler' raises CompilerException on `a & b`: only -c internal (and the default) are exercised",
    ]
    try:
        # ---- systematic: single-function scripts x forms x formats
        sysfns = systematic_fns()
        for k, fn in enumerate(sysfns):
            script = single_script(fn)
            big = len(fn.bit_names()) > 8
            for form in FORMS:
                for fmt in FORMATS:
                    if big and not ctx.thorough and form in ("anf",):
                        continue
                    run_bexp_case(ctx, res, script, None, form, fmt, in_file=(k % 2 == 1), out_file=(k % 3 == 2),
                                  bucket=f"sys:{fn.tag}")
            if not big:
                for ver in (None, "2.0", "3.0"):
                    run_qasm_case(ctx, res, script, None, ver, None, in_file=(k % 2 == 0), out_file=(k % 4 == 3),
                                  bucket="qasm-sys")
        # ---- systematic: entry points
        base = [bool_fn("zeta", 1, "not a"), bool_fn("alpha", 2, "a and b"), bool_fn("Mike", 3, "(a or b) and (not b or c)")]
        scen = []
        s = Script(); [s.add_fn(f) for f in base]; scen.append(("three", s, [None, "zeta", "alpha", "Mike", "nope", "qlassf", ""]))
        s = Script(); s.add_fn(base[1]); s.add_plain("helper"); s.add_const("zzz"); scen.append(("single+helpers", s, [None, "alpha", "helper", "zzz"]))
        s = Script(); s.add_fn(base[0]); s.add_fn(base[1]); s.add_alias("beta", "zeta"); scen.append(("alias", s, [None, "beta", "zeta", "alpha"]))
        s = Script(); s.add_fn(base[1]); s.add_fn(base[0]); s.add_fn(bool_fn("alpha", 2, "a or b")); scen.append(("rebinding", s, [None, "alpha", "zeta"]))
        s = Script(); s.add_fn(base[0]); s.add_fn(base[1]); s.add_const("zeta"); scen.append(("shadowed", s, [None, "zeta", "alpha"]))
        s = Script(); s.add_plain("helper"); scen.append(("no-qlassf", s, [None, "helper"]))
        s = Script(); s.add_fn(bool_fn("Zulu", 2, "a ^ b")); s.add_fn(bool_fn("_under", 2, "a or b")); s.add_fn(bool_fn("alpha", 1, "a"))
        scen.append(("codepoint-order", s, [None, "Zulu", "_under", "alpha"]))
        for tag, sc, entries in scen:
            for e in entries:
                for form, fmt in ((None, None), ("cnf", "dimacs")):
                    run_bexp_case(ctx, res, sc, e, form, fmt, False, False, bucket=f"entry:{tag}")
                run_qasm_case(ctx, res, sc, e, "2.0" if e else None, None, False, False, bucket=f"qasm-entry:{tag}")
        # ---- systematic: every configuration a script can choose x bodies that bind names again
        pairs = [(f, t) for f in FORMS for t in FORMATS if (f, t) != (None, None)]
        rot = 0
        bodies, cfgs = config_bodies(), systematic_cfgs()
        for bi, body in enumerate(bodies):
            for ci, cfg in enumerate(cfgs):
                fn = body.with_cfg(cfg)
                script = single_script(fn)
                bucket = f"cfg:{cfg_tag(cfg)}"
                if ctx.thorough:
                    todo = [(None, None)] + pairs
                else:
                    # the plain form always; the other nine form x format pairs in rotation (two per
                    # combination when the profile keeps the user's names, one otherwise)
                    k = 2 if cfg["opt"] == "fast" else 1
                    todo = [(None, None)] + [pairs[(rot + j) % len(pairs)] for j in range(k)]
                    rot += k
                for form, fmt in todo:
                    run_bexp_case(ctx, res, script, None, form, fmt, in_file=((bi + ci) % 2 == 1),
                                  out_file=((bi + ci) % 5 == 4), bucket=bucket)
                    res.histogram[f"body:{body.tag}"] = res.histogram.get(f"body:{body.tag}", 0) + 1
                run_qasm_case(ctx, res, script, None, [None, "2.0", "3.0"][(bi + ci) % 3], None,
                              in_file=((bi + ci) % 2 == 0), out_file=((bi + ci) % 4 == 3), bucket=f"qasm-{bucket}")
                if ctx.thorough:
                    run_qasm_case(ctx, res, script, None, "2.0" if (bi + ci) % 3 else "3.0", "internal", False, False,
                                  bucket=f"qasm-{bucket}")
        # several functions in one script, each with its own settings; every one selected by name and by default
        multi = []
        for k in range(4):
            sc = Script()
            nm = ["kappa", "Bravo", "zeta", "_under"]
            for j in range(3):
                body = bodies[(3 * k + j) % len(bodies)]
                cfg = cfgs[(2 + 5 * k + 3 * j) % len(cfgs)]
                sc.add_fn(body.renamed(nm[(k + j) % 4]).with_cfg(cfg))
            if k == 1:
                sc.add_alias("omega", nm[(k + 0) % 4])
            if k == 2:  # the first name bound again: same body, the other optimizer profile
                sc.add_fn(bodies[0].renamed(nm[(k + 0) % 4]).with_cfg(mk_cfg("qlassfa", opt="fast")))
            multi.append(sc)
        for k, sc in enumerate(multi):
            fin = sc.final()
            entries = [None] + sorted(n for n, i in fin.items() if i is not None)
            for ei, e in enumerate(entries):
                for form, fmt in ((None, None), pairs[(k + 2 * ei) % len(pairs)]):
                    run_bexp_case(ctx, res, sc, e, form, fmt, False, False, bucket="cfg-multi")
                run_qasm_case(ctx, res, sc, e, "2.0" if (k + ei) % 2 else "3.0", None, False, False, bucket="qasm-cfg-multi")
        # ---- convert_to_dimacs directly, every small CNF
        direct = small_cnfs(3, 2)
        if ctx.thorough:
            more = small_cnfs(3, 3)
            direct = direct + rng.sample(more, 1500) + rng.sample(small_cnfs(4, 2), 800)
        for cs in direct:
            run_dimacs_direct(ctx, res, cs)
        # ---- random scripts
        n_scripts = 260 if ctx.thorough else 40
        for k in range(n_scripts):
            sc = random_script(rng)
            fin = sc.final()
            names = sorted(n for n, i in fin.items() if i is not None)
            entries = [None] + names + ["nope"]
            picks = 6 if ctx.thorough else 3
            for _ in range(picks):
                e = rng.choice(entries)
                run_bexp_case(ctx, res, sc, e, rng.choice(FORMS), rng.choice(FORMATS + [None]),
                              in_file=rng.random() < 0.4, out_file=rng.random() < 0.3, bucket="random")
            run_qasm_case(ctx, res, sc, rng.choice(entries), rng.choice([None, "2.0", "3.0"]),
                          rng.choice([None, None, "internal"]), in_file=rng.random() < 0.4, out_file=rng.random() < 0.3,
                          bucket="qasm-random")
        flush(ctx)
    finally:
        PENDING[:] = []
        cleanup()
    res.notes.append("tools called in-process via main(); tweedledum compiler not installed (not exercised)")
    res.notes.append(f"slowest tool run {MAX_TOOL_S[0]:.2f} s [{MAX_TOOL_S[1]}] (a run is stopped and reported after {TOOL_TIMEOUT_S:g} s)")
    return res


# --------------------------------------------------------------------------- findings / replay

def _script_from_json(j):
    s = Script()
    s.text = j["text"]
    s.bindings = j["bindings"]
    return s


def witness_fails(ctx: Ctx, f):
    """does the recorded witness still violate the property on the real code (oracle only)?"""
    w = f.get("witness", {})
    try:
        fn = Fn(w["name"], [tuple(a) for a in w["args"]], w["ret"], w["body"])
        script = single_script(fn)
        out = run_tool("py2bexp", script.text, w["argv"])
        form = w["argv"][w["argv"].index("-f") + 1] if "-f" in w["argv"] else None
        fmt = w["argv"][w["argv"].index("-t") + 1] if "-t" in w["argv"] else None
        ok, what, _ = judge_bexp(script, {}, out, form, fmt, 0)
        return not ok
    finally:
        pass


def replay(ctx: Ctx, payload):
    first = payload.get("first") or {}
    case = first.get("case", {})
    print("replaying", json.dumps({k: v for k, v in case.items() if k != "script"}))
    try:
        if case.get("tool") in ("py2bexp", "py2qasm"):
            print(case["script"]["text"])
            out = run_tool(case["tool"], case["script"]["text"], case["args"], case.get("in_file", False), case.get("out_file", False))
            print(json.dumps(dict(stdout=out["stdout"], stderr=out["stderr"], exc=out["exc"], file=out["filetext"]), indent=1))
            print("expected:", json.dumps(first.get("expected"), default=str), "| reported:", first.get("what"))
            same = (out["stdout"][:300] == (first.get("code") or {}).get("stdout", "")[:300]) if isinstance(first.get("code"), dict) else None
            print("same output as recorded:", same)
            return 1
        if case.get("tool") == "convert_to_dimacs":
            res = Result("C17")
            cs = [[(l.lstrip("-"), l.startswith("-")) for l in c] for c in case["cnf"]]
            run_dimacs_direct(ctx, res, cs)
            flush(ctx)
            print(json.dumps(res.violations[:1] + res.disagreements[:1], indent=1, default=str))
            return 1 if (res.violations or res.disagreements) else 0
    finally:
        cleanup()
    print(json.dumps(payload, indent=1)[:3000])
    return 2
