"""Shared by C02 / C03 / C06 (and C12): run the real internal compiler with its ancilla
choices logged, run the Lean compiler model on the same input and choices, canonicalise, compare
(the model follows the compiler with the repairs docs/fixes/CC-*.diff);
evaluate correctness / cleanliness / xor-oracle of the *real* gate list with the independent
classical simulator of harness/circ.py."""
from __future__ import annotations

import itertools

from . import bexp, circ, progs


class Unsupported(Exception):
    pass


def canon_gates(gs):
    """canonical form of a gate list (JSON dicts): drop object ids, sort the controls of
    MCX-like gates, sort runs of adjacent CX gates with the same target by control"""
    out = []
    for d in gs:
        c = d["c"]
        w = list(d["w"])
        if c in ("CX", "CCX", "MCX") or (c == "MCtrl" and d["g"] == "X"):
            w = sorted(w[:-1]) + [w[-1]]
        key = (c, d.get("n", 0) if c in ("MCX", "MCtrl") else 0, d.get("g", "") if c == "MCtrl" else "", tuple(w))
        out.append(key)
    res = []
    i = 0
    while i < len(out):
        if out[i][0] == "CX":
            j = i
            while j < len(out) and out[j][0] == "CX" and out[j][3][-1] == out[i][3][-1]:
                j += 1
            res.extend(sorted(out[i:j]))
            i = j
        elif out[i][0] == "X":
            # a run of adjacent X gates (they commute; their order can come from set iteration)
            j = i
            while j < len(out) and out[j][0] == "X":
                j += 1
            res.extend(sorted(out[i:j]))
            i = j
        else:
            res.append(out[i])
            i += 1
    return [list(x[:3]) + [list(x[3])] for x in res]


def exprs_to_json(exprs):
    out = []
    for sym, e in exprs:
        try:
            out.append([sym.name, bexp.to_json(e)])
        except ValueError as ex:
            raise Unsupported(str(ex))
    return out


def compile_real(name, args, returns, exprs, uncompute):
    """real InternalCompiler with get_free_ancilla logged.  Returns a dict:
    error | gates (JSON), qmap (ordered list), num_qubits, anc, free, choices"""
    from qlasskit.compiler import to_quantum
    from qlasskit.qcircuit import QCircuitEnhanced

    choices = []
    orig = QCircuitEnhanced.get_free_ancilla

    def logged(self):
        r = orig(self)
        choices.append(r)
        return r

    QCircuitEnhanced.get_free_ancilla = logged
    try:
        qc = to_quantum(name, args, returns, exprs, compiler="internal", uncompute=uncompute)
    except Exception as e:  # noqa
        return dict(error=f"{type(e).__name__}: {e}", choices=choices)
    finally:
        QCircuitEnhanced.get_free_ancilla = orig
    return dict(
        gates=circ.qc_to_json(qc),
        qmap=[[k, v] for k, v in qc.qubit_map.items()],
        num_qubits=qc.num_qubits,
        anc=sorted(qc.ancilla_lst),
        free=sorted(qc.free_ancilla_lst),
        choices=choices,
    )


def model_request(inputs, exprs_json, rets, uncompute, choices, validate=True):
    return dict(op="comp.compile", inputs=inputs, exprs=exprs_json, ret=rets, uncompute=uncompute,
                choices=choices, validate=validate)


def compare_model(code, model):
    """None when model and code agree, else a description"""
    if "error" in code or "error" in model:
        if ("error" in code) != ("error" in model):
            return "one side raises, the other does not"
        ce, me = code["error"], model["error"]
        kinds = [("KeyError", "KeyError"), ("IndexError", "IndexError"), ("duplicate qubit", "duplicate qubit"),
                 ("not present", "not present"), ("CompilerException", "CompilerException")]
        for a, b in kinds:
            if a in ce:
                return None if b in me else f"different errors: code {ce!r} model {me!r}"
        return None if me.startswith("model:") is False else f"model-side protocol error {me!r} (code: {ce!r})"
    if code["num_qubits"] != model["num_qubits"]:
        return "num_qubits differ"
    if code["qmap"] != model["qmap"]:
        return "qubit maps differ"
    if canon_gates(code["gates"]) != canon_gates(model["gates"]):
        return "gate lists differ"
    if sorted(code["anc"]) != sorted(model["anc"]) or sorted(code["free"]) != sorted(model["free"]):
        return "ancilla bookkeeping differs"
    if model.get("choices_left", 0) != 0:
        return "model consumed fewer ancilla choices than the code"
    return None


def eval_defs(exprs_json, inputs, x):
    env = dict(zip(inputs, x))
    for name, e in exprs_json:
        env[name] = bexp.eval_json(e, env)
    return env


def judge(code, inputs, exprs_json, rets, max_inputs=12):
    """Evaluate C02/C03/C06 on the real gate list with the independent simulator.
    Returns dict(mapped, wrong=[first failing input]|None, dirty=..., xor=...)"""
    n = len(inputs)
    qmap = {k: v for k, v in code["qmap"]}
    res = dict(mapped=all(r in qmap for r in rets), wrong=None, dirty=None, xor_bad=None, classical=True,
               ret_shared=None)
    gs = code["gates"]
    if not all(circ.is_classical(d) or d["c"] in ("Barrier", "NopGate") for d in gs):
        res["classical"] = False
        return res
    if not res["mapped"]:
        return res
    outs = [qmap[r] for r in rets]
    nq = code["num_qubits"]
    rows = list(itertools.product([False, True], repeat=n))
    for x in rows:
        st = list(x) + [False] * (nq - n)
        fin = circ.run_classical(gs, st)
        env = eval_defs(exprs_json, inputs, x)
        if res["wrong"] is None:
            for r, q in zip(rets, outs):
                if fin[q] != env[r]:
                    res["wrong"] = dict(input=[int(b) for b in x], ret=r, qubit=q, got=int(fin[q]), expected=int(env[r]))
                    break
        if res["dirty"] is None:
            for q in range(nq):
                if q < n:
                    if fin[q] != x[q]:
                        res["dirty"] = dict(input=[int(b) for b in x], qubit=q, kind="argument changed")
                        break
                elif q not in outs and fin[q]:
                    res["dirty"] = dict(input=[int(b) for b in x], qubit=q, kind="scratch not zero")
                    break
    if len(rets) == 1:
        r, q = rets[0], outs[0]
        if q >= n:
            for x in rows:
                env = eval_defs(exprs_json, inputs, x)
                for y in (False, True):
                    st = list(x) + [False] * (nq - n)
                    st[q] = y
                    fin = circ.run_classical(gs, st)
                    ok = fin[q] == (y ^ env[r]) and all(fin[i] == x[i] for i in range(n)) and \
                        all((not fin[i]) for i in range(n, nq) if i != q)
                    if not ok:
                        res["xor_bad"] = dict(input=[int(b) for b in x], y=int(y), got=int(fin[q]), expected=int(y ^ env[r]))
                        break
                if res["xor_bad"]:
                    break
        else:
            res["xor_bad"] = dict(kind="output qubit is an argument qubit", qubit=q)
    return res


# ------------------------------------------------------------------ case sources

def front_end_case(src, optimizer_name):
    """qlassf(src, to_compile=False) -> (args, returns, exprs) of the real front-end"""
    from qlasskit import boolopt, qlassf

    opt = getattr(boolopt, optimizer_name)
    qf = qlassf(src, to_compile=False, bool_optimizer=opt)
    return qf


def defs_case(d):
    """a generated definition list as real Arg/Symbol objects"""
    from typing import Tuple

    from sympy import Symbol

    from qlasskit.ast2logic.typing import Arg

    args = [Arg(s, bool, [s]) for s in d["inputs"]]
    rets = d["rets"]
    returns = Arg("_ret", bool if len(rets) == 1 else Tuple[(bool,) * len(rets)], list(rets))
    exprs = [(Symbol(n), bexp.from_json(e)) for n, e in d["defs"]]
    return args, returns, exprs


def source_cases(ctx, n_bool, n_int, n_defs, suite_stride=1):
    """yield (label, kind, payload): kind 'src' -> python source, kind 'defs' -> definition list"""
    rng = ctx.rng
    out = []
    sp = progs.suite_programs()
    for i, p in enumerate(sp):
        if i % suite_stride == (ctx.seed % suite_stride):
            out.append((f"suite:{i}", "src", p["src"]))
    for i, s in enumerate(progs.STATEMENT_PROGRAMS):
        out.append((f"stmt:{i}", "src", s))
    for i, s in enumerate(progs.COMPILER_SHAPE_PROGRAMS):
        out.append((f"shape:{i}", "src", s))
    for k in range(n_bool):
        out.append((f"bool:{k}", "src", progs.gen_bool_program(rng, k)))
    for k in range(n_int):
        out.append((f"int:{k}", "src", progs.gen_int_program(rng, k)))
    for k in range(n_defs):
        out.append((f"defs:{k}", "defs", progs.gen_defs(rng, k)))
    for k in range(n_defs // 2):  # drawn last: the streams above see the same random numbers as before
        out.append((f"defsr:{k}", "defs", progs.gen_defs_rebind(rng, k)))
    return out


# ------------------------------------------------------------------ the shared check

# Events the Lean model raises at the sites where the unrepaired compiler went wrong.  The four defect
# families of C02/C03/C06 (expqmap-cache, inplace-not, temp-uncomputed-early, uncompute-stale) are repaired
# (known_findings.json: status fixed; the model follows the repaired compiler), so there is nothing to attribute
# a failure to: a failing compilation is a VIOLATION whether or not an event occurred.  The events are kept
# as diagnostics in the violation report (`markNamedTemp` can no longer be raised: every named qubit is promoted).
DIAGNOSTIC_EVENTS = {"cacheHit", "xorRepl", "destAmongArgs", "inplaceNot", "staleReplay"}


def compile_both(label, kind, payload, optn, unc):
    """real compile of one configuration (through the public qlassf path for sources).
    Returns (code, inputs, exprs_json, rets) or raises Unsupported / front-end exceptions."""
    from qlasskit.qcircuit import QCircuitEnhanced

    if kind == "defs":
        args, returns, exprs = defs_case(payload)
        ej = exprs_to_json(exprs)
        code = compile_real(label, args, returns, exprs, unc)
    else:
        from qlasskit import boolopt, qlassf

        choices = []
        orig = QCircuitEnhanced.get_free_ancilla

        def logged(self):
            r = orig(self)
            choices.append(r)
            return r

        qf = qlassf(payload, to_compile=False, bool_optimizer=getattr(boolopt, optn))
        args, returns, exprs = qf.args, qf.returns, qf.expressions
        ej = exprs_to_json(exprs)
        QCircuitEnhanced.get_free_ancilla = logged
        try:
            qf.compile("internal", uncompute=unc)
            qc = qf._qcircuit
            code = dict(
                gates=circ.qc_to_json(qc), qmap=[[k, v] for k, v in qc.qubit_map.items()],
                num_qubits=qc.num_qubits, anc=sorted(qc.ancilla_lst), free=sorted(qc.free_ancilla_lst),
                choices=choices)
        except Exception as e:  # noqa
            code = dict(error=f"{type(e).__name__}: {e}", choices=choices)
        finally:
            QCircuitEnhanced.get_free_ancilla = orig
    inputs = [b for a in args for b in a.bitvec]
    rets = list(returns.bitvec)
    return code, inputs, ej, rets


def _worker(job):
    label, kind, payload, optn, unc, max_in = job
    from . import common

    common.use_repo()
    try:
        code, inputs, ej, rets = compile_both(label, kind, payload, optn, unc)
    except Unsupported as e:
        return dict(skip="unsupported: " + str(e)[:80])
    except Exception as e:  # noqa  front-end rejection: allowed, counted
        return dict(skip=f"front-end: {type(e).__name__}")
    if len(inputs) > max_in:
        return dict(skip="too many input bits")
    out = dict(code=code, inputs=inputs, ej=ej, rets=rets)
    if "error" not in code:
        out["judge"] = judge(code, inputs, ej, rets)
    return out


def run_compiler_check(ctx, res, prop):
    """prop in C02 / C03 / C06"""
    import multiprocessing as mp

    thorough = ctx.thorough
    if thorough:
        cases = source_cases(ctx, 250, 200, 1500, suite_stride=1)
    else:
        cases = source_cases(ctx, 30, 25, 160, suite_stride=3)
    max_in = 10 if thorough else 9
    jobs = []
    for label, kind, payload in cases:
        opts = ["defaultOptimizer", "fastOptimizer"] if kind == "src" else [None]
        for optn in opts:
            for unc in ((True, False) if prop == "C02" else (True,)):
                jobs.append((label, kind, payload, optn, unc, max_in))
    with mp.Pool(16) as pool:
        outs = pool.map(_worker, jobs, chunksize=4)
    reqs, idx = [], []
    for k, (job, out) in enumerate(zip(jobs, outs)):
        if "skip" in out:
            res.histogram["skip:" + out["skip"].split(":")[0]] = res.histogram.get("skip:" + out["skip"].split(":")[0], 0) + 1
            continue
        if prop == "C06" and len(out["rets"]) != 1:
            continue
        reqs.append(model_request(out["inputs"], out["ej"], out["rets"], job[4], out["code"]["choices"]))
        idx.append(k)
    # the model's reproduction of CPython's `list(set(l))` (order of the or-chain in compile_or), on its own
    so_lists = [[ctx.rng.randint(0, ctx.rng.choice([6, 12, 40, 200])) for _ in range(ctx.rng.randint(0, 12))]
                for _ in range(2000 if thorough else 400)]
    so_rep = ctx.model([dict(op="comp.setorder", lists=so_lists)])
    if so_rep is not None:
        for l, o in zip(so_lists, so_rep[0].get("orders", [])):
            if o != list(set(l)):
                res.disagree(dict(label="setorder", list=l), "iteration order of set(list) differs", code=list(set(l)), model=o)
    replies = ctx.model(reqs)
    stats = dict(event_free=0, event_free_bad=0, failing=0, y1_only=0, in_fragment=0, in_fragment_bad=0,
                 in_general=0, in_general_only=0, in_general_cache_hit=0)
    if prop in ("C03", "C06"):
        stats.update(in_general=0, in_general_only=0, in_general_cache_hit=0)
    for n, k in enumerate(idx):
        job, out = jobs[k], outs[k]
        label, kind, payload, optn, unc, _ = job
        code, inputs, ej, rets = out["code"], out["inputs"], out["ej"], out["rets"]
        case = dict(label=label, optimizer=optn, uncompute=unc,
                    program=payload if kind == "src" else dict(inputs=payload["inputs"], defs=ej, rets=rets))
        compound = any(e[1][0] not in ("sym", "tt", "ff") for e in ej)
        res.count(case, nontrivial=compound and len(inputs) >= 2, bucket=label.split(":")[0])
        rep = replies[n] if replies is not None else None
        mismatch = compare_model(code, rep) if rep is not None else "model unavailable"
        if "error" in code:
            # the compiler raised: a rejection, never a silent mis-compilation
            res.histogram["compiler-raised"] = res.histogram.get("compiler-raised", 0) + 1
            if mismatch and rep is not None:
                res.disagree(case, mismatch, code=code.get("error"), model=rep.get("error", "no error"))
            continue
        j = out["judge"]
        if not j["classical"]:
            res.violation(case, "compiled circuit contains a non X/CX/MCX gate", code=code["gates"][:8])
            continue
        if prop == "C02":
            fail = (not j["mapped"]) or j["wrong"] is not None
            what = "a return bit is not mapped to a qubit" if not j["mapped"] else "output qubit differs from the value of its return expression"
            detail = j["wrong"]
        elif prop == "C03":
            fail = j["mapped"] and j["dirty"] is not None
            what = "circuit is not clean (argument changed or scratch qubit not back to zero)"
            detail = j["dirty"]
        else:
            fail = j["mapped"] and j["xor_bad"] is not None
            what = "circuit is not an xor-oracle |x>|y> -> |x>|y^f(x)>"
            detail = j["xor_bad"]
            if fail and j["wrong"] is None and j["dirty"] is None:
                stats["y1_only"] += 1
        events = set(rep.get("events", [])) if rep and "error" not in rep else set()
        # the instance lies in the class of C02_general_partial (`in_general`: definition lists with cache hits, shared
        # sub-expressions across statements, re-binding, several return bits, uncompute on or off) or of one of the
        # older Lean fragment theorems (C02_fragment_partial: single tree-like
        # definition; C02_fragment_consts: + constants; C02_fragment_multi / C02_fragment_named: straight-line
        # definition lists – the driver's `in_fragment` is their disjunction for this run; it reports the last two
        # for uncompute off only, the theorems cover uncompute on as well since the port to the repaired compiler,
        # docs/notes/PORT-PENDING.md).  All four are proved for the model of the repaired compiler; a model
        # instance of a class that the Lean validator rejects is a disagreement (it would refute the theorem)
        in_frag = bool(prop == "C02" and rep is not None and not mismatch and rep.get("in_fragment"))
        frag_thm = "C02_fragment_partial"
        if in_frag:
            stats["in_fragment"] += 1
            if rep.get("in_general"):
                # the class of C02_general_partial (cache hits, sharing across statements, re-binding)
                stats["in_general"] += 1
                frag_thm = "C02_general_partial"
                if rep.get("in_general_only"):
                    stats["in_general_only"] += 1
                if "cacheHit" in events:
                    stats["in_general_cache_hit"] += 1
            if not rep.get("valid", True):
                res.disagree(case, "model instance inside the class of a C02 fragment theorem rejected by the Lean validator "
                             "(contradicts the theorem's statement)", code=None, model=dict(valid=False))
        # C03 / C06: the classes of C03_general_partial (inGeneralCleanClass) / C06_general_partial (inGeneralXor with
        # ret_never_control) and of C03_fragment_partial (inCleanFragment) / C06_fragment_partial (inXorFragment),
        # reported by the driver for uncompute=True runs (both theorems are proved for the model of the repaired
        # compiler; the classes no longer restrict the arity of Or); same rule
        if prop in ("C03", "C06") and unc and rep is not None and not mismatch:
            key, frag_thm, vkey = (("in_clean_fragment", "C03_fragment_partial", "clean") if prop == "C03"
                                   else ("in_xor_fragment", "C06_fragment_partial", "xor"))
            if rep.get(key):
                in_frag = True
                stats["in_fragment"] += 1
                gkey = "in_clean_general" if prop == "C03" else "in_xor_general"
                if rep.get(gkey):
                    # the class of C03_general_partial / C06_general_partial (definition lists, cache hits)
                    stats["in_general"] += 1
                    frag_thm = "C03_general_partial" if prop == "C03" else "C06_general_partial"
                    if rep.get(gkey + "_only"):
                        stats["in_general_only"] += 1
                    if "cacheHit" in events:
                        stats["in_general_cache_hit"] += 1
                bad = (not rep.get(vkey, True)) or (prop == "C06" and rep.get("ret_never_control") is False)
                if bad:
                    res.disagree(case, f"model instance inside the class of {frag_thm} rejected by the Lean validator "
                                 "(contradicts the theorem's statement)", code=None,
                                 model={vkey: rep.get(vkey), "ret_never_control": rep.get("ret_never_control")})
        if rep is not None and not mismatch:
            if not events:
                stats["event_free"] += 1
            # cross-check of the Lean validators against the independent python simulator
            lean_fail = {"C02": not rep.get("valid", True), "C03": not rep.get("clean", True),
                         "C06": not rep.get("xor", True)}[prop]
            if j["mapped"] and lean_fail != fail:
                res.disagree(case, "Lean validator and python simulator disagree on the same gate list",
                             code=dict(fail=fail, detail=detail), model=dict(fail=lean_fail))
        if fail:
            # no open finding of C02/C03/C06 is left to attribute to: every failing compilation is a violation
            stats["failing"] += 1
            if in_frag:
                stats["in_fragment_bad"] += 1
                what += f" (instance inside the class of theorem {frag_thm})"
            if rep is not None and not mismatch and not events:
                stats["event_free_bad"] += 1
            res.violation(case, what, code=dict(detail=detail, gates=canon_gates(code["gates"])[:40], qmap=code["qmap"]),
                          model=dict(reproduces=(rep is not None and not mismatch),
                                     diagnostic_events=sorted(events & DIAGNOSTIC_EVENTS),
                                     other_events=sorted(events - DIAGNOSTIC_EVENTS)),
                          expected="see detail.expected")
        elif mismatch and rep is not None:
            res.disagree(case, mismatch, code=dict(gates=canon_gates(code["gates"])[:40], qmap=code["qmap"], n=code["num_qubits"]),
                         model=dict(gates=canon_gates(rep["gates"])[:40] if "gates" in rep else None, qmap=rep.get("qmap"),
                                    n=rep.get("num_qubits"), error=rep.get("error")))
    res.extra["compiler_stats"] = stats
    if (not thorough) and res.disagreements and not res.violations and not getattr(ctx, "_widened", False):
        # model and code disagree but no input violating the property was found yet: widen the search
        # (the thorough tier's case set) before reporting no-failing-input-found
        ctx._widened = True
        ctx.log(f"[{prop}] model/code disagreement without a failing input: widening the search")
        saved = ctx.tier
        ctx.tier = "thorough"
        try:
            run_compiler_check(ctx, res, prop)
        finally:
            ctx.tier = saved
        res.notes.append("search widened to the thorough case set after a model/code disagreement")
    res.rule = ("programs: a third (quick) / all (thorough) of the 193 programs of the repository's suite, 25 statement-form "
                "programs, random bool programs, random mixed-width Qint programs (each through the real front-end with "
                "defaultOptimizer and fastOptimizer) and random definition lists fed to to_quantum directly; x uncompute "
                "on/off (C02) or on (C03, C06); each compiled circuit is run on ALL 2^n input basis states with an "
                "independent simulator. distinct by (program, optimizer, uncompute); non-trivial = at least one compound "
                "expression and >= 2 input bits")
    if prop == "C02":
        res.notes.append(f"{stats['in_general']} compiled instances lie in the decidable class of C02_general_partial "
                         f"(inGeneralClass: cache hits, sharing across statements, re-binding; {stats['in_general_only']} of them in no "
                         f"older class, {stats['in_general_cache_hit']} with a cache hit in the model run)")
        res.notes.append(f"{stats['in_fragment']} compiled instances lie in the decidable class of a Lean fragment theorem "
                         "(C02_general_partial, C02_fragment_partial: one tree-like definition; C02_fragment_consts: + constants; "
                         "C02_fragment_multi / C02_fragment_named: straight-line definition lists with re-used freed ancillas; "
                         "the driver reports these two for uncompute off, the theorems hold for uncompute on and off) with "
                         "the model reproducing the real gate list; all four are proved for the model of the repaired compiler; "
                         f"{stats['in_fragment_bad']} of these instances fail")
    if prop in ("C03", "C06"):
        thm, cls = (("C03_fragment_partial", "inCleanFragment") if prop == "C03" else ("C06_fragment_partial", "inXorFragment"))
        gthm = "C03_general_partial (inGeneralClean)" if prop == "C03" else "C06_general_partial (inGeneralXor and ret_never_control)"
        res.notes.append(f"{stats['in_general']} compiled instances lie in the class of {gthm}: definition lists with the "
                         "intermediates first and the return bits last, every name defined once, no constants, any sharing "
                         f"of sub-expressions; {stats['in_general_only']} of them in no older class, "
                         f"{stats['in_general_cache_hit']} with a cache hit in the model run")
        res.notes.append(f"{stats['in_fragment']} compiled instances lie in the decidable class of the Lean theorem {thm} "
                         f"({cls}: one definition, tree-like expression over the arguments with Or of any arity, the return "
                         "name requested - or, for C03, none) with the model reproducing the real gate list; the theorem is proved for the model of "
                         f"the repaired compiler; {stats['in_fragment_bad']} of these instances fail")
    res.notes.append("decided per compiled instance (exhaustive over its inputs) by validators whose soundness is proved; "
                     "the compiler model reproduces the real gate list exactly, ancilla choices logged from the real run, "
                     "the iteration order of set(erets) in compile_or reproduced by the model (pySetOrder); no open finding "
                     "of this property is left: every failing compilation is a violation, with or without model events")
    return res


def witness_fails(ctx, f, prop):
    """replay the witness (a definition list) of a finding on the real compiler"""
    w = f.get("witness")
    if not w:
        return None
    if "src" in w:
        code, inputs, ej, rets = compile_both("witness", "src", w["src"], w.get("optimizer", "defaultOptimizer"), w.get("uncompute", True))
    else:
        code, inputs, ej, rets = compile_both("witness", "defs", w, None, w.get("uncompute", True))
    if "error" in code:
        return False
    j = judge(code, inputs, ej, rets)
    if prop == "C02":
        return (not j["mapped"]) or j["wrong"] is not None
    if prop == "C03":
        return j["dirty"] is not None
    return j["xor_bad"] is not None
