"""C14 - circuit composition operators compose.

Operators of qlasskit/qcircuit/qcircuit.py (append_circuit, +=, +, copy, repeat, qft, iqft) and
qcircuitenhanced.py (remove_identities), run on the REAL code, case by case:

 (a) the property itself, judged by oracles that do not use the code under test: the unitary of
     the result (own state-vector simulator, harness/circ.py) against the product of the operands'
     unitaries -- for append_circuit the operand's own unitary embedded on the chosen qubits --,
     U^n for repeat, the unitary before for remove_identities, the identity for qft;iqft; and
     the heap: every operand is snapshotted (values + object identities) before the call, after
     the call and again after the result has been mutated through every mutable object
     reachable from it; copies must be value-equal and share no mutable object and no gate object;
 (b) correspondence: the same operands (with their object-identity pattern) through the Lean
     model QV.Model.CircuitOps; result circuit, error class and the identity pattern of
     [operands..., result] compared exactly after canonical renumbering;
 (c) attribution: a failing case counts under an open finding only if the model with the active
     quirks reproduces the code's output exactly and switching that one quirk off changes the
     model's output on this very case.
"""
from __future__ import annotations

import copy as _copy
import json
import math

import numpy as np

from . import circ as C
from .common import Ctx, Result

LEVEL = "proof"

KNOWN = ("I", "X", "Y", "Z", "H", "S", "T", "P", "Swap", "CX", "CZ", "CP", "CCX", "MCX", "MCtrl", "Barrier", "NopGate")
ARITY = {"I": 1, "X": 1, "Y": 1, "Z": 1, "H": 1, "S": 1, "T": 1, "P": 1, "Swap": 2, "CX": 2, "CZ": 2, "CP": 2,
         "CCX": 3, "Barrier": 0, "NopGate": 0}


# ------------------------------------------------------------------ real circuits <-> JSON with a heap

class Heap:
    """small stable numbers for Python objects (kept alive, so ids are never reused)"""

    def __init__(self):
        self.ids = {}
        self.keep = []

    def oid(self, obj):
        k = id(obj)
        if k not in self.ids:
            self.ids[k] = len(self.ids) + 1
            self.keep.append(obj)
        return self.ids[k]

    @property
    def next(self):
        return len(self.ids) + 1


def param_json(p):
    if p is None:
        return None
    if isinstance(p, float):
        for k in range(0, 64):
            v = 2 * math.pi / (2 ** k)
            if p == v:
                return {"qft": [False, k]}
            if p == -v:
                return {"qft": [True, k]}
        return repr(p)
    return str(p)


def param_value(pj):
    if pj is None:
        return None
    if isinstance(pj, dict):
        neg, k = pj["qft"]
        v = 2 * math.pi / (2 ** k)
        return -v if neg else v
    try:
        return float(pj)
    except ValueError:
        return pj


def hgate_json(g, w, p, heap):
    c = type(g).__name__
    d = {"c": c, "n": 0, "g": "", "w": [int(x) for x in w], "p": param_json(p), "id": heap.oid(g), "wid": heap.oid(w)}
    if c == "MCX":
        d["n"] = g.n_controls
    elif c == "MCtrl":
        d["n"] = g.n_controls
        d["g"] = g.gate.name
    elif c not in KNOWN:
        d["c"] = "?" + c
    return d


def snap(qc, heap):
    """value + identity snapshot of everything mutable reachable from the circuit"""
    from qlasskit.qcircuit import QCircuitEnhanced

    d = {
        "n": qc.num_qubits,
        "gates": [hgate_json(g, w, p, heap) for g, w, p in qc.gates],
        "computed": [hgate_json(g, w, p, heap) for g, w, p in qc.gates_computed],
        "qmap": [[str(k), int(v)] for k, v in qc.qubit_map.items()],
        "enh": isinstance(qc, QCircuitEnhanced),
        "name": qc.name,
        "ids": [heap.oid(qc.gates), heap.oid(qc.gates_computed), heap.oid(qc.qubit_map)],
    }
    if d["enh"]:
        d["anc"] = [sorted(qc.ancilla_lst), sorted(qc.free_ancilla_lst), sorted(qc.marked_ancillas)]
    return d


def build(spec):
    """real circuit from a case spec; equal 'id' > 0 -> the same gate object, equal 'wid' > 0 ->
    the same wire-list object (as QCircuitEnhanced.uncompute produces); 'drop' removes entries of
    gates_computed (as uncompute does); 'extra_q' calls add_qubit"""
    from qlasskit.qcircuit import QCircuit, QCircuitEnhanced

    qc = (QCircuitEnhanced if spec.get("enh") else QCircuit)(spec["n"])
    if spec.get("enh"):
        for _ in range(spec.get("anc", 0)):
            qc.add_ancilla()
    objs, wls = {}, {}
    for d in spec["gates"]:
        if d.get("id", 0) and d["id"] in objs:
            g = objs[d["id"]]
        else:
            g = C.make_gate(d)
            if d.get("id", 0):
                objs[d["id"]] = g
        if d.get("wid", 0) and d["wid"] in wls and wls[d["wid"]] == list(d["w"]):
            w = wls[d["wid"]]
        else:
            w = list(d["w"])
            if d.get("wid", 0):
                wls[d["wid"]] = w
        qc.append(g, w, param_value(d.get("p")))
    for i in sorted(spec.get("drop", []), reverse=True):
        if i < len(qc.gates_computed):
            del qc.gates_computed[i]
    for nm in spec.get("extra_q", []):
        qc.add_qubit(nm)
    return qc


def classify(e):
    m = str(e)
    if isinstance(e, IndexError):
        return "index_error"
    if type(e) is Exception:
        if m.startswith("Other circuit has too many qubits"):
            return "too_many_qubits"
        if m.startswith("Other circuit and qubits list mismatch"):
            return "qubits_mismatch"
        if m.startswith("qubit ") and m.endswith("not present"):
            return "not_present"
        if m.startswith("duplicate qubit"):
            return "duplicate"
        if m.startswith("expected "):
            return "arity"
    return f"other:{type(e).__name__}:{m[:80]}"


def canon(circs):
    """renumber object ids by first occurrence over the list of circuit snapshots"""
    m = {}

    def r(x):
        return m.setdefault(x, len(m) + 1)

    out = []
    for c in circs:
        if c is None:
            out.append(None)
            continue
        d = dict(c)
        d.pop("anc", None)
        d["ids"] = [r(x) for x in c["ids"]]
        for key in ("gates", "computed"):
            gl = []
            for g in c[key]:
                g2 = dict(g)
                g2["id"] = r(("g", g["id"]))
                g2["wid"] = r(("w", g["wid"]))
                gl.append(g2)
            d[key] = gl
        out.append(d)
    return out


def values(c):
    """snapshot without identities"""
    if c is None:
        return None
    d = dict(c)
    d.pop("ids")
    for key in ("gates", "computed"):
        d[key] = [{k: v for k, v in g.items() if k not in ("id", "wid")} for g in c[key]]
    return d


# ------------------------------------------------------------------ the independent oracle

def sim_gates(gl):
    out = []
    for g in gl:
        d = dict(g)
        d["p"] = param_value(g.get("p"))
        out.append(d)
    return out


def valid_gates(n, gl):
    for g in gl:
        c, w = g["c"], g["w"]
        if c not in KNOWN:
            return False
        ar = ARITY.get(c, g["n"] + 1)
        if len(w) != ar or len(set(w)) != len(w) or any(x >= n or x < 0 for x in w):
            return False
        if c in ("P", "CP") and not isinstance(param_value(g.get("p")), float):
            return False
        if c == "MCtrl" and g["g"] not in ("X", "Y", "Z", "H", "S", "T"):
            return False
    return True


def U(n, gl):
    return np.array(C.unitary(n, sim_gates(gl)), dtype=complex)


def embed(n, Ub, qs):
    """the operator Ub (on len(qs) qubits, bit j = its qubit j) acting on qubits qs of n qubits"""
    m = len(qs)
    dim = 2 ** n
    out = np.zeros((dim, dim), dtype=complex)
    mask = sum(1 << q for q in qs)
    for base in range(dim):
        if base & mask:
            continue
        idx = []
        for k in range(2 ** m):
            i = base
            for j in range(m):
                if (k >> j) & 1:
                    i |= 1 << qs[j]
            idx.append(i)
        for r_, ir in enumerate(idx):
            for c_, ic in enumerate(idx):
                out[ir, ic] = Ub[r_, c_]
    return out


def close(a, b):
    return a.shape == b.shape and bool(np.allclose(a, b, atol=1e-9))


# ------------------------------------------------------------------ one case on the real code

IN_PLACE = ("append_circuit", "iadd", "iadd_gate", "remove_identities", "qft", "iqft", "qft_iqft", "add_qubit")


def mutate_result(qc):
    """write through every mutable object reachable from the circuit"""
    seen = set()
    for lst in (qc.gates, qc.gates_computed):
        for _, w, _ in lst:
            if id(w) not in seen:
                seen.add(id(w))
                w.append(77)
                if len(w) > 1:
                    w[0] = 78
    from qlasskit.qcircuit import gates as _G

    qc.gates.append((_G.X(), [0], None))
    qc.gates_computed.clear()
    qc.qubit_map["__mut"] = 99
    if hasattr(qc, "ancilla_lst"):
        qc.ancilla_lst.add(1234)
        qc.free_ancilla_lst.add(1234)
        qc.marked_ancillas.add(1234)


def exec_case(case):
    """run one case on the real code.  Returns a dict with everything observed."""
    heap = Heap()
    op = case["op"]
    a = build(case["a"])
    b = build(case["b"]) if "b" in case else None
    qs = list(case["qs"]) if "qs" in case else None
    tup = None
    if op == "iadd_gate":
        gd = case["g"]
        tup = (C.make_gate(gd), list(gd["w"]), param_value(gd.get("p")))
    obs = {"op": op}
    before_a = snap(a, heap)
    before_b = snap(b, heap) if b is not None else None
    if tup is not None:
        obs["g"] = hgate_json(tup[0], tup[1], tup[2], heap)
    obs["next"] = heap.next
    obs["before"] = [before_a, before_b]
    result, err = None, None
    try:
        if op == "append_circuit":
            ret = a.append_circuit(b, qs)
            result = a
            obs["ret_is_self"] = ret is a
        elif op == "iadd":
            a0 = a
            a += b
            result = a
            obs["ret_is_self"] = a is a0
        elif op == "iadd_gate":
            a0 = a
            a += tup
            result = a
            obs["ret_is_self"] = a is a0
        elif op == "add":
            result = a + b
        elif op == "copy":
            result = a.copy(vanilla=bool(case.get("vanilla")))
        elif op == "repeat":
            result = a.repeat(case["times"])
        elif op == "remove_identities":
            a.remove_identities()
            result = a
        elif op in ("qft", "iqft"):
            wl = case["wl"]
            if case.get("names"):
                wl = [a.get_key_by_index(w) for w in wl]
            getattr(a, op)(wl)
            result = a
        elif op == "qft_iqft":
            a.qft(list(case["wl"]))
            a.iqft(list(case["wl"]))
            result = a
        elif op == "add_qubit":
            obs["index"] = a.add_qubit(case.get("qname"))
            result = a
        else:
            raise ValueError(op)
    except Exception as e:  # noqa
        err = classify(e)
        if op in IN_PLACE:
            result = a
    obs["err"] = err
    obs["after"] = [snap(a, heap), snap(b, heap) if b is not None else None]
    obs["qs_after"] = qs
    obs["result"] = snap(result, heap) if result is not None else None
    obs["result_is_operand"] = (result is a) or (result is b and b is not None)
    if result is not None and type(result).__name__ not in ("QCircuit", "QCircuitEnhanced"):
        obs["result_type"] = type(result).__name__
    obs["result_class_same"] = result is not None and type(result) is type(a)
    # mutate the result, look at the operands again
    if result is not None:
        try:
            mutate_result(result)
            obs["mutated"] = True
        except Exception as e:  # noqa
            obs["mutated"] = f"{type(e).__name__}: {e}"
    obs["after_mut"] = [snap(a, heap), snap(b, heap) if b is not None else None]
    if tup is not None:
        obs["g_after_mut"] = hgate_json(tup[0], tup[1], tup[2], heap)
    return obs


def shared_mutable(x, y):
    """mutable object ids common to two snapshots; gate-object ids common to them"""
    def objs(c):
        return set(c["ids"]) | {g["wid"] for g in c["gates"]} | {g["wid"] for g in c["computed"]}

    def gids(c):
        return {g["id"] for g in c["gates"]} | {g["id"] for g in c["computed"]}
    return sorted(objs(x) & objs(y)), sorted(gids(x) & gids(y))


def judge(case, obs):
    """the property on the code's observable behaviour.  Returns (what, detail) or None."""
    op = case["op"]
    ba, bb = obs["before"]
    err = obs["err"]
    res = obs["result"]
    n = ba["n"]
    a_valid = valid_gates(n, ba["gates"])
    b_valid = bb is not None and valid_gates(bb["n"], bb["gates"])
    small = n <= 6
    # ---- operands are not modified
    if op in IN_PLACE:
        # self is modified by design; the other operand must not be
        if bb is not None and (obs["after"][1] != bb or obs["after_mut"][1] != bb):
            which = "by the call" if obs["after"][1] != bb else "by mutating the result"
            return ("the appended operand was modified " + which, dict(before=bb, after=obs["after_mut"][1]))
        if "qs" in case and obs["qs_after"] != case["qs"]:
            return ("the qubit list was modified", dict(after=obs["qs_after"]))
        if err is not None and op in ("append_circuit", "iadd") and obs["after"][0] != ba:
            return ("a rejected append modified the circuit", dict(err=err))
    else:
        for k, (bef, aft, aftm) in enumerate(zip(obs["before"], obs["after"], obs["after_mut"])):
            if bef is None:
                continue
            if aft != bef:
                return (f"operand {k} was modified by the call", dict(before=bef, after=aft))
            if aftm != bef:
                return (f"mutating the result shows in operand {k}", dict(before=bef, after=aftm))
        if err is None and res is not None:
            if obs["result_is_operand"]:
                return ("the result is one of the operands", None)
            for k, bef in enumerate(obs["before"]):
                if bef is None:
                    continue
                sm, sg = shared_mutable(res, bef)
                if sm:
                    return (f"the result shares mutable objects with operand {k}", dict(shared=sm))
                if k == 0 and sg:
                    return ("the result shares gate objects with the circuit it was copied from", dict(shared=sg))
    # ---- action
    if op in ("append_circuit", "iadd", "add"):
        qs = case["qs"] if op == "append_circuit" else list(range(bb["n"]))
        dom = (bb["n"] <= n and len(qs) == bb["n"] and len(set(qs)) == len(qs) and all(0 <= x < n for x in qs)
               and a_valid and b_valid)
        if not dom:
            return None
        if err is not None:
            return ("raised on a valid append", dict(err=err))
        if op == "iadd" or op == "append_circuit":
            if obs.get("ret_is_self") is False:
                return ("did not return self", None)
        if not valid_gates(res["n"], res["gates"]) or res["n"] != n:
            return ("result is not a circuit on the same qubits", dict(result=res))
        if small:
            exp = embed(n, U(bb["n"], bb["gates"]), qs) @ U(n, ba["gates"])
            if not close(U(n, res["gates"]), exp):
                return ("unitary of the result is not (other on the given qubits) after (self)", dict(result=values(res)))
        return None
    if op == "iadd_gate":
        g = obs["g"]
        if not a_valid or not valid_gates(n, [g]):
            return None
        if err is not None:
            return ("raised on a valid gate", dict(err=err))
        if small and not close(U(n, res["gates"]), U(n, [g]) @ U(n, ba["gates"])):
            return ("unitary of the result is not gate after self", dict(result=values(res)))
        return None
    if op == "copy":
        if err is not None:
            return ("copy raised", dict(err=err))
        vb = values(ba)
        vr = values(res)
        if case.get("vanilla"):
            exp = dict(vb)
            exp["computed"] = []
            exp["qmap"] = [[f"q{i}", i] for i in range(n)]
            exp["enh"] = False
            exp["name"] = "qc"
            exp.pop("anc", None)
            vr.pop("anc", None)
            if vr != exp:
                return ("vanilla copy differs from source gates on fresh qubit names", dict(result=vr, expected=exp))
        elif vr != vb:
            return ("copy is not equal to its source", dict(result=vr, expected=vb))
        return None
    if op == "repeat":
        times = case["times"]
        if not a_valid:
            return None
        if err is not None:
            return ("repeat raised", dict(err=err))
        if res["n"] != n or not valid_gates(n, res["gates"]):
            return ("result is not a circuit on the same qubits", dict(result=values(res)))
        if small:
            exp = np.linalg.matrix_power(U(n, ba["gates"]), times)
            if not close(U(n, res["gates"]), exp):
                return (f"unitary of repeat({times}) is not the {times}-fold composition",
                        dict(result_gates=len(res["gates"]), source_gates=len(ba["gates"])))
        return None
    if op == "remove_identities":
        if err is not None:
            return ("remove_identities raised", dict(err=err))
        if not a_valid:
            return None
        if not valid_gates(n, res["gates"]):
            return ("result is not a circuit", dict(result=values(res)))
        if small and not close(U(n, res["gates"]), U(n, ba["gates"])):
            return ("remove_identities changed the action of the circuit", dict(result=values(res)))
        if len(res["gates"]) > len(ba["gates"]):
            return ("remove_identities added gates", None)
        return None
    if op == "qft_iqft":
        wl = case["wl"]
        if len(set(wl)) != len(wl) or any(w >= n for w in wl) or not a_valid:
            return None
        if err is not None:
            return ("qft/iqft raised on a duplicate-free list of qubits", dict(err=err))
        if small and not close(U(n, res["gates"]), U(n, ba["gates"])):
            return ("iqft after qft is not the identity", dict(wl=wl))
        return None
    if op in ("qft", "iqft"):
        wl = case["wl"]
        if len(set(wl)) != len(wl) or any(w >= n for w in wl) or not a_valid:
            return None
        if err is not None:
            return ("raised on a duplicate-free list of qubits", dict(err=err))
        return None
    return None


def model_request(case, obs, quirks):
    op = case["op"]
    ba, bb = obs["before"]
    strip = lambda c: {k: v for k, v in c.items() if k != "anc"}  # noqa
    req = {"a": strip(ba), "next": obs["next"], "quirks": quirks}
    if bb is not None:
        req["b"] = strip(bb)
    if op in ("append_circuit", "iadd", "add", "add_qubit"):
        req["op"] = "c14." + op
        if op == "append_circuit":
            req["qs"] = case["qs"]
        if op == "add_qubit" and case.get("qname") is not None:
            req["qname"] = case["qname"]
    elif op == "iadd_gate":
        req["op"] = "c14.iadd_gate"
        req["g"] = obs["g"]
    elif op == "copy":
        req.update(op="c14.copy", vanilla=bool(case.get("vanilla")))
    elif op == "repeat":
        req.update(op="c14.repeat", times=case["times"])
    elif op == "remove_identities":
        req["op"] = "c14.remove_identities"
    elif op in ("qft", "iqft"):
        req.update(op="c14.qft", wl=case["wl"], inverse=(op == "iqft"))
    else:
        return None
    return req


def model_ok_domain(case):
    """cases the Lean model covers (natural-number wires and qubit lists)"""
    if any(x < 0 for x in case.get("qs", [])):
        return False
    return case["op"] != "qft_iqft"


def compare(case, obs, rep):
    """exact correspondence; returns a message or None"""
    op = case["op"]
    if rep.get("err") != obs["err"]:
        return f"error class differs: code {obs['err']} model {rep.get('err')}"
    key = "r" if op in ("add", "copy", "repeat") else "a"
    mres = rep.get(key)
    if obs["err"] is not None and op not in ("qft", "iqft"):
        return None
    if mres is None:
        return "model returned no circuit"
    ops = [x for x in obs["before"] if x is not None]
    if op in IN_PLACE:
        cres = obs["after"][0] if obs["err"] is not None else obs["result"]
    else:
        cres = obs["result"]
    if "g" in obs:
        ops = ops + [dict(n=0, gates=[obs["g"]], computed=[], qmap=[], enh=False, name="", ids=[])]
    code_c = canon(ops + [cres])
    model_c = canon(ops + [mres])
    if code_c != model_c:
        return "result circuit (values or object-identity pattern) differs"
    if op == "add_qubit" and rep.get("index") != obs.get("index"):
        return "returned index differs"
    return None


# ------------------------------------------------------------------ generators

def G(c, w, p=None, id=0, wid=0, n=0, g=""):
    return {"c": c, "n": n, "g": g, "w": list(w), "p": p, "id": id, "wid": wid}


def kinds_slice():
    """one applied gate of every kind on 4 qubits"""
    th = repr(math.pi / 4)
    return [G("I", [0]), G("X", [1]), G("Y", [0]), G("Z", [2]), G("H", [1]), G("S", [0]), G("T", [3]),
            G("P", [1], th), G("Swap", [0, 2]), G("CX", [1, 0]), G("CZ", [2, 3]), G("CP", [3, 1], th),
            G("CCX", [0, 1, 2]), G("MCX", [3, 1, 0, 2], n=3), G("MCtrl", [1, 2, 0], n=2, g="Z"),
            G("MCtrl", [0, 3], n=1, g="X"), G("MCtrl", [2, 1], th, n=1, g="P"), G("MCtrl", [2, 1], n=1, g="S"),
            G("Barrier", []), G("NopGate", [])]


def rand_spec(rng, n, length, enh=None, dup=0.35):
    gl = []
    nid = [0]

    def fresh():
        nid[0] += 1
        return nid[0]
    while len(gl) < length:
        if n == 0:
            gl.append(G("Barrier", []))
            continue
        g = dict(C.rand_gate(rng, n))
        g["wid"] = 0
        r = rng.random()
        if r < dup:
            # an identical pair (same gate object), maybe around a barrier, maybe the same wire list
            g["id"] = fresh()
            g2 = dict(g)
            if rng.random() < 0.5:
                g["wid"] = g2["wid"] = fresh()
            if rng.random() < 0.3:
                gl.append(G("Barrier", []))
            gl.append(g)
            if rng.random() < 0.3:
                gl.append(G("Barrier", []))
            if rng.random() < 0.15 and len(g["w"]) > 1:
                g2["w"] = list(reversed(g2["w"]))
                g2["wid"] = 0
            gl.append(g2)
        elif r < dup + 0.1 and gl:
            # same object as an earlier gate, far away
            e = rng.choice(gl)
            if e["id"] == 0:
                e["id"] = fresh()
            gl.append(dict(e))
        else:
            gl.append(g)
    spec = {"n": n, "enh": (rng.random() < 0.5) if enh is None else enh, "gates": gl}
    if rng.random() < 0.3 and gl:
        spec["drop"] = sorted(set(rng.randrange(len(gl)) for _ in range(rng.randint(1, 2))))
    if rng.random() < 0.15:
        spec["extra_q"] = [rng.choice(["a", "q0", "b.1", None])]
    if spec["enh"] and rng.random() < 0.25:
        spec["anc"] = rng.randint(1, 2)
    return spec


def spec_n(spec):
    return spec["n"] + len(spec.get("extra_q", [])) + (spec.get("anc", 0) if spec.get("enh") else 0)


def systematic_cases():
    cases = []
    ks = kinds_slice()
    h1 = G("H", [1])
    # remove_identities: every kind as an identical pair: at the start, after a gate, after a barrier,
    # around a barrier, as two different objects, same object on other wires
    for k in ks:
        d = dict(k, id=1)
        e = dict(k, id=2)
        for name, gl in (
            ("start", [d, d, h1]),
            ("after-gate", [h1, d, d]),
            ("after-barrier", [h1, G("Barrier", []), d, d, h1]),
            ("around-barrier", [h1, d, G("Barrier", []), d]),
            ("around-barrier-start", [d, G("Barrier", []), d, h1]),
            ("two-objects", [h1, d, e, h1]),
            ("pair-pair", [h1, d, d, d, d]),
            ("triple", [h1, d, d, d]),
            ("nop-between", [h1, d, G("NopGate", []), d]),
        ):
            cases.append(dict(op="remove_identities", a=dict(n=4, enh=True, gates=_copy.deepcopy(gl)), tag="ri-" + name + "-" + k["c"]))
        if len(k["w"]) > 1:
            f = dict(d, w=list(reversed(d["w"])))
            cases.append(dict(op="remove_identities", a=dict(n=4, enh=True, gates=[h1, d, f]), tag="ri-other-wires-" + k["c"]))
        if k["p"] is not None:
            f = dict(d, p=repr(0.5))
            cases.append(dict(op="remove_identities", a=dict(n=4, enh=True, gates=[h1, d, f]), tag="ri-other-param-" + k["c"]))
    cases.append(dict(op="remove_identities", a=dict(n=2, enh=True, gates=[]), tag="ri-empty"))
    cases.append(dict(op="remove_identities", a=dict(n=2, enh=True, gates=[G("X", [0])]), tag="ri-single"))
    # every kind through every operator
    base = dict(n=4, enh=False, gates=[G("H", [0]), G("CX", [0, 1]), G("T", [1])])
    for pos in ("first", "middle", "last"):
        for k in ks:
            gl = {"first": [k] + base["gates"], "middle": base["gates"][:2] + [k] + base["gates"][2:],
                  "last": base["gates"] + [k]}[pos]
            a = dict(n=4, enh=(pos == "middle"), gates=_copy.deepcopy(gl))
            t = f"{pos}-{k['c']}"
            cases.append(dict(op="copy", a=a, vanilla=False, tag="copy-" + t))
            cases.append(dict(op="copy", a=a, vanilla=True, tag="vcopy-" + t))
            cases.append(dict(op="add", a=_copy.deepcopy(base), b=a, tag="add-" + t))
            cases.append(dict(op="add", a=a, b=_copy.deepcopy(base), tag="add2-" + t))
            cases.append(dict(op="iadd", a=_copy.deepcopy(base), b=a, tag="iadd-" + t))
            cases.append(dict(op="append_circuit", a=dict(n=5, enh=False, gates=[G("H", [4]), G("CX", [4, 0])]), b=a,
                              qs=[3, 0, 4, 1], tag="appc-" + t))
            cases.append(dict(op="repeat", a=a, times=2, tag="rep2-" + t))
            cases.append(dict(op="iadd_gate", a=_copy.deepcopy(base), g=dict(k), tag="iaddg-" + t))
    # repeat n = 0..5
    for times in range(0, 6):
        cases.append(dict(op="repeat", a=dict(n=2, enh=False, gates=[G("H", [0]), G("CX", [0, 1]), G("T", [1])]), times=times, tag=f"rep-{times}"))
        cases.append(dict(op="repeat", a=dict(n=1, enh=True, gates=[G("X", [0])]), times=times, tag=f"repx-{times}"))
        cases.append(dict(op="repeat", a=dict(n=2, enh=False, gates=[]), times=times, tag=f"rep-empty-{times}"))
    # rejected appends / boundary
    small = dict(n=2, enh=False, gates=[G("CX", [0, 1])])
    big = dict(n=3, enh=False, gates=[G("CCX", [0, 1, 2])])
    edge = dict(n=2, enh=False, gates=[G("X", [2])])  # append lets index == num_qubits through
    cases += [
        dict(op="add", a=small, b=big, tag="add-too-many"),
        dict(op="iadd", a=small, b=big, tag="iadd-too-many"),
        dict(op="append_circuit", a=small, b=big, qs=[0, 1, 2], tag="appc-too-many"),
        dict(op="append_circuit", a=big, b=small, qs=[0], tag="appc-short"),
        dict(op="append_circuit", a=big, b=small, qs=[0, 1, 2], tag="appc-long"),
        dict(op="append_circuit", a=big, b=small, qs=[], tag="appc-nolist"),
        dict(op="append_circuit", a=big, b=small, qs=[2, 2], tag="appc-noninj"),
        dict(op="append_circuit", a=big, b=small, qs=[1, 5], tag="appc-out-of-range"),
        dict(op="append_circuit", a=big, b=edge, qs=[1, 0], tag="appc-edge-index"),
        dict(op="add", a=big, b=edge, tag="add-edge-index"),
        dict(op="repeat", a=edge, times=2, tag="rep-edge-index"),
        dict(op="repeat", a=edge, times=1, tag="rep1-edge-index"),
        dict(op="add", a=big, b=dict(n=0, enh=False, gates=[]), tag="add-empty"),
        dict(op="add", a=dict(n=0, enh=False, gates=[]), b=dict(n=0, enh=True, gates=[G("Barrier", [])]), tag="add-zero"),
        dict(op="iadd_gate", a=small, g=G("CX", [1, 1]), tag="iaddg-dup"),
        dict(op="iadd_gate", a=small, g=G("CX", [1]), tag="iaddg-arity"),
        dict(op="iadd_gate", a=small, g=G("X", [3]), tag="iaddg-range"),
        dict(op="iadd_gate", a=small, g=G("X", [2]), tag="iaddg-edge"),
        dict(op="add_qubit", a=small, tag="addq"),
        dict(op="add_qubit", a=small, qname="q0", tag="addq-existing"),
        dict(op="add_qubit", a=small, qname="anc", tag="addq-name"),
    ]
    # self-append
    # qft / iqft
    for n in range(0, 7):
        wl = list(range(n))
        cases.append(dict(op="qft", a=dict(n=n, enh=False, gates=[]), wl=wl, tag=f"qft-{n}"))
        cases.append(dict(op="iqft", a=dict(n=n, enh=False, gates=[]), wl=wl, tag=f"iqft-{n}"))
        cases.append(dict(op="qft_iqft", a=dict(n=n, enh=False, gates=[]), wl=wl, tag=f"qftiqft-{n}"))
        cases.append(dict(op="qft_iqft", a=dict(n=n, enh=False, gates=[]), wl=list(reversed(wl)), tag=f"qftiqft-rev-{n}"))
        if n >= 1:
            cases.append(dict(op="qft", a=dict(n=n, enh=True, gates=[]), wl=wl, names=True, tag=f"qft-names-{n}"))
            cases.append(dict(op="qft_iqft", a=dict(n=n + 1, enh=False, gates=[G("H", [n])]), wl=wl, tag=f"qftiqft-wider-{n}"))
    cases += [
        dict(op="qft", a=dict(n=3, enh=False, gates=[]), wl=[0, 1, 0], tag="qft-dup"),
        dict(op="iqft", a=dict(n=3, enh=False, gates=[]), wl=[0, 1, 0], tag="iqft-dup"),
        dict(op="qft", a=dict(n=3, enh=False, gates=[]), wl=[0, 1, 1], tag="qft-dup2"),
        dict(op="qft", a=dict(n=3, enh=False, gates=[]), wl=[0, 5, 1], tag="qft-range"),
        dict(op="iqft", a=dict(n=3, enh=False, gates=[]), wl=[2, 3, 1], tag="iqft-edge"),
    ]
    return cases


def random_case(rng, k, thorough):
    op = rng.choice(["append_circuit", "append_circuit", "add", "iadd", "copy", "repeat", "remove_identities",
                     "remove_identities", "qft_iqft", "qft", "iqft", "iadd_gate"])
    nmax = 5 if thorough else 4
    if op in ("append_circuit", "add", "iadd"):
        nb = rng.randint(0, nmax - 1)
        na = rng.randint(nb, nmax)
        a = rand_spec(rng, na, rng.randint(0, 6))
        b = rand_spec(rng, nb, rng.randint(0, 7))
        a.pop("extra_q", None)
        case = dict(op=op, a=a, b=b)
        if rng.random() < 0.06:
            case["a"], case["b"] = b, a
        if op == "append_circuit":
            nbq, naq = spec_n(case["b"]), spec_n(case["a"])
            r = rng.random()
            if r < 0.85 and nbq <= naq:
                qs = rng.sample(range(naq), nbq)
            elif r < 0.93:
                qs = [rng.randrange(max(1, naq + 1)) for _ in range(nbq)]
            else:
                qs = [rng.randrange(max(1, naq)) for _ in range(rng.randint(0, nbq + 1))]
            case["qs"] = qs
        return case
    if op == "copy":
        return dict(op=op, a=rand_spec(rng, rng.randint(0, nmax), rng.randint(0, 8)), vanilla=rng.random() < 0.5)
    if op == "repeat":
        n = rng.randint(0, nmax - 1)
        return dict(op=op, a=rand_spec(rng, n, rng.randint(0, 5)), times=rng.randint(0, 5))
    if op == "remove_identities":
        n = rng.randint(1, nmax)
        s = rand_spec(rng, n, rng.randint(1, 10), enh=True, dup=0.6)
        s.pop("extra_q", None)
        return dict(op=op, a=s)
    if op == "iadd_gate":
        n = rng.randint(1, nmax)
        s = rand_spec(rng, n, rng.randint(0, 4))
        s.pop("extra_q", None)
        g = dict(C.rand_gate(rng, n))
        if rng.random() < 0.1 and g["w"]:
            g["w"][0] = n
        return dict(op=op, a=s, g=g)
    n = rng.randint(0, 6 if thorough else 5)
    m = rng.randint(0, n)
    wl = rng.sample(range(n), m)
    s = rand_spec(rng, n, rng.randint(0, 3), dup=0.0)
    s.pop("extra_q", None)
    s.pop("drop", None)
    case = dict(op=op, a=s, wl=wl)
    if op != "qft_iqft" and rng.random() < 0.1 and n > 0:
        case["wl"] = wl + [rng.randrange(n + 1)]
    return case


# ------------------------------------------------------------------ findings

FINDING_KIND = {
    "repeatZero": "repeat",
    "removeIdEmptyResult": "remove_identities",
    "cancelsNonInvolutions": "remove_identities",
}


def candidate_finding(ctx, case, obs, what, rep, quirks):
    """the open, active finding whose precise trigger this failing case matches and whose
    quirk-model output equals the code's output exactly -- still to be confirmed by
    `confirmed` (switching the quirk off must change the model's output on this case)"""
    if rep is None or "driver_error" in rep or compare(case, obs, rep) is not None:
        return None
    for f in ctx.findings:
        q = f.get("quirk")
        if f.get("status", "open") != "open" or not f.get("_active") or q not in quirks:
            continue
        if FINDING_KIND.get(q) != case["op"]:
            continue
        if q == "repeatZero" and not (case["times"] == 0 and "fold composition" in what):
            continue
        if q == "removeIdEmptyResult" and not (obs["err"] == "index_error" and what == "remove_identities raised"):
            continue
        if q == "cancelsNonInvolutions" and what != "remove_identities changed the action of the circuit":
            continue
        return f
    return None


def active_quirks(ctx):
    return sorted({f["quirk"] for f in ctx.findings if f.get("status", "open") == "open" and f.get("_active") and f.get("quirk")})


# ------------------------------------------------------------------ run / replay

def bucket_of(case, obs):
    b = case["op"]
    if case["op"] == "repeat":
        b += f"-{min(case['times'], 3)}"
    if obs["err"]:
        b += "-rejected"
    return b


def nontrivial(case, obs):
    n_g = len(obs["before"][0]["gates"]) + (len(obs["before"][1]["gates"]) if obs["before"][1] else 0)
    return n_g >= 2 or case["op"] in ("qft", "iqft", "qft_iqft") and len(case["wl"]) >= 2


def run(ctx: Ctx) -> Result:
    res = Result("C14")
    rng = ctx.rng
    quirks = active_quirks(ctx)
    res.rule = (
        "systematic slice: every gate kind x {identical pair at start / after a gate / after a barrier / around a "
        "barrier / two objects / other wires / other param} for remove_identities, every gate kind in first/middle/"
        "last position through copy, vanilla copy, +, +=, append_circuit onto a wider circuit, repeat, += gate; "
        "repeat n=0..5; rejected and boundary appends; qft, iqft, qft;iqft on 0..6 qubits; then random cases "
        "(operand circuits with shared gate objects / wire lists / trimmed gates_computed, remaps, n in 0..5). "
        "case = (operator, operand specs, arguments); non-trivial = operands hold >= 2 gates or a Fourier list of >= 2 qubits"
    )
    cases = systematic_cases()
    n_rand = 9000 if ctx.thorough else 900
    for k in range(n_rand):
        cases.append(random_case(rng, k, ctx.thorough))
    observed = []
    for case in cases:
        obs = exec_case(case)
        observed.append(obs)
        res.count({k: v for k, v in case.items() if k != "tag"}, nontrivial=nontrivial(case, obs), bucket=bucket_of(case, obs))
    # model
    reqs, idx = [], []
    for i, (case, obs) in enumerate(zip(cases, observed)):
        if model_ok_domain(case):
            r = model_request(case, obs, quirks)
            if r is not None:
                reqs.append(r)
                idx.append(i)
    replies = ctx.model(reqs)
    rep_of = {}
    if replies is not None:
        rep_of = dict(zip(idx, replies))
    n_judged = 0
    pending = []  # failing cases that may belong to a finding
    for i, (case, obs) in enumerate(zip(cases, observed)):
        verdict = judge(case, obs)
        n_judged += 1
        rep = rep_of.get(i)
        if verdict is not None:
            what, detail = verdict
            f = candidate_finding(ctx, case, obs, what, rep, quirks) if model_ok_domain(case) else None
            if f is not None:
                pending.append((case, obs, what, detail, rep, f))
            else:
                res.violation(dict(case), what, code=dict(err=obs["err"], detail=detail), model=rep)
            continue
        if rep is not None:
            if "driver_error" in rep:
                res.disagree(case, "model driver error", model=rep)
                continue
            msg = compare(case, obs, rep)
            if msg is not None:
                res.disagree(case, msg, code=dict(err=obs["err"], result=obs["result"]), model=rep)
    if pending:
        reqs2 = [model_request(c, o, [x for x in quirks if x != f["quirk"]]) for c, o, _, _, _, f in pending]
        reps2 = ctx.model(reqs2)
        for (case, obs, what, detail, rep, f), without in zip(pending, reps2 or [None] * len(pending)):
            key = lambda r: json.dumps({k: v for k, v in r.items() if k != "triggers"}, sort_keys=True)  # noqa
            if without is not None and key(without) != key(rep):
                res.known(f["id"])
            else:
                res.violation(dict(case), what, code=dict(err=obs["err"], detail=detail), model=rep)
    res.extra["judged_cases"] = n_judged
    res.extra["model_cases"] = len(reqs)
    res.assumptions.append(
        "C14: gate semantics enter the theorems only through algebraic laws of an abstract monoid-valued `sem` "
        "(H, SWAP and the self-inverse classes square to 1, CP(t)CP(-t)=1, gates on disjoint wires commute, barriers are 1); "
        "the harness' numeric oracle uses the textbook matrices of harness/circ.py. copy.deepcopy is modelled as an "
        "identity-pattern-preserving fresh copy; gate descriptor objects and parameters are treated as immutable.")
    res.notes.append("QCircuit.__native (a draw cache reset by copy()) and the ancilla sets of QCircuitEnhanced are not in the Lean model; "
                     "the ancilla sets are compared on the real code only (operands unchanged, copies independent)")
    return res


def run_one(ctx, case):
    obs = exec_case(case)
    return obs, judge(case, obs)


def witness_fails(ctx: Ctx, f):
    w = f.get("witness")
    if not isinstance(w, dict) or "op" not in w:
        return None
    _, verdict = run_one(ctx, w)
    return verdict is not None


def replay(ctx: Ctx, payload):
    first = payload.get("first") or {}
    case = first.get("case")
    if case is None:
        ds = payload.get("correspondence_disagreements") or []
        case = ds[0]["case"] if ds else None
    if case is None or "op" not in case:
        print("nothing to replay")
        return 2
    print("replaying", json.dumps(case))
    obs, verdict = run_one(ctx, case)
    print(json.dumps(dict(err=obs["err"], result=values(obs["result"]) if obs["result"] else None), indent=1))
    if verdict is not None:
        print("property violated on the real code:", verdict[0])
        return 1
    if model_ok_domain(case):
        r = model_request(case, obs, active_quirks(ctx))
        if r is not None:
            rep = ctx.model([r])
            if rep is not None:
                msg = compare(case, obs, rep[0])
                if msg:
                    print("model and code disagree:", msg)
                    return 1
    print("holds")
    return 0
