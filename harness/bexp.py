"""sympy Boolean <-> JSON BExp (see lean/QV/Drive/BExpJson.lean) and truth-table helpers."""
from __future__ import annotations

import itertools

from sympy import Symbol
from sympy.logic.boolalg import (ITE, And, BooleanFalse, BooleanTrue, Implies, Not, Or, Xor)


def to_json(e):
    if e is True or isinstance(e, BooleanTrue):
        return ["tt"]
    if e is False or isinstance(e, BooleanFalse):
        return ["ff"]
    if isinstance(e, Symbol):
        return ["sym", e.name]
    if isinstance(e, Not):
        return ["not", to_json(e.args[0])]
    if isinstance(e, And):
        return ["and"] + [to_json(a) for a in e.args]
    if isinstance(e, Or):
        return ["or"] + [to_json(a) for a in e.args]
    if isinstance(e, Xor):
        return ["xor"] + [to_json(a) for a in e.args]
    if isinstance(e, ITE):
        return ["ite"] + [to_json(a) for a in e.args]
    if isinstance(e, Implies):
        return ["imp"] + [to_json(a) for a in e.args]
    raise ValueError(f"not a modelled boolean expression: {e!r} ({type(e).__name__})")


def from_json(j, evaluate=True):
    t = j[0]
    kw = {} if evaluate else {"evaluate": False}
    if t == "tt":
        from sympy import true
        return true
    if t == "ff":
        from sympy import false
        return false
    if t == "sym":
        return Symbol(j[1])
    if t == "not":
        return Not(from_json(j[1], evaluate), **kw)
    sub = [from_json(x, evaluate) for x in j[1:]]
    if t == "and":
        return And(*sub, **kw)
    if t == "or":
        return Or(*sub, **kw)
    if t == "xor":
        return Xor(*sub, **kw)
    if t == "ite":
        return ITE(*sub, **kw)
    if t == "imp":
        return Implies(*sub, **kw)
    raise ValueError(t)


def eval_json(j, env):
    """reference evaluation of the JSON form (independent of sympy)"""
    t = j[0]
    if t == "tt":
        return True
    if t == "ff":
        return False
    if t == "sym":
        return bool(env.get(j[1], False))
    if t == "not":
        return not eval_json(j[1], env)
    if t == "and":
        return all(eval_json(x, env) for x in j[1:])
    if t == "or":
        return any(eval_json(x, env) for x in j[1:])
    if t == "xor":
        r = False
        for x in j[1:]:
            r ^= eval_json(x, env)
        return r
    if t == "ite":
        return eval_json(j[2], env) if eval_json(j[1], env) else eval_json(j[3], env)
    if t == "imp":
        return (not eval_json(j[1], env)) or eval_json(j[2], env)
    raise ValueError(t)


def syms_json(j, acc=None):
    if acc is None:
        acc = []
    if j[0] == "sym":
        if j[1] not in acc:
            acc.append(j[1])
    else:
        for x in j[1:]:
            if isinstance(x, list):
                syms_json(x, acc)
    return acc


def truth_table(names, exprs_json):
    """row k: names[i] = bit i of k; one char per expression (same layout as QV.truthTable)"""
    out = []
    for k in range(2 ** len(names)):
        env = {n: bool((k >> i) & 1) for i, n in enumerate(names)}
        for e in exprs_json:
            out.append("1" if eval_json(e, env) else "0")
    return "".join(out)


def sympy_truth_table(names, exprs):
    out = []
    for k in range(2 ** len(names)):
        env = {Symbol(n): bool((k >> i) & 1) for i, n in enumerate(names)}
        for e in exprs:
            v = e.subs(env) if hasattr(e, "subs") else e
            out.append("1" if bool(v) else "0")
    return "".join(out)
