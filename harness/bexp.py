"""sympy Boolean <-> JSON BExp (see lean/QV/Drive/BExpJson.lean) and truth-table helpers."""
from __future__ import annotations

import itertools

from sympy import Symbol
from sympy.logic.boolalg import (ITE, And, BooleanFalse, BooleanTrue, Implies, Not, Or, Xor)


def to_json(e):
    if e is True or isinstance(e, BooleanTrue):
        return ["tt"]
    if e is False or isinstance(e, BooleanFalse):
        return ["ff"]
    if isinstance(e, Symbol):
        return ["sym", e.name]
    if isinstance(e, Not):
        return ["not", to_json(e.args[0])]
    if isinstance(e, And):
        return ["and"] + [to_json(a) for a in e.args]
    if isinstance(e, Or):
        return ["or"] + [to_json(a) for a in e.args]
    if isinstance(e, Xor):
        return ["xor"] + [to_json(a) for a in e.args]
    if isinstance(e, ITE):
        return ["ite"] + [to_json(a) for a in e.args]
    if isinstance(e, Implies):
        return ["imp"] + [to_json(a) for a in e.args]
    raise ValueError(f"not a modelled boolean expression: {e!r} ({type(e).__name__})")


def from_json(j, evaluate=True):
    t = j[0]
    kw = {} if evaluate else {"evaluate": False}
    if t == "tt":
        from sympy import true
        return true
    if t == "ff":
        from sympy import false
        return false
    if t == "sym":
        return Symbol(j[1])
    if t == "not":
        return Not(from_json(j[1], evaluate), **kw)
    sub = [from_json(x, evaluate) for x in j[1:]]
    if t == "and":
        return And(*sub, **kw)
    if t == "or":
        return Or(*sub, **kw)
    if t == "xor":
        return Xor(*sub, **kw)
    if t == "ite":
        return ITE(*sub, **kw)
    if t == "imp":
        return Implies(*sub, **kw)
    raise ValueError(t)


def eval_json(j, env):
    """reference evaluation of the JSON form (independent of sympy)"""
    t = j[0]
    if t == "tt":
        return True
    if t == "ff":
        return False
    if t == "sym":
        return bool(env.get(j[1], False))
    if t == "not":
        return not eval_json(j[1], env)
    if t == "and":
        return all(eval_json(x, env) for x in j[1:])
    if t == "or":
        return any(eval_json(x, env) for x in j[1:])
    if t == "xor":
        r = False
        for x in j[1:]:
            r ^= eval_json(x, env)
        return r
    if t == "ite":
        return eval_json(j[2], env) if eval_json(j[1], env) else eval_json(j[3], env)
    if t == "imp":
        return (not eval_json(j[1], env)) or eval_json(j[2], env)
    raise ValueError(t)


def syms_json(j, acc=None):
    if acc is None:
        acc = []
    if j[0] == "sym":
        if j[1] not in acc:
            acc.append(j[1])
    else:
        for x in j[1:]:
            if isinstance(x, list):
                syms_json(x, acc)
    return acc


def truth_table(names, exprs_json):
    """row k: names[i] = bit i of k; one char per expression (same layout as QV.truthTable)"""
    out = []
    for k in range(2 ** len(names)):
        env = {n: bool((k >> i) & 1) for i, n in enumerate(names)}
        for e in exprs_json:
            out.append("1" if eval_json(e, env) else "0")
    return "".join(out)


def sympy_truth_table(names, exprs):
    out = []
    for k in range(2 ** len(names)):
        env = {Symbol(n): bool((k >> i) & 1) for i, n in enumerate(names)}
        for e in exprs:
            v = e.subs(env) if hasattr(e, "subs") else e
            out.append("1" if bool(v) else "0")
    return "".join(out)


# ----------------------------------------------------------------------------- shared sub-expressions
# The expressions of a wide arithmetic program (a product over Qint[12] / Qint[16] operands) share their
# sub-expressions: as objects in memory they are a small graph, as trees they have 10^5 ... 10^10 nodes.
# `dag_of_defs` linearises a definition list into one node list (every sympy object once, found by identity),
# `dag_rows` evaluates it sequentially on given rows.  Independent of sympy's own evaluation.
def dag_of_defs(exprs, argbits=()):
    """[(name, sympy expr)] -> dict(nodes, free, defined).

    nodes: list of tuples in evaluation order:
      ("tt",) ("ff",) ("sym", name) ("not", i) ("and", [i…]) ("or", [i…]) ("xor", [i…]) ("ite", c, t, e)
      ("imp", a, b) ("def", name, i)        (i = index of an earlier node)
    A symbol is read where its node stands: when a name that was read or defined before is defined again, the
    objects seen so far are forgotten (the same sympy object then means another value).
    free: symbols read that are neither argument bits nor defined earlier."""
    nodes, memo, keep = [], {}, []
    known, free, touched = set(argbits), [], set()

    def leaf(e):
        if e is True or isinstance(e, BooleanTrue):
            return ("tt",)
        if e is False or isinstance(e, BooleanFalse):
            return ("ff",)
        if isinstance(e, Symbol):
            return ("sym", e.name)
        return None

    def tag_of(e):
        for cls, t in ((Not, "not"), (And, "and"), (Or, "or"), (Xor, "xor"), (ITE, "ite"), (Implies, "imp")):
            if isinstance(e, cls):
                return t
        raise ValueError(f"not a modelled boolean expression: {str(e)[:80]!r} ({type(e).__name__})")

    def add(e):
        """index of the node of e (iterative post-order; children first)"""
        stack = [(e, False)]
        while stack:
            x, done = stack.pop()
            if id(x) in memo:
                continue
            lf = leaf(x)
            if lf is not None:
                if lf[0] == "sym":
                    touched.add(lf[1])
                    if lf[1] not in known and lf[1] not in free:
                        free.append(lf[1])
                memo[id(x)] = len(nodes)
                keep.append(x)
                nodes.append(lf)
                continue
            t = tag_of(x)
            if not done:
                stack.append((x, True))
                for a in x.args:
                    if id(a) not in memo:
                        stack.append((a, False))
                continue
            idx = [memo[id(a)] for a in x.args]
            memo[id(x)] = len(nodes)
            keep.append(x)
            if t == "not":
                nodes.append(("not", idx[0]))
            elif t == "ite":
                nodes.append(("ite", idx[0], idx[1], idx[2]))
            elif t == "imp":
                nodes.append(("imp", idx[0], idx[1]))
            else:
                nodes.append((t, idx))
        return memo[id(e)]

    defined = []
    for s, e in exprs:
        name = s if isinstance(s, str) else s.name
        i = add(e)
        nodes.append(("def", name, i))
        if name in touched:
            memo.clear()
        touched.add(name)
        known.add(name)
        defined.append(name)
    return dict(nodes=nodes, free=free, defined=defined, _keep=keep)


def dag_rows(dag, argbits, retbits, ks):
    """one string of return bits per row number in ks (argument bit i = bit i of k; unbound symbol = False)"""
    nodes = dag["nodes"]
    out = []
    n = len(nodes)
    for k in ks:
        env = {b: bool((k >> i) & 1) for i, b in enumerate(argbits)}
        val = [False] * n
        for i, nd in enumerate(nodes):
            t = nd[0]
            if t == "sym":
                val[i] = env.get(nd[1], False)
            elif t == "and":
                v = True
                for j in nd[1]:
                    if not val[j]:
                        v = False
                        break
                val[i] = v
            elif t == "xor":
                v = False
                for j in nd[1]:
                    v ^= val[j]
                val[i] = v
            elif t == "or":
                v = False
                for j in nd[1]:
                    if val[j]:
                        v = True
                        break
                val[i] = v
            elif t == "not":
                val[i] = not val[nd[1]]
            elif t == "def":
                env[nd[1]] = val[nd[2]]
            elif t == "tt":
                val[i] = True
            elif t == "ff":
                val[i] = False
            elif t == "ite":
                val[i] = val[nd[2]] if val[nd[1]] else val[nd[3]]
            elif t == "imp":
                val[i] = (not val[nd[1]]) or val[nd[2]]
            else:
                raise ValueError(t)
        out.append("".join("1" if env.get(r, False) else "0" for r in retbits))
    return out
