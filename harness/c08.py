"""C08 - binding parameters is specialisation.

Always-on search on the real code.  Parameterised programs (Parameter[bool], Parameter[Qint[k]],
Parameter[Tuple[...]], Parameter[Qlist[...]], Parameter[List[Tuple[...]]], 1-3 parameters mixed
with ordinary arguments; parameters in arithmetic, bitwise, shifts, comparisons, if-expressions,
tuple indexing, re-assignment, `if` statements, `for` loops over a parameter, parameters as loop
bounds) are compiled to an UnboundQlassf; ONE unbound object per program is then bound many times:
every parameter value when the domain is <= 64 (else a sample), rotating keyword orders,
repeated and alternating binds.  For every bind the truth table of the bound function is decoded
on ALL remaining inputs and judged by oracles that do not use `bind`:
  * CPython running the user's source with the parameters passed as keyword arguments;
  * the real front end on the source specialised *textually* by this harness (signature without
    the parameters, `k = repr(v)` lines prepended in keyword order) - never through bind; when the
    listed defect is not active (repaired bind) a value of the declared type T is written
    `k: T = repr(v)`, and a second reference uses the library's typecasts (`Qint4(3)`) instead;
  * keyword values that are not values of the declared type (an int needing more bits than Qint[n]):
    bound as bare literals also by the repaired bind;
  * `ast.dump(u.fun_ast)` / `u.parameters` before and after every bind, results of repeated binds
    of the same values after any history, a fresh unbound object;
  * wrong arity / unknown names must raise, and must leave the object usable.
Container shapes (`shape_programs`, same for every seed, + a few random ones): Parameter[Qmatrix[T, n, m]] for all
1 <= n, m <= 3, Qlist of every length 1..4, Tuples of mixed element types, nested containers, Qint of every shipped
width - bound to values whose entries are NARROWER than the declared element type inside width-sensitive bodies
(`~x`, `x + y` overflowing the narrow width, `x - 1`, `x << 2`, comparisons with a wider operand), to values with an
entry outside the declared range, and to wrongly shaped values (transposed, ragged, too long / short, an atom for a
row, ...), which must be bound as bare literals; and `is_value_of(annotation, value)` itself on every such shape x
every right / wrong variant, against the harness' own reading and the Lean model `isValueOfAnn` (annotation as written).
Correspondence with the Lean model (QV.Model.Bind) through the driver: unbound-or-not and the
parameter table, the header of the bound AST handed to the translator (argument names, injected
assignments with their `to_val` trees, untouched body), error texts; `Sem` in Python values
against CPython on every row; `Sem` in width-aware values (active quirks) against the code's bits
on every row of the programs inside the width model's operator set.
"""
from __future__ import annotations

import __future__
import ast
import itertools
import json
import random

from . import bexp
from .common import Ctx, Result

LEVEL = "proof"
QUIRK = "bindDropsType"
FID = "C08-bind-drops-declared-type"
QUIRK_NESTED = "annNestedContainerUnread"
FID_NESTED = "C08-nested-container-annotation"

# --------------------------------------------------------------------------- types
# T ::= "bool" | ["qint", w] | ["tuple", [T...]] | ["qlist", T, n] | ["qmatrix", T, n, m] | ["list", T, n]
# ("list" = typing.List annotation for a parameter; values are python lists of length n;
#  "qmatrix" = n rows of m entries: its elements are n x ["qlist", T, m])


def ty_src(t):
    if t == "bool":
        return "bool"
    if t[0] == "qint":
        return f"Qint[{t[1]}]"
    if t[0] == "tuple":
        return "Tuple[" + ", ".join(ty_src(x) for x in t[1]) + "]"
    if t[0] == "qlist":
        return f"Qlist[{ty_src(t[1])}, {t[2]}]"
    if t[0] == "qmatrix":
        return f"Qmatrix[{ty_src(t[1])}, {t[2]}, {t[3]}]"
    if t[0] == "list":
        return f"List[{ty_src(t[1])}]"
    raise ValueError(t)


def ty_elems(t):
    if t[0] == "tuple":
        return list(t[1])
    if t[0] == "qmatrix":
        return [["qlist", t[1], t[3]]] * t[2]
    if t[0] in ("qlist", "list"):
        return [t[1]] * t[2]
    return None


def ty_model(t):
    """declared type as the Lean model's Ty (`typing.List[..]` is no type of the translator: `other`)"""
    if t == "bool":
        return "bool"
    if t[0] == "qint":
        return ["qint", t[1]]
    if t[0] == "list":
        return ["other", ty_src(t)]
    return ["tuple", [ty_model(x) for x in ty_elems(t)]]


QINT_WIDTHS = (2, 3, 4, 5, 6, 7, 8, 12, 16)  # cross-checked against qlasskit.types.QINT_TYPES at the start of a run


def is_value_of(t, v):
    """the property's own reading of `a value of the declared type`: bool / Qint[n] (a builtin width, 0 <= v < 2**n) /
    Tuple, Qlist of those with the right shape.  Only such a keyword value keeps its declared type in the repaired bind;
    anything else (typing.List annotations, out-of-range ints, wrong shapes) is bound as a bare literal, as before."""
    if t == "bool":
        return isinstance(v, bool)
    if t[0] == "qint":
        return type(v) is int and t[1] in QINT_WIDTHS and 0 <= v < 2 ** t[1]
    if t[0] in ("tuple", "qlist", "qmatrix"):
        el = ty_elems(t)
        return isinstance(v, (tuple, list)) and len(el) > 0 and len(v) == len(el) and all(is_value_of(x, y) for x, y in zip(el, v))
    return False


def ty_bits(t):
    if t == "bool":
        return 1
    if t[0] == "qint":
        return t[1]
    return sum(ty_bits(x) for x in ty_elems(t))


def ty_domain_size(t):
    return 2 ** ty_bits(t)


def ty_value(t, k):
    """the k-th value of type t (k < 2**bits), as a python value (tuples for aggregates)"""
    if t == "bool":
        return bool(k & 1)
    if t[0] == "qint":
        return k % (2 ** t[1])
    out = []
    for x in ty_elems(t):
        n = ty_bits(x)
        out.append(ty_value(x, k % (2 ** n)))
        k >>= n
    return out if t[0] == "list" else tuple(out)


def names_of(base, t):
    """bit names of an argument / the return value, in the order of Arg.bitvec"""
    if t == "bool":
        return [base]
    if t[0] == "qint":
        return [f"{base}.{i}" for i in range(t[1])]
    out = []
    for i, x in enumerate(ty_elems(t)):
        out.extend(names_of(f"{base}.{i}", x))
    return out


def encode(t, v):
    if t == "bool":
        return [bool(v)]
    if t[0] == "qint":
        return [bool((v >> i) & 1) for i in range(t[1])]
    out = []
    for x, y in zip(ty_elems(t), v):
        out.extend(encode(x, y))
    return out


def decode(t, bits):
    bits = list(bits)

    def go(t):
        if t == "bool":
            return bits.pop(0)
        if t[0] == "qint":
            return sum((1 << i) for i in range(t[1]) if bits.pop(0))
        return tuple(go(x) for x in ty_elems(t))

    return go(t)


def representable(t, v):
    """python result v as a value of the declared return type, or None"""
    if t == "bool":
        if isinstance(v, bool):
            return v
        return None
    if t[0] == "qint":
        if isinstance(v, bool) or not isinstance(v, int):
            return None
        return v if 0 <= v < 2 ** t[1] else None
    if not isinstance(v, (tuple, list)) or len(v) != len(ty_elems(t)):
        return None
    out = []
    for x, y in zip(ty_elems(t), v):
        r = representable(x, y)
        if r is None:
            return None
        out.append(r)
    return tuple(out)


def pyval_json(v):
    """keyword value as the model's PyVal"""
    if isinstance(v, bool):
        return ["atom", ["b", v]]
    if isinstance(v, int):
        return ["atom", ["i", v]]
    if isinstance(v, str):
        return ["atom", ["s", v]]
    return ["iter", [pyval_json(x) for x in v]]


def w_value(t, v):
    if t == "bool":
        return bool(v)
    if t[0] == "qint":
        return "".join("1" if b else "0" for b in encode(t, v))
    return [w_value(x, y) for x, y in zip(ty_elems(t), v)]


def py_value(v):
    return [py_value(x) for x in v] if isinstance(v, (tuple, list)) else v


def w_decode(t, j):
    if j is None:
        return None
    if t == "bool":
        return j if isinstance(j, bool) else None
    if t[0] == "qint":
        return sum((1 << i) for i, c in enumerate(j) if c == "1") if isinstance(j, str) and len(j) == t[1] else None
    return None


# --------------------------------------------------------------------------- expressions
# E ::= ["const", atom] | ["tuple", [E]] | ["var", n] | ["un", op, E] | ["bin", op, E, E] | ["ite", E, E, E] | ["idx", E, i]

BIN_SRC = {"add": "+", "sub": "-", "band": "&", "bor": "|", "bxor": "^", "shl": "<<", "shr": ">>",
           "eq": "==", "ne": "!=", "lt": "<", "le": "<=", "gt": ">", "ge": ">=", "and": "and", "or": "or"}
W_OPS = {"add", "sub", "band", "bor", "bxor", "shl", "shr", "eq", "ne", "lt", "le", "gt", "ge", "and", "or"}


def exp_src(e):
    k = e[0]
    if k == "const":
        return repr(e[1][1])
    if k == "tuple":
        return "(" + ", ".join(exp_src(x) for x in e[1]) + ("," if len(e[1]) == 1 else "") + ")"
    if k == "var":
        return e[1]
    if k == "un":
        return f"(not {exp_src(e[2])})" if e[1] == "not" else f"(~{exp_src(e[2])})"
    if k == "bin":
        return f"({exp_src(e[2])} {BIN_SRC[e[1]]} {exp_src(e[3])})"
    if k == "ite":
        return f"({exp_src(e[2])} if {exp_src(e[1])} else {exp_src(e[3])})"
    if k == "idx":
        return f"{exp_src(e[1])}[{e[2]}]"
    raise ValueError(e)


def exp_ops(e, acc):
    if e[0] == "bin":
        acc.add(e[1])
    if e[0] == "un":
        acc.add(e[1])
    if e[0] == "ite":
        acc.add("ite")
    if e[0] == "idx":
        acc.add("idx")
    for x in e[1:]:
        if isinstance(x, list) and x and isinstance(x[0], str) and x[0] in ("const", "tuple", "var", "un", "bin", "ite", "idx"):
            exp_ops(x, acc)
        elif isinstance(x, list):
            for y in x:
                if isinstance(y, list) and y and isinstance(y[0], str):
                    exp_ops(y, acc)
    return acc


# --------------------------------------------------------------------------- programs
# prog = {name, args: [{name, ty, param, ann?}], rty, body: [[target, E]] | lines: [str], ret: E?}
# `body`/`ret` present: program of the model's statement language; `lines`: raw python body.


def ann_src(a):
    if a.get("ann"):
        return a["ann"]
    return f"Parameter[{ty_src(a['ty'])}]" if a["param"] else ty_src(a["ty"])


def body_lines(p):
    if "lines" in p:
        return list(p["lines"])
    return [f"{t} = {exp_src(e)}" for t, e in p["body"]] + [f"return {exp_src(p['ret'])}"]


def render(name, args, rty, lines):
    sig = ", ".join(f"{a['name']}: {ann_src(a)}" for a in args)
    return f"def {name}({sig}) -> {ty_src(rty)}:\n" + "\n".join("\t" + l for l in lines)


def prog_src(p):
    return render(p["name"], p["args"], p["rty"], body_lines(p))


def typecast_src(t, v):
    """v written with the library's typecasts at the leaves: Qint4(3), (True, Qint2(1))"""
    if t == "bool":
        return repr(v)
    if t[0] == "qint":
        return f"Qint{t[1]}({v!r})"
    xs = [typecast_src(x, y) for x, y in zip(ty_elems(t), v)]
    return "(" + ", ".join(xs) + ("," if len(xs) == 1 else "") + ")"


def specialised_src(p, kv, typed=False, casts=False):
    """the source specialised textually (independent of bind): parameters removed from the
    signature, `k = repr(v)` prepended in keyword order.  typed (the repaired bind): a value of the
    declared type T is written `k: T = repr(v)`; casts: with typecasts at the leaves instead"""
    args = [a for a in p["args"] if not a["param"]]
    tys = {a["name"]: a["ty"] for a in p["args"] if a["param"]}
    pre = []
    for k, v in kv:
        if typed and k in tys and is_value_of(tys[k], v):
            pre.append(f"{k} = {typecast_src(tys[k], v)}" if casts else f"{k}: {ty_src(tys[k])} = {v!r}")
        else:
            pre.append(f"{k} = {v!r}")
    return render(p["name"], args, p["rty"], pre + body_lines(p))


def model_ann(a):
    if a.get("ann_model") is not None:
        return a["ann_model"]
    if a["param"]:
        return ["sub", ["name", "Parameter"], ty_model(a["ty"])]
    if a["ty"] == "bool":
        return ["bare", ["name", "bool"]]
    head = {"qint": "Qint", "tuple": "Tuple", "qlist": "Qlist", "list": "List"}[a["ty"][0]]
    return ["sub", ["name", head], ["other", ty_src(a["ty"])]]


def prog_model(p):
    d = {"name": p["name"], "args": [{"name": a["name"], "ann": model_ann(a)} for a in p["args"]]}
    if "body" in p:
        d["body"] = [[t, e] for t, e in p["body"]]
        d["ret"] = p["ret"]
    return d


def in_width_model(p):
    if "body" not in p:
        return False
    ops = set()
    for _, e in p["body"]:
        exp_ops(e, ops)
    exp_ops(p["ret"], ops)
    if not ops <= (W_OPS | {"not", "inv", "ite", "idx"}):
        return False
    return all(a["ty"] == "bool" or a["ty"][0] in ("qint", "tuple", "qlist", "qmatrix") for a in p["args"]) and \
        (p["rty"] == "bool" or p["rty"][0] == "qint")


# --------------------------------------------------------------------------- generators

PNAMES = ["c", "d", "e"]
ANAMES = ["a", "b"]


def P(name, ty):
    return {"name": name, "ty": ty, "param": True}


def A(name, ty):
    return {"name": name, "ty": ty, "param": False}


def V(n):
    return ["var", n]


def CI(k):
    return ["const", ["i", k]]


def B(op, l, r):
    return ["bin", op, l, r]


def systematic_programs():
    out = []
    k = 0

    def add(args, rty, body, ret):
        nonlocal k
        out.append({"name": f"ps_{k}", "args": args, "rty": rty, "body": body, "ret": ret})
        k += 1

    def raw(args, rty, lines):
        nonlocal k
        out.append({"name": f"ps_{k}", "args": args, "rty": rty, "lines": lines})
        k += 1

    Q2, Q3, Q4 = ["qint", 2], ["qint", 3], ["qint", 4]
    # the suite's own shapes
    add([P("c", "bool"), A("a", "bool")], "bool", [], B("and", V("a"), V("c")))
    add([P("c", Q2), A("a", "bool")], Q2, [], ["ite", V("a"), B("add", V("c"), CI(1)), V("c")])
    add([P("c", Q2), P("d", Q2), A("a", "bool")], Q2, [],
        ["ite", V("a"), B("add", V("c"), V("d")), B("add", V("c"), CI(1))])
    add([P("c", ["qlist", "bool", 2])], "bool", [], B("and", ["idx", V("c"), 0], ["idx", V("c"), 1]))
    add([P("c", ["tuple", ["bool", Q2]])], Q2, [],
        ["ite", ["idx", V("c"), 0], ["idx", V("c"), 1], B("add", ["idx", V("c"), 1], CI(1))])
    # every operator: parameter (op) argument and argument (op) parameter, declared widths 2..4 x argument widths
    for op in ["add", "sub", "band", "bor", "bxor"]:
        for wp in (2, 3, 4):
            for wa in (2, 4):
                w = max(wp, wa)
                add([P("c", ["qint", wp]), A("a", ["qint", wa])], ["qint", w], [], B(op, V("c"), V("a")))
                add([A("a", ["qint", wa]), P("c", ["qint", wp])], ["qint", w], [], B(op, V("a"), V("c")))
    for op in ["eq", "ne", "lt", "le", "gt", "ge"]:
        for wp in (2, 4):
            for wa in (2, 3):
                add([P("c", ["qint", wp]), A("a", ["qint", wa])], "bool", [], B(op, V("c"), V("a")))
                add([P("c", ["qint", wp]), A("a", ["qint", wa])], "bool", [], B(op, V("a"), V("c")))
    for op in ["shl", "shr"]:
        for sh in (1, 2):
            add([P("c", Q4), A("a", Q4)], Q4, [], B("bxor", B(op, V("c"), CI(sh)), V("a")))
            add([P("c", Q3), A("a", Q2)], Q4, [], B("add", B(op, V("c"), CI(sh)), V("a")))
    add([P("c", Q4), A("a", Q4)], Q4, [], B("add", B("shl", V("c"), CI(2)), V("a")))  # the finding's witness
    add([P("c", Q3), A("a", Q3)], Q3, [], B("bxor", ["un", "inv", V("c")], V("a")))
    add([P("c", Q4), A("a", Q2)], Q4, [], B("band", ["un", "inv", V("c")], V("a")))
    for op in ["and", "or", "bxor", "eq", "ne", "band", "bor"]:
        add([P("c", "bool"), A("a", "bool"), A("b", "bool")], "bool", [], B(op, B("or", V("a"), V("c")) if op != "or" else V("a"), B("bxor", V("c"), V("b"))))
    add([P("c", "bool"), A("a", "bool")], "bool", [], ["un", "not", B("and", V("c"), V("a"))])
    add([P("c", "bool"), A("a", Q2), A("b", Q2)], Q2, [], ["ite", V("c"), V("a"), V("b")])
    add([P("c", Q2), P("d", "bool"), A("a", Q2)], Q2, [], ["ite", V("d"), V("c"), V("a")])
    # several parameters between / around the ordinary arguments
    add([A("a", Q2), P("c", Q2), A("b", "bool"), P("d", "bool")], Q3, [],
        ["ite", B("bxor", V("b"), V("d")), B("add", V("a"), V("c")), V("c")])
    add([P("c", "bool"), P("d", "bool"), P("e", "bool"), A("a", "bool")], "bool", [],
        B("bxor", B("and", V("c"), V("a")), B("or", V("d"), B("and", V("e"), V("a")))))
    add([P("c", Q2), A("a", Q2), P("d", Q2), A("b", Q2), P("e", Q2)], Q4, [],
        B("add", B("add", B("bxor", V("c"), V("a")), B("band", V("d"), V("b"))), V("e")))
    # only parameters: a constant function
    add([P("c", Q2), P("d", Q2)], Q3, [], B("add", V("c"), V("d")))
    add([P("c", "bool")], "bool", [], ["un", "not", V("c")])
    # locals, re-assignment of a parameter, a local shadowing nothing
    add([P("c", Q2), A("a", Q2)], Q3, [["t0", B("add", V("c"), V("a"))]], B("bxor", V("t0"), V("c")))
    add([P("c", Q3), A("a", Q3)], Q3, [["c", B("bxor", V("c"), V("a"))]], B("add", V("c"), V("a")))
    add([P("c", "bool"), A("a", "bool")], "bool", [["c", ["un", "not", V("c")]]], B("and", V("a"), V("c")))
    add([P("c", Q2), P("d", Q2), A("a", Q2)], Q2, [["d", V("c")], ["c", V("a")]], B("bxor", V("c"), V("d")))
    # tuples / lists of constants
    T3 = ["tuple", ["bool", Q2, Q3]]
    add([P("c", T3), A("a", Q3)], Q3, [], ["ite", ["idx", V("c"), 0], B("add", ["idx", V("c"), 1], V("a")), B("bxor", ["idx", V("c"), 2], V("a"))])
    add([P("c", ["qlist", Q2, 3]), A("a", Q2)], Q3, [], B("add", B("add", ["idx", V("c"), 0], ["idx", V("c"), 2]), B("band", ["idx", V("c"), 1], V("a"))))
    add([P("c", ["qlist", "bool", 3]), A("a", "bool")], "bool", [], B("bxor", B("and", ["idx", V("c"), 0], V("a")), B("or", ["idx", V("c"), 1], ["idx", V("c"), 2])))
    add([P("c", ["tuple", [["tuple", ["bool", "bool"]], Q2]]), A("a", Q2)], Q2, [],
        ["ite", ["idx", ["idx", V("c"), 0], 1], ["idx", V("c"), 1], V("a")])
    # raw python: statements the model's language does not have
    raw([P("c", "bool"), A("a", "bool")], "bool", ["if a:", "\tc = not c", "return c"])
    raw([P("c", Q2), A("a", "bool")], Q2, ["if a:", "\tc = c + 1", "return c"])
    raw([P("c", Q2), A("a", Q2), A("b", "bool")], Q3, ["r = a", "if b:", "\tr = a + c", "else:", "\tr = c", "return r"])
    raw([P("c", ["qlist", "bool", 3]), A("a", "bool")], "bool", ["r = a", "for x in c:", "\tr = r ^ x", "return r"])
    raw([P("c", ["qlist", Q2, 3]), A("a", Q2)], Q4, ["r = a", "for x in c:", "\tr = r + x", "return r"])
    raw([P("c", ["list", ["tuple", ["bool", "bool", "bool"]], 2]), A("a", "bool")], "bool",
        ["v = True", "for io in c:", "\tv = v and ((io[0] or io[1]) == io[2]) ^ a", "return v"])
    raw([P("c", ["qlist", Q2, 4]), A("a", Q2)], Q2, ["return c[a]"])
    raw([P("c", ["qlist", "bool", 4]), A("a", Q2)], "bool", ["return c[a]"])
    raw([P("c", Q2), A("a", Q2)], Q4, ["r = a", "for i in range(c):", "\tr = r + 1", "return r"])  # loop bound
    raw([P("c", Q2), A("a", Q4)], Q4, ["r = a", "for i in range(3):", "\tr += c", "return r"])
    raw([P("c", ["qlist", "bool", 2]), P("d", Q2), A("a", "bool")], Q2, ["return d if (c[0] and a) or c[1] else d + 1"])
    raw([P("c", Q2), A("a", Q2)], Q2, ["return max(c, a)"])
    raw([P("c", Q2), A("a", Q2)], Q2, ["return min(a, c)"])
    raw([P("c", ["tuple", [Q2, Q2]]), A("a", Q2)], Q3, ["return sum(c) + a"])
    raw([P("c", ["qlist", "bool", 3]), A("a", "bool")], "bool", ["return all(c) ^ a"])
    raw([P("c", ["qlist", "bool", 3]), A("a", "bool")], "bool", ["return any(c) and a"])
    raw([P("c", Q2), A("a", Q2)], Q4, ["return c * a"])
    raw([P("c", Q3), A("a", Q3)], Q3, ["return (a + c) % 4"])
    raw([P("c", ["qlist", Q2, 3]), A("a", Q2)], "bool", ["return len(c) == a"])
    raw([P("c", "bool"), A("a", Q2)], Q2, ["d, e = a, c", "return d + 1 if e else d"])
    # a bare `Parameter` annotation: bind removes it, from_function does not register it
    out.append({"name": f"ps_{k}", "rty": "bool", "lines": ["return a and c"],
                "args": [P("c", "bool"),
                         {"name": "d", "ty": "bool", "param": False, "ann": "Parameter", "ann_model": ["bare", ["name", "Parameter"]], "removed": True},
                         A("a", "bool")]})
    k += 1
    out.append({"name": f"ps_{k}", "rty": "bool", "lines": ["return a and c and d"],
                "args": [P("c", "bool"),
                         {"name": "d", "ty": "bool", "param": False, "ann": "Parameter", "ann_model": ["bare", ["name", "Parameter"]], "removed": True},
                         A("a", "bool")]})
    k += 1
    return out


SCALARS = ["bool", ["qint", 2], ["qint", 3], ["qint", 4]]


def gen_ty_param(rng):
    r = rng.random()
    if r < 0.25:
        return "bool"
    if r < 0.65:
        return ["qint", rng.choice([2, 3, 4, 5])]
    if r < 0.85:
        return ["tuple", [rng.choice(SCALARS[:3]) for _ in range(rng.randint(2, 3))]]
    return ["qlist", rng.choice(SCALARS[:3]), rng.randint(2, 3)]


def leaves(args, locs):
    """typed atoms: (exp, ty) for scalars reachable from variables"""
    out = []

    def go(e, t, depth):
        if t == "bool" or t[0] == "qint":
            out.append((e, t))
        elif depth < 2:
            for i, x in enumerate(ty_elems(t)):
                go(["idx", e, i], x, depth + 1)

    for n, t in list(args) + list(locs):
        go(["var", n], t, 0)
    return out


def gen_int(rng, lv, depth, need_var=True):
    ints = [(e, t) for e, t in lv if t != "bool"]
    if not ints:
        # no integer variable in scope: a bare literal (operators on two literals are folded by the library's
        # ConstantFolder with python semantics before typing, which the width model does not describe)
        return CI(rng.choice([0, 1, 2, 3, 4, 5, 7]))
    if depth <= 0 or rng.random() < 0.25:
        if ints and (need_var or rng.random() < 0.75):
            return rng.choice(ints)[0]
        return CI(rng.choice([0, 1, 2, 3, 4, 5, 7, 8, 12, 15]))
    r = rng.random()
    if r < 0.5:
        op = rng.choice(["add", "add", "sub", "band", "bor", "bxor"])
        l = gen_int(rng, lv, depth - 1, True)
        rr = gen_int(rng, lv, depth - 1, False)
        return B(op, l, rr) if rng.random() < 0.6 else B(op, rr, l)
    if r < 0.7:
        return B(rng.choice(["shl", "shr"]), gen_int(rng, lv, depth - 1, True), CI(rng.randint(0, 3)))
    if r < 0.78:
        return ["un", "inv", gen_int(rng, lv, depth - 1, True)]
    return ["ite", gen_bool(rng, lv, depth - 1), gen_int(rng, lv, depth - 1, True), gen_int(rng, lv, depth - 1, True)]


def gen_bool(rng, lv, depth):
    bools = [(e, t) for e, t in lv if t == "bool"]
    ints = [(e, t) for e, t in lv if t != "bool"]
    if (depth <= 0 or rng.random() < 0.2) and bools:
        e = rng.choice(bools)[0]
        return e if rng.random() < 0.8 else ["un", "not", e]
    r = rng.random()
    if r < 0.4 and ints:
        op = rng.choice(["eq", "ne", "lt", "le", "gt", "ge", "eq", "ne"])
        l = gen_int(rng, lv, depth - 1, True)
        rr = gen_int(rng, lv, depth - 1, False)
        return B(op, l, rr) if rng.random() < 0.5 else B(op, rr, l)
    if not bools:
        l = gen_int(rng, lv, 0, True)
        return B(rng.choice(["eq", "ne"]), l, CI(rng.randint(0, 3)))
    if r < 0.85:
        return B(rng.choice(["and", "or", "bxor", "eq", "ne"]), gen_bool(rng, lv, depth - 1), gen_bool(rng, lv, depth - 1))
    if r < 0.92:
        return ["un", "not", gen_bool(rng, lv, depth - 1)]
    return ["ite", gen_bool(rng, lv, depth - 1), gen_bool(rng, lv, depth - 1), gen_bool(rng, lv, depth - 1)]


def random_program(rng, idx, max_in_bits=7):
    npar = rng.choice([1, 1, 2, 2, 3])
    nargs = rng.choice([1, 1, 2])
    slots = ["p"] * npar + ["a"] * nargs
    rng.shuffle(slots)
    args, pi, ai, bits = [], 0, 0, 0
    for s in slots:
        if s == "p":
            args.append(P(PNAMES[pi], gen_ty_param(rng)))
            pi += 1
        else:
            t = rng.choice(SCALARS)
            if bits + ty_bits(t) > max_in_bits:
                t = "bool"
            bits += ty_bits(t)
            args.append(A(ANAMES[ai], t))
            ai += 1
    env = [(a["name"], a["ty"]) for a in args]
    locs, body = [], []
    for i in range(rng.choice([0, 0, 1, 2])):
        lv = leaves(env, locs)
        if rng.random() < 0.25:
            # re-assign a scalar parameter / argument
            cands = [(n, t) for n, t in env if t == "bool" or t[0] == "qint"]
            if cands:
                n, t = rng.choice(cands)
                e = gen_bool(rng, lv, 2) if t == "bool" else gen_int(rng, lv, 2)
                body.append([n, e])
                if t != "bool":
                    env = [(m, (["qint", 4] if m == n else tt)) for m, tt in env]
                continue
        if rng.random() < 0.5:
            body.append([f"t{i}", gen_bool(rng, lv, 2)])
            locs.append((f"t{i}", "bool"))
        else:
            body.append([f"t{i}", gen_int(rng, lv, 2)])
            locs.append((f"t{i}", ["qint", 4]))
    lv = leaves(env, locs)
    if rng.random() < 0.4:
        rty, ret = "bool", gen_bool(rng, lv, rng.randint(1, 3))
    else:
        rty, ret = ["qint", rng.choice([2, 3, 4, 5, 6])], gen_int(rng, lv, rng.randint(1, 3))
    return {"name": f"pr_{idx}", "args": args, "rty": rty, "body": body, "ret": ret}


# --------------------------------------------------------------------------- container shapes (`is_value_of`)
# Every container shape of Parameter[...] with entries NARROWER than the declared element type in width-sensitive
# bodies, and wrongly shaped values.  Whether a keyword value "is a value of the declared type" decides between the
# typed assignment `k: T = v` and the bare literal; the harness' own reading is `is_value_of` above.


def all_leaves(e, t):
    """(expression, scalar type) of every scalar reachable from e : t, in bit order"""
    if t == "bool" or t[0] == "qint":
        return [(e, t)]
    out = []
    for i, x in enumerate(ty_elems(t)):
        out.extend(all_leaves(["idx", e, i], x))
    return out


def build_value(t, f, ctr=None):
    """a python value of shape t, leaf number i of scalar type lt set to f(i, lt); Tuple -> tuple, Qlist/Qmatrix -> lists"""
    ctr = ctr if ctr is not None else [0]
    if t == "bool" or t[0] == "qint":
        i = ctr[0]
        ctr[0] += 1
        return f(i, t)
    xs = [build_value(x, f, ctr) for x in ty_elems(t)]
    return tuple(xs) if t[0] == "tuple" else xs


def n_leaves(t):
    return len(all_leaves(V("c"), t))


def leaf_narrow(base):
    return lambda i, lt: ((i + base) % 2 == 0) if lt == "bool" else (base + i) % 4


def leaf_full(i, lt):
    return (i % 2 == 1) if lt == "bool" else 2 ** lt[1] - 1 - (i % 2)


def leaf_mixed(i, lt):
    return leaf_narrow(1)(i, lt) if i % 2 == 0 else leaf_full(i, lt)


def value_patterns(t):
    """right-shaped values: narrow entries (two bases), all 1, all 0, entries that need the declared width, mixed"""
    return [("narrow1", build_value(t, leaf_narrow(1))), ("zeros", build_value(t, lambda i, lt: False if lt == "bool" else 0)),
            ("mixed", build_value(t, leaf_mixed)), ("full", build_value(t, leaf_full)),
            ("ones", build_value(t, lambda i, lt: True if lt == "bool" else 1)), ("narrow2", build_value(t, leaf_narrow(2)))]


def _first_atom(v):
    while isinstance(v, (list, tuple)) and len(v) > 0:
        v = v[0]
    return v


def wrong_shapes(t, v):
    """values derived from the right-shaped v that (mostly) are NOT of shape t: (label, value).  Whether each one is a
    value of t is decided by the harness' own `is_value_of` (a transposed square matrix still is one)."""
    if t == "bool" or t[0] == "qint":
        return []
    v = list(v)
    wrap = tuple if t[0] == "tuple" else list
    out = []
    if t[0] == "qmatrix":
        out.append(("transposed", [list(r) for r in zip(*v)]))
        out.append(("ragged_short", v[:-1] + [list(v[-1])[:-1]]))
        out.append(("ragged_long", [list(v[0]) + [v[0][-1]]] + v[1:]))
        out.append(("row_atom", v[:-1] + [v[-1][0]]))
        out.append(("first_row_short", [list(v[0])[:-1]] + v[1:]))
        out.append(("flat", [x for r in v for x in r]))
    out.append(("too_long", wrap(v + [v[-1]])))
    out.append(("too_short", wrap(v[:-1])))
    out.append(("wrapped", [wrap(v)]))
    out.append(("atom", _first_atom(v)))
    if t[0] == "tuple" and len(v) > 1:
        out.append(("reversed", tuple(reversed(v))))
        out.append(("rotated", tuple(v[1:] + v[:1])))
    el = ty_elems(t)
    for i in sorted({len(el) - 1, 0}, reverse=True):
        if el[i] != "bool" and el[i][0] != "qint":
            for lab, w in wrong_shapes(el[i], v[i])[:5]:
                out.append((f"inner{i}_{lab}", wrap(v[:i] + [w] + v[i + 1:])))
    return out


def entry_variants(t, base):
    """right shape, one entry that is no value of its declared scalar type: (label, value)"""
    lv = all_leaves(V("c"), t)
    ints = [i for i, (_, lt) in enumerate(lv) if lt != "bool"]
    bools = [i for i, (_, lt) in enumerate(lv) if lt == "bool"]
    out = []

    def repl(j, x):
        return build_value(t, lambda i, lt: x if i == j else base(i, lt))

    if ints:
        j = ints[-1]
        out.append(("ood", repl(j, 2 ** lv[j][1][1])))
        out.append(("bool_for_int", repl(j, True)))
        out.append(("neg_entry", repl(j, -1)))
        out.append(("ood_first", repl(ints[0], 2 ** lv[ints[0]][1][1] + 1)))
    if bools:
        out.append(("int_for_bool", repl(bools[0], 1)))
    out.append(("str_entry", repl(len(lv) - 1, "x")))
    return out


def _inv(e):
    return ["un", "inv", e]


# width-sensitive bodies over a narrow entry x, another entry y and an argument a (all int valued)
INT_BODIES = [
    lambda x, y, a: B("band", _inv(x), a),                                     # ~x at the declared width
    lambda x, y, a: B("add", B("add", x, y), a),                               # x + y overflows the narrow width
    lambda x, y, a: B("add", B("sub", x, CI(1)), a),                           # x - 1 wraps at the declared width
    lambda x, y, a: B("add", B("shl", x, CI(2)), a),                           # x << 2 is cut at the declared width
    lambda x, y, a: B("shr", _inv(x), CI(1)),
    lambda x, y, a: ["ite", B("gt", _inv(y), a), x, B("band", _inv(x), a)],    # comparison with a wider operand
    lambda x, y, a: B("bxor", B("shl", _inv(y), CI(1)), x),
    lambda x, y, a: ["ite", B("le", B("sub", x, CI(1)), a), B("add", y, a), _inv(y)],
]


def shape_program(name, t, k, values):
    """one parameter c of container type t; arguments s: bool, a: Qint[<=4]; returns one of two width-sensitive
    bodies (chosen by k) over the last / first integer entry of c"""
    lv = all_leaves(V("c"), t)
    ints = [(e, lt) for e, lt in lv if lt != "bool"]
    bools = [(e, lt) for e, lt in lv if lt == "bool"]
    args = [P("c", t), A("s", "bool")]
    if ints:
        W = max(lt[1] for _, lt in ints)
        x, y = ints[-1][0], ints[0][0]
        args.append(A("a", ["qint", min(W, 4)]))
        cond = B("bxor", V("s"), bools[-1][0]) if bools else V("s")
        nb = len(INT_BODIES)
        b1 = INT_BODIES[k % nb](x, y, V("a"))
        b2 = INT_BODIES[(k + 1 + (k // nb) % (nb - 1)) % nb](x, y, V("a"))
        rty, ret = ["qint", W], ["ite", cond, b1, b2]
    else:
        args.append(A("a", "bool"))
        rty, ret = "bool", B("bxor", bools[-1][0], B("and", bools[0][0], B("or", V("s"), V("a"))))
    return {"name": name, "args": args, "rty": rty, "body": [], "ret": ret, "shape": True, "must_bind": True,
            "values": [{"c": v} for v in values]}


def scalar_program(name, w, values):
    """Parameter[Qint[w]] for a shipped width w, bound to values narrower than w"""
    c, a = V("c"), V("a")
    if w % 2 == 0:
        ret = ["ite", V("s"), B("add", B("shl", c, CI(max(w - 2, 1))), a), B("shr", _inv(c), CI(1))]
    else:
        ret = ["ite", V("s"), B("add", B("sub", c, CI(1)), a), B("band", _inv(c), B("shl", a, CI(w - 2)))]
    return {"name": name, "args": [P("c", ["qint", w]), A("s", "bool"), A("a", ["qint", 2])], "rty": ["qint", w],
            "body": [], "ret": ret, "shape": True, "must_bind": True, "values": [{"c": v} for v in values]}


def shape_types():
    """the systematic container shapes: (type, body index)"""
    Q2, Q3, Q4, Q8 = ["qint", 2], ["qint", 3], ["qint", 4], ["qint", 8]
    out = []
    for n in (1, 2, 3):          # every Qmatrix n x m, 1 <= n, m <= 3 (1 x k, k x 1, square and non-square)
        for m in (1, 2, 3):
            out.append(["qmatrix", Q4, n, m])
    out += [["qmatrix", Q2, 2, 3], ["qmatrix", "bool", 3, 2], ["qmatrix", "bool", 1, 2], ["qmatrix", Q3, 2, 1],
            ["qmatrix", Q8, 1, 2], ["qmatrix", Q3, 3, 2]]
    for n in (1, 2, 3, 4):       # Qlist of every length 1..4
        out.append(["qlist", Q4, n])
    out += [["qlist", "bool", 1], ["qlist", "bool", 4], ["qlist", Q3, 2], ["qlist", Q8, 3]]
    # Tuple of mixed element types
    out += [["tuple", ["bool", Q4]], ["tuple", [Q2, Q4, Q8]], ["tuple", [Q4, "bool", Q3]], ["tuple", [Q4]],
            ["tuple", [Q4, Q4, Q4, "bool"]]]
    # nested containers
    out += [["qlist", ["tuple", ["bool", Q4]], 2], ["tuple", [["qlist", Q4, 2], "bool"]],
            ["tuple", [["qlist", Q4, 3], Q4]], ["qlist", ["qlist", Q4, 3], 2],
            ["tuple", [["tuple", [Q4, Q4, Q4]], ["tuple", [Q4, Q4, Q4]]]], ["tuple", [["qmatrix", Q4, 2, 1], Q4]],
            ["qlist", ["qmatrix", Q4, 1, 2], 2], ["tuple", [["qmatrix", Q4, 1, 3], ["qmatrix", "bool", 2, 1]]],
            ["tuple", [["qmatrix", Q4, 2, 3]]], ["tuple", [["qlist", Q4, 2]]], ["qlist", ["qlist", "bool", 3], 2]]
    return [(t, k) for k, t in enumerate(out)]


def shape_bind_values(t, k, n_right=6, n_wrong=3):
    """the keyword values a shape program is bound to: right-shaped patterns, one entry out of the declared range,
    then wrongly shaped ones (a transposed value always for a non-square matrix, the others rotating with k)"""
    pats = value_patterns(t)
    vals = [v for _, v in pats[:n_right]]
    ev = entry_variants(t, leaf_narrow(1))
    vals.append(dict(ev)["ood"] if "ood" in dict(ev) else ev[0][1])
    ws = wrong_shapes(t, pats[0][1])
    pick = []
    if t[0] == "qmatrix" and t[2] != t[3]:
        pick.append(0)
    want = min(n_wrong, len(ws))
    j = k
    for _ in range(4 * len(ws)):          # k, k + step, k + 2 step, ... (mod the number of variants)
        if len(pick) >= want:
            break
        if j % len(ws) not in pick:
            pick.append(j % len(ws))
        j += 3 if len(ws) % 3 else 2
    for i in range(len(ws)):              # (the stride may not reach every variant)
        if len(pick) < want and i not in pick:
            pick.append(i)
    vals.extend(ws[i][1] for i in pick)
    return vals


def scalar_values(w):
    vs = [1, 0, 3, 2 ** w - 1, 9 if w > 4 else 2, 2 ** (w - 1), 2]
    if w > 8:
        vs.append(200)
    vs.append(2 ** w)  # not a value of Qint[w]
    return vs


def shape_programs(thorough=False):
    """quick: 4 right-shaped values (narrow entries, zeros, mixed, full width) + 1 out-of-range entry + 4 wrongly
    shaped values per container shape; thorough: 6 + 1 + every wrongly shaped variant"""
    out = []
    for t, k in shape_types():
        vals = shape_bind_values(t, k, 6, 99) if thorough else shape_bind_values(t, k, 4, 4)
        out.append(shape_program(f"psh_{k}", t, k, vals))
    for j, w in enumerate(QINT_WIDTHS):   # scalars of every shipped width
        out.append(scalar_program(f"psc_{w}", w, scalar_values(w) if thorough else scalar_values(w)[:5] + [2 ** w]))
    return out


def random_shape_type(rng, depth=0):
    def elem():
        return rng.choice(["bool", ["qint", 2], ["qint", 3], ["qint", 4], ["qint", 4], ["qint", 5], ["qint", 6], ["qint", 8]])

    def inner():
        return random_shape_type(rng, depth + 1) if depth < 1 and rng.random() < 0.4 else elem()

    r = rng.random()
    if r < 0.45:
        n, m = rng.randint(1, 3), rng.randint(1, 3)
        if n == m and rng.random() < 0.7:
            m = (m % 3) + 1
        return ["qmatrix", elem(), n, m]
    if r < 0.7:
        return ["qlist", inner(), rng.randint(1, 4)]
    return ["tuple", [inner() for _ in range(rng.randint(1, 3))]]


def random_shape_program(rng, idx):
    while True:
        t = random_shape_type(rng)
        if n_leaves(t) <= 12:
            break
    k = rng.randrange(1000)

    def rnd_leaf(i, lt):
        if lt == "bool":
            return rng.random() < 0.5
        return rng.randrange(4) if rng.random() < 0.6 else rng.randrange(2 ** lt[1])

    vals = [build_value(t, rnd_leaf) for _ in range(4)]
    ev = entry_variants(t, rnd_leaf)
    vals.append(rng.choice(ev)[1])
    ws = wrong_shapes(t, vals[0])
    for lab, w in rng.sample(ws, min(3, len(ws))):
        vals.append(w)
    return shape_program(f"prs_{idx}", t, k, vals)


def has_q(t):
    if t == "bool" or t[0] == "qint":
        return False
    return t[0] in ("qlist", "qmatrix") or any(has_q(x) for x in (t[1] if t[0] == "tuple" else [t[1]]))


def nested_container_unread(t):
    """the trigger of finding C08-nested-container-annotation, read off the declared type: some Qlist / Qmatrix, or some
    one-element Tuple[T], whose element annotation contains a Qlist / Qmatrix"""
    if t == "bool" or t[0] == "qint":
        return False
    if t[0] in ("qlist", "qmatrix"):
        return has_q(t[1]) or nested_container_unread(t[1])
    if t[0] == "tuple" and len(t[1]) == 1:
        return has_q(t[1][0])
    return any(nested_container_unread(x) for x in (t[1] if t[0] == "tuple" else [t[1]]))


# how the translator fails on an annotation it cannot read: translate_argument's last branch, or its `to_name` on a
# subscript whose arguments are bare names (`Qlist[bool, 3]`)
UNREAD_ERRORS = ("UnknownTypeException", "AttributeError: 'Name' object has no attribute 'value'")


def ann_json(node):
    """an annotation as the model's AnnE: what `is_value_of` looks at"""
    if isinstance(node, ast.Name):
        return ["name", node.id]
    if isinstance(node, ast.Subscript) and isinstance(node.value, ast.Name):
        sl = node.slice
        elts = sl.elts if isinstance(sl, ast.Tuple) else [sl]
        return ["sub", node.value.id, [ann_json(e) for e in elts]]
    if isinstance(node, ast.Constant) and type(node.value) is int:
        return ["int", node.value]
    return ["other"]


def _is_int_in(lo, hi):
    return lambda v: type(v) is int and lo <= v < hi


def _never(v):
    return False


# annotations outside the harness' type grammar, with the property's reading of "a value of it" (the repaired bind keeps
# the declared type for bool, the builtin Qint / Qfixed / Qchar classes and Tuple / Qlist / Qmatrix of them; any other
# annotation - sloppy ones the suite and the docs use included - has no values: bound as a bare literal, as before)
EXTRA_ANNS = [
    ("Qint4", _is_int_in(0, 16)), ("Qint16", _is_int_in(0, 65536)), ("Qint2", _is_int_in(0, 4)),
    ("Qint[9]", _never), ("Qint[0]", _never), ("Qint[2, 3]", _never), ("Qint", _never), ("Qint9", _never),
    ("Qlist[2, bool]", _never), ("Qlist[bool]", _never), ("Qlist[bool, 0]", _never), ("Qlist[bool, 2, 2]", _never),
    ("Qlist", _never), ("Qmatrix[Qint[4], 2]", _never), ("Qmatrix[Qint[4], 0, 2]", _never), ("Qmatrix[Qint[4], 2, 0]", _never),
    ("Qmatrix[2, 2, Qint[4]]", _never), ("Qmatrix", _never), ("Tuple", _never), ("List[bool]", _never),
    ("List[Tuple[bool, bool]]", _never), ("typing.Tuple[bool, bool]", _never), ("int", _never), ("bool[2]", _never),
    ("Qchar", lambda v: isinstance(v, str) and len(v) == 1),
    ("Qfixed[2, 3]", lambda v: type(v) in (int, float) and 0 <= v < 4), ("Qfixed2_3", lambda v: type(v) in (int, float) and 0 <= v < 4),
    ("Qfixed[1, 2]", lambda v: type(v) in (int, float) and 0 <= v < 2), ("Qfixed[9, 9]", _never), ("Qfixed", _never),
    ("Tuple[Qint4, Qchar]", lambda v: isinstance(v, (list, tuple)) and len(v) == 2 and type(v[0]) is int and 0 <= v[0] < 16
     and isinstance(v[1], str) and len(v[1]) == 1),
]
EXTRA_VALUES = [True, False, 0, 1, 3, 4, 15, 16, 65535, 65536, -1, "x", "xy", "", [1, 2], (1, "x"), [[1, 2], [3, 4]],
                (True, False), [True, True], 1.5, 4.0, 0.5, [], [0, 1, 2], (16, "x")]


def has_float(v):
    if isinstance(v, float):
        return True
    return isinstance(v, (list, tuple)) and any(has_float(x) for x in v)


def is_value_cases(types, rng=None):
    """(annotation source, value, expected, label) for the direct probe of `is_value_of`"""
    out = []
    for t in types:
        src = ty_src(t)
        bases = [("narrow1", leaf_narrow(1)), ("full", leaf_full)]
        if rng is not None:
            bases.append(("rnd", lambda i, lt: (rng.random() < 0.5) if lt == "bool" else rng.randrange(2 ** lt[1])))
        for bl, base in bases:
            v = build_value(t, base)
            out.append((src, v, is_value_of(t, v), f"{bl}:right"))
            if not (t == "bool" or t[0] == "qint"):
                out.append((src, tuple(v) if isinstance(v, list) else list(v), is_value_of(t, v), f"{bl}:right_other_sequence"))
            for lab, w in wrong_shapes(t, v):
                out.append((src, w, is_value_of(t, w), f"{bl}:{lab}"))
            for lab, w in entry_variants(t, base):
                out.append((src, w, is_value_of(t, w), f"{bl}:{lab}"))
    return out


# --------------------------------------------------------------------------- running the real code


def lib():
    import qlasskit
    from qlasskit import qlassfun

    return qlasskit, qlassfun


def oracle_fn(src, name):
    code = compile(src, "<c08-oracle>", "exec", flags=__future__.annotations.compiler_flag)
    env = {}
    exec(code, env)
    return env[name]


def eval_expressions(qf, assignment):
    """values of the symbols qf.expressions defines, under the input assignment (own evaluator)"""
    known = dict(assignment)
    for sym, exp in qf.expressions:
        known[sym.name] = bexp.eval_json(bexp.to_json(exp), known)
    return known


def exprs_json(qf):
    return [(sym.name, bexp.to_json(e)) for sym, e in qf.expressions]


def table_of(qf, free_args, rty):
    """decoded value of the bound function on every input of the remaining arguments
    (rows enumerated little-endian over the flat input bits), plus the raw return bits"""
    names = []
    for a in free_args:
        names.extend(names_of(a["name"], a["ty"]))
    code_names = []
    for a in qf.args:
        code_names.extend(a.bitvec)
    if code_names != names:
        return None, f"argument bits {code_names} != {names}"
    rnames = names_of("_ret", rty)
    if list(qf.returns.bitvec) != rnames:
        return None, f"return bits {list(qf.returns.bitvec)} != {rnames}"
    ej = exprs_json(qf)
    rows = []
    for k in range(2 ** len(names)):
        known = {n: bool((k >> i) & 1) for i, n in enumerate(names)}
        for s, e in ej:
            known[s] = bexp.eval_json(e, known)
        if any(r not in known for r in rnames):
            return None, "a return bit is not defined by the expressions"
        bits = [known[r] for r in rnames]
        rows.append((decode(rty, bits), "".join("1" if b else "0" for b in bits)))
    return rows, None


def row_inputs(free_args, k):
    vals, off = {}, 0
    for a in free_args:
        n = ty_bits(a["ty"])
        vals[a["name"]] = ty_value(a["ty"], (k >> off) % (2 ** n))
        off += n
    return vals


def ast_value_json(node):
    """the injected value as the model prints `toVal`: const / tuple trees"""
    if isinstance(node, ast.Constant):
        v = node.value
        if isinstance(v, bool):
            return ["const", ["b", v]]
        if isinstance(v, int):
            return ["const", ["i", v]]
        if isinstance(v, str):
            return ["const", ["s", v]]
        return ["const", ["?", repr(v)]]
    if isinstance(node, ast.Tuple):
        return ["tuple", [ast_value_json(x) for x in node.elts]]
    return ["?", ast.dump(node)]


def header_of(bound_ast, n_inj):
    """what bind handed to the translator: argument names, injected assignments, rest of the body"""
    fd = bound_ast.body[0]
    inj = []
    for st in fd.body[:n_inj]:
        if isinstance(st, ast.Assign) and len(st.targets) == 1 and isinstance(st.targets[0], ast.Name):
            inj.append([st.targets[0].id, None, ast_value_json(st.value)])
        elif isinstance(st, ast.AnnAssign) and isinstance(st.target, ast.Name):
            inj.append([st.target.id, ast.unparse(st.annotation), ast_value_json(st.value)])
        else:
            inj.append(["?", None, ast.dump(st)])
    return {"args": [a.arg for a in fd.args.args], "injected": inj,
            "rest": [ast.dump(s) for s in fd.body[n_inj:]], "body_len": len(fd.body)}


def ann_text(t):
    """the declared type as `ast.unparse` prints the annotation"""
    return ast.unparse(ast.parse(ty_src(t), mode="eval").body)


def model_ty_src(j):
    if j is None:
        return None
    if j == "bool":
        return "bool"
    if j[0] == "qint":
        return f"Qint[{j[1]}]"
    if j[0] == "tuple":
        return "Tuple[" + ", ".join(model_ty_src(x) for x in j[1]) + "]"
    return j[1]


def front_end_quirks():
    """probe the real front end for C01's narrow-left defects (flags of QV.Base.Quirks)"""
    qlasskit, _ = lib()
    out = []

    def value(src, x, rty):
        qf = qlasskit.qlassf(src, to_compile=False)
        known = {}
        for a in qf.args:
            for i, n in enumerate(a.bitvec):
                known[n] = bool((x[a.name] >> i) & 1)
        known = eval_expressions(qf, known)
        return [known[n] for n in qf.returns.bitvec]

    try:
        if value("def c08_pg(a: Qint[2], b: Qint[4]) -> bool:\n\treturn a > b", {"a": 0, "b": 4}, "bool") != [False]:
            out.append("gtLeftNarrow")
    except Exception:
        pass
    try:
        if value("def c08_ps(a: Qint[2], b: Qint[4]) -> Qint[4]:\n\treturn a - b", {"a": 3, "b": 0}, None) != [True, True, False, False]:
            out.append("subLeftNarrow")
    except Exception:
        pass
    return out


def fingerprint(u):
    return (ast.dump(u.fun_ast), json.dumps({k: ast.dump(v) for k, v in u.parameters.items()}))


class Checker:
    def __init__(self, ctx: Ctx, res: Result):
        self.ctx = ctx
        self.res = res
        self.active = [f.get("quirk") for f in ctx.findings if f.get("_active") and f.get("quirk")]
        self.stats = dict(programs=0, unbound=0, rejected_unbound=0, binds=0, rejected_binds=0, rows=0,
                          rows_python_agree=0, rows_out_of_range=0, rows_python_raises=0,
                          rows_type_drop=0, rows_front_end_c01=0, error_cases=0, width_rows=0,
                          width_programs=0, pysem_rows=0, fresh_checks=0, loop_bound_rejected=0,
                          typed_injections=0, bare_injections=0, out_of_domain_binds=0, typecast_refs=0,
                          shape_programs=0, shape_binds=0, shape_binds_of_declared_type=0, shape_binds_not_of_declared_type=0,
                          shape_must_bind_checked=0, binds_nested_unread=0, is_value_of_cases=0, is_value_of_true=0, is_value_of_model=0)
        self.model_down = False
        self.deferred = []
        self.readable_map = {}
        self.readable = None
        # C01's listed defects of QintImp.gt / QintImp.sub reach C08 through the narrow injected constants: the
        # width-aware model takes them as quirks; whether they are still in the code is probed here
        self.wquirks = list(self.active) + front_end_quirks()
        # the repaired bind keeps the declared type of a keyword value that is a value of that type
        self.typed = QUIRK not in self.active
        from qlasskit.types import QINT_TYPES
        if tuple(sorted(t.BIT_SIZE for t in QINT_TYPES)) != QINT_WIDTHS:
            raise RuntimeError("harness/c08.py: QINT_WIDTHS is out of date with qlasskit.types.QINT_TYPES")

    # ---- helpers
    def model(self, reqs):
        if self.model_down:
            return None
        r = self.ctx.model(reqs)
        if r is None:
            self.model_down = True
        return r

    def case(self, p, kv=None, row=None, **kw):
        d = {"src": prog_src(p), "prog": p["name"]}
        if kv is not None:
            d["bind"] = [[k, v] for k, v in kv]
        if row is not None:
            d["inputs"] = row
        d.update(kw)
        return d

    # ---- one unbound object
    def check_program(self, p, rng, max_values, n_error=True):
        qlasskit, qlassfun = lib()
        res, st = self.res, self.stats
        st["programs"] += 1
        if p.get("shape"):
            st["shape_programs"] += 1
        src = prog_src(p)
        params = [a for a in p["args"] if a["param"]]
        removed = [a for a in p["args"] if a["param"] or a.get("removed")]
        free = [a for a in p["args"] if not (a["param"] or a.get("removed"))]
        pm = prog_model(p)
        # --- from_function
        try:
            u = qlasskit.qlassf(src, to_compile=False)
        except Exception as e:  # noqa
            res.violation(self.case(p), f"a parameterised program is rejected before bind: {type(e).__name__}: {e}")
            return
        is_unbound = isinstance(u, qlassfun.UnboundQlassf)
        if not is_unbound:
            res.violation(self.case(p), "from_function does not return an UnboundQlassf for a function with Parameter[...] arguments")
            return
        st["unbound"] += 1
        code_params = [[k, ast.unparse(v)] for k, v in u.parameters.items()]
        want_params = [[a["name"], ast.unparse(ast.parse(ty_src(a["ty"]), mode="eval").body)] for a in params]
        if code_params != want_params:
            res.violation(self.case(p), "UnboundQlassf.parameters is not the list of Parameter[...] arguments",
                          code=code_params, expected=want_params)
        # (the model's parameter table is compared in run_model: all model requests of several programs go to the driver
        # in one batch, see queue_model; the parameter-table request is the last one of the program's list)
        try:
            u.expressions
            res.violation(self.case(p), "an unbound qlassf exposes expressions")
        except Exception:
            pass
        # can the translator read the declared types (model, active quirks)?  None = no answer
        self.readable = None
        if p.get("shape"):
            key = tuple(ty_src(a["ty"]) for a in params)
            if key not in self.readable_map:
                self.prepare_readable([p])
            self.readable = self.readable_map.get(key)
        fp0 = fingerprint(u)
        body0 = [ast.dump(s) for s in u.fun_ast.body[0].body]
        pyf = oracle_fn(src, p["name"])
        in_bits = sum(ty_bits(a["ty"]) for a in free)
        nrows = 2 ** in_bits
        # --- the binds: values x keyword orders x history
        dom = 1
        for a in params:
            dom *= ty_domain_size(a["ty"])
        if dom <= max_values:
            idxs = list(range(dom))
        else:
            idxs = sorted(set([0, dom - 1] + [rng.randrange(dom) for _ in range(max_values - 2)]))

        def values_of(k):
            out = {}
            for a in params:
                n = ty_domain_size(a["ty"])
                out[a["name"]] = ty_value(a["ty"], k % n)
                k //= n
            return out

        perms = list(itertools.permutations([a["name"] for a in params]))
        plan = []
        explicit = p.get("values")
        if explicit:
            # a shape program: the listed keyword values (right-shaped with narrow / full entries, then wrongly shaped
            # ones), then repeated binds of the first / last / first
            for j, vals in enumerate(explicit):
                plan.append((("v", j), perms[j % len(perms)], dict(vals)))
            for j, jj in enumerate([0, len(explicit) - 1, 0]):
                plan.append((("v", jj), perms[(j + 1) % len(perms)], dict(explicit[jj])))
            idxs = []
        for j, k in enumerate(idxs):
            plan.append((k, perms[j % len(perms)], values_of(k)))
        # keyword values that are NOT values of the declared type (an int that needs more bits than Qint[n] has,
        # inside a tuple too): bound as bare literals by the repaired bind as well; judged by the same oracles
        for j, a in enumerate(params if not explicit else []):
            o = out_of_domain(a["ty"], values_of(idxs[-1])[a["name"]])
            if o is not None:
                vals = values_of(idxs[(j + 1) % len(idxs)])
                vals[a["name"]] = o
                plan.append((("ood", j), perms[j % len(perms)], vals))
                st["out_of_domain_binds"] += 1
        # repeated and alternating binds of values already used, in other keyword orders
        if explicit:
            pass
        elif len(idxs) >= 2:
            a0, a1 = idxs[0], idxs[-1]
            mid = idxs[len(idxs) // 2]
            for j, k in enumerate([a0, a1, a0, mid, a1, a1, a0]):
                plan.append((k, perms[(j + 1) % len(perms)], values_of(k)))
        else:
            plan.append((idxs[0], perms[-1], values_of(idxs[0])))
            plan.append((idxs[0], perms[0], values_of(idxs[0])))
        captured = {}
        orig_translate = u._do_translate

        def spy(fun_ast, original_f):
            # snapshot before the translator rewrites the tree in place
            captured["hd"] = header_of(fun_ast, captured.get("n", 0))
            return orig_translate(fun_ast, original_f)

        u._do_translate = spy
        first_table = {}
        reqs, req_meta = [], []
        try:
            for step, (k, order, vals) in enumerate(plan):
                kv = [(n, vals[n]) for n in order]
                st["binds"] += 1
                captured.clear()
                captured["n"] = len(kv)
                try:
                    qf = u.bind(**dict(kv))
                    err = None
                except Exception as e:  # noqa
                    qf, err = None, f"{type(e).__name__}: {e}"
                # purity, after every bind (successful or not)
                if fingerprint(u) != fp0:
                    res.violation(self.case(p, kv, step=step), "bind altered the unbound object (fun_ast / parameters)")
                    return
                case = self.case(p, kv)
                res.count({"src": src, "bind": sorted(map(list, kv)), "order": list(order)},
                          nontrivial=(len(params) >= 2 or in_bits >= 2), bucket=self.bucket(p))
                if p.get("shape"):
                    ptys0 = {a["name"]: a["ty"] for a in params}
                    st["shape_binds"] += 1
                    st["shape_binds_of_declared_type" if all(is_value_of(ptys0[n], v) for n, v in kv) else "shape_binds_not_of_declared_type"] += 1
                if "hd" in captured:
                    hd = captured["hd"]
                    # the property's own reading of the header, independent of the model
                    ptys = {a["name"]: a["ty"] for a in params}
                    want = {"args": [a["name"] for a in free],
                            "injected": [[n, (ann_text(ptys[n]) if self.typed and is_value_of(ptys[n], v) else None),
                                          expect_value_json(v)] for n, v in kv]}
                    for x in want["injected"]:
                        st["typed_injections" if x[1] is not None else "bare_injections"] += 1
                    if hd["args"] != want["args"]:
                        res.violation(case, "the bound function's arguments are not the non-parameter arguments in order",
                                      code=hd["args"], expected=want["args"])
                    if [(x[0], x[2]) for x in hd["injected"]] != [(x[0], _tupled(x[2])) for x in want["injected"]]:
                        res.violation(case, "the injected constants are not the keyword values in keyword order",
                                      code=hd["injected"], expected=want["injected"])
                    elif self.typed and [x[1] for x in hd["injected"]] != [x[1] for x in want["injected"]]:
                        # (with the listed defect active every injection is bare: that is the defect, attributed per row below)
                        res.violation(case, "the injected constants do not carry the declared Parameter[T] types (a value of T must be "
                                            "injected as `k: T = v`, any other value as a bare literal)",
                                      code=hd["injected"], expected=want["injected"])
                    if hd["rest"] != body0:
                        res.violation(case, "bind changed the body of the function")
                    if step < 3 or step % 5 == 0:
                        reqs.append({"op": "c08.bind", "quirks": self.active, "prog": pm,
                                     "kv": [[n, pyval_json(v)] for n, v in kv]})
                        req_meta.append(("header", case, hd))
                if err is not None:
                    st["rejected_binds"] += 1
                    if first_table.get(k, "none") not in ("none", "rejected"):
                        res.violation(case, f"a bind that succeeded before is now rejected: {err}")
                    first_table[k] = "rejected"
                    self.judge_rejection(p, kv, err, case)
                    continue
                if p.get("shape") and self.typed and self.readable is False and \
                        all(is_value_of(a["ty"], vals[a["name"]]) for a in params):
                    res.disagree(case, "model: the translator cannot read the declared type of the typed assignment "
                                       "(AnnE.readable, active quirks) but the code binds a value of it")
                tab, why = table_of(qf, free, p["rty"])
                if tab is None:
                    res.violation(case, f"bound function has the wrong interface: {why}")
                    continue
                if k in first_table:
                    if first_table[k] != tab:
                        res.violation(case, "binding the same values again (other keyword order / after other binds) gives a different function",
                                      step=step, code=[t[1] for t in tab], expected=[t[1] for t in first_table[k]] if first_table[k] != "rejected" else "rejected")
                    continue
                first_table[k] = tab
                self.judge_table(p, pm, kv, qf, tab, pyf, free, nrows, reqs, req_meta, case)
        finally:
            u._do_translate = orig_translate
        # --- a fresh object gives the same function as the much-bound one
        if plan:
            k, order, vals = plan[-1]
            try:
                u2 = qlasskit.qlassf(src, to_compile=False)
                t2, _ = table_of(u2.bind(**vals), free, p["rty"])
            except Exception:
                t2 = "rejected"
            st["fresh_checks"] += 1
            if first_table.get(k) is not None and t2 != first_table.get(k):
                res.violation(self.case(p, list(vals.items())), "a fresh unbound object binds to a different function than the one bound many times")
        # --- wrong arity / unknown names
        if n_error:
            self.check_errors(p, pm, u, fp0, dict(plan[0][2]) if explicit else values_of(idxs[0]), reqs, req_meta)
        # --- the model's replies
        reqs.append({"op": "c08.bind", "quirks": self.active, "prog": pm, "kv": []})
        req_meta.append(("params", self.case(p), code_params))
        self.queue_model(p, reqs, req_meta)

    def check_head(self, p, h, code_params):
        params = [a for a in p["args"] if a["param"]]
        mp = h.get("parameters", [])
        if h.get("unbound") is not True or [k for k, _ in mp] != [k for k, _ in code_params] or \
                mp != [[a["name"], ty_model(a["ty"])] for a in params]:
            self.res.disagree(self.case(p), "parameter detection: model != code", code=code_params, model=[h.get("unbound"), mp])

    def prepare_readable(self, progs):
        """one driver call: AnnE.readable (active quirks) of the declared parameter types of the shape programs"""
        keys = []
        for p in progs:
            if p.get("shape"):
                key = tuple(ty_src(a["ty"]) for a in p["args"] if a["param"])
                if key not in self.readable_map and key not in keys:
                    keys.append(key)
        if not keys:
            return
        rr = self.model([{"op": "c08.readable", "quirks": self.active,
                          "anns": [ann_json(ast.parse(src, mode="eval").body) for src in key]} for key in keys])
        if rr is None:
            return
        for key, rep in zip(keys, rr):
            if "readable" in rep:
                self.readable_map[key] = all(rep["readable"])

    def queue_model(self, p, reqs, req_meta):
        """the driver is started once per 20 programs (starting it costs more than evaluating a program's rows)"""
        self.deferred.append((p, reqs, req_meta))
        if len(self.deferred) >= 20:
            self.flush()

    def flush(self):
        items, self.deferred = self.deferred, []
        allreqs = [r for _, reqs, _ in items for r in reqs]
        if not allreqs:
            return
        replies = self.model(allreqs)
        if replies is None:
            return
        off = 0
        for p, reqs, req_meta in items:
            self.run_model(p, reqs, req_meta, replies[off:off + len(reqs)])
            off += len(reqs)

    def bucket(self, p):
        params = [a for a in p["args"] if a["param"]]
        kinds = sorted({("bool" if a["ty"] == "bool" else a["ty"][0]) for a in params})
        if p.get("shape"):
            return f"shape:{'+'.join(kinds)}"
        return f"{len(params)}p:{'+'.join(kinds)}:{'raw' if 'lines' in p else 'expr'}"

    # ---- rejection of a bind with the right keywords
    def judge_rejection(self, p, kv, err, case):
        """bind refused values of the declared types: fine when the specialised source is refused by the
        front end too (e.g. a parameter as loop bound), never silently different"""
        qlasskit, _ = lib()
        try:
            qlasskit.qlassf(specialised_src(p, kv, typed=self.typed), to_compile=False)
            ok = True
        except Exception:
            ok = False
        tys = {a["name"]: a["ty"] for a in p["args"] if a["param"]}
        if p.get("must_bind") and all(is_value_of(tys[k], v) for k, v in kv):
            # a shape program (constant in-range indexing, operators of the width model only) bound to values of the
            # declared types: nothing in it can be refused
            self.stats["shape_must_bind_checked"] += 1
            if QUIRK_NESTED in self.active and any(nested_container_unread(t) for t in tys.values()) \
                    and err.startswith(UNREAD_ERRORS) and self.readable is False and not ok:
                # the listed defect, exactly: a Qlist / Qmatrix inside the element annotation of a Qlist / Qmatrix is not
                # elaborated (the model with the quirk says so too), the typed assignment is refused
                self.stats["binds_nested_unread"] += 1
                self.res.known(FID_NESTED)
            else:
                self.res.violation(case, f"bind rejects a value of the declared parameter type: {err}")
        elif ok:
            self.res.violation(case, f"bind rejects values the front end accepts when they are written into the source: {err}")
        else:
            if any("range(" in l for l in body_lines(p)):
                self.stats["loop_bound_rejected"] += 1

    # ---- semantics of one bound function
    def judge_table(self, p, pm, kv, qf, tab, pyf, free, nrows, reqs, req_meta, case):
        qlasskit, _ = lib()
        res, st = self.res, self.stats
        # reference: the front end on the textually specialised source (no bind involved)
        ref = None
        try:
            # (an argument annotated with a bare `Parameter` has no textual counterpart: bind drops it, python keeps it)
            if not p_has_removed(p):
                rqf = qlasskit.qlassf(specialised_src(p, kv, typed=self.typed), to_compile=False)
                ref, _ = table_of(rqf, free, p["rty"])
        except Exception as e:  # noqa
            res.violation(case, f"bind accepts what the front end rejects on the textually specialised source: {type(e).__name__}: {e}")
        ptys = {a["name"]: a["ty"] for a in p["args"] if a["param"]}
        if self.typed and "body" in p and ref is not None and any(is_value_of(ptys[k], v) for k, v in kv if k in ptys):
            # (with no value of a declared type the typecast source is the source above, character by character)
            # second reference that does not go through the typed assignment: the library's typecasts at the leaves
            try:
                cqf = qlasskit.qlassf(specialised_src(p, kv, typed=True, casts=True), to_compile=False)
                cref, _ = table_of(cqf, free, p["rty"])
            except Exception as e:  # noqa
                cref = None
                res.violation(case, f"the source specialised with typecast constants is rejected: {type(e).__name__}: {e}")
            st["typecast_refs"] += 1
            if cref is not None and [t[1] for t in cref] != [t[1] for t in tab]:
                bad = next(i for i in range(nrows) if cref[i][1] != tab[i][1])
                res.violation(self.case(p, kv, row_inputs(free, bad)),
                              "the bound function differs from the front end's translation of the source specialised with typecast constants (Qint4(3), ...)",
                              code=tab[bad][1], expected=cref[bad][1])
                return
        if ref is not None and [t[1] for t in ref] != [t[1] for t in tab]:
            bad = next(i for i in range(nrows) if ref[i][1] != tab[i][1])
            res.violation(self.case(p, kv, row_inputs(free, bad)),
                          "the bound function differs from the front end's translation of the textually specialised source",
                          code=tab[bad][1], expected=ref[bad][1])
            return
        kvd = dict(kv)
        py_rows = []
        suspects = []
        for i in range(nrows):
            st["rows"] += 1
            x = row_inputs(free, i)
            try:
                raw = pyf(**kvd, **x, **{a["name"]: False for a in p["args"] if a.get("removed")})
                want = representable(p["rty"], raw)
                py_rows.append(("val", raw))
            except Exception as e:  # noqa
                st["rows_python_raises"] += 1
                py_rows.append(("exc", type(e).__name__))
                continue
            if want is None:
                st["rows_out_of_range"] += 1
                continue
            if tab[i][0] == want:
                st["rows_python_agree"] += 1
            else:
                suspects.append((i, want))
        # the bound object's original_f is the specialised python function
        for i in sorted({0, nrows - 1, nrows // 2}):
            x = row_inputs(free, i)
            try:
                got = ("val", qf.original_f(**x))
            except Exception as e:  # noqa
                got = ("exc", type(e).__name__)
            if not p_has_removed(p) and got != py_rows[i]:
                res.violation(self.case(p, kv, x), "original_f of the bound function is not the python function with the parameters set",
                              code=repr(got), expected=repr(py_rows[i]))
        # model requests: python values (all rows), width-aware values (all rows)
        if "body" in p:
            reqs.append({"op": "c08.eval", "alg": "py", "quirks": self.active, "prog": pm,
                         "kv": [[n, pyval_json(v)] for n, v in kv],
                         "rows": [[py_value(row_inputs(free, i)[a["name"]]) for a in free] for i in range(nrows)]})
            req_meta.append(("py", case, (py_rows, free)))
        if in_width_model(p):
            reqs.append({"op": "c08.eval", "alg": "w", "rty": ty_model(p["rty"]), "quirks": self.wquirks, "prog": pm,
                         "kv": [[n, pyval_json(v)] for n, v in kv],
                         "rows": [[w_value(a["ty"], row_inputs(free, i)[a["name"]]) for a in free] for i in range(nrows)]})
            req_meta.append(("w", case, (tab, suspects, free, kv)))
        else:
            # outside the width model: a row that disagrees with python while agreeing with the front end's
            # own translation of the specialised source is the front end's (C01), not bind's
            st["rows_front_end_c01"] += len(suspects)

    # ---- errors
    def check_errors(self, p, pm, u, fp0, vals, reqs, req_meta):
        res, st = self.res, self.stats
        names = list(vals.keys())
        free = [a["name"] for a in p["args"] if not a["param"]]
        cases = []
        cases.append([])  # nothing bound
        if len(names) > 1:
            cases.append([(n, vals[n]) for n in names[:-1]])  # one missing
            cases.append([(n, vals[n]) for n in names[1:]])
        cases.append([(n, vals[n]) for n in names] + [("zz", True)])  # one too many
        cases.append([(("zz" if i == len(names) - 1 else n), vals[n]) for i, n in enumerate(names)])  # unknown name, right arity
        cases.append([(("zz" if i == 0 else n), vals[n]) for i, n in enumerate(names)])
        if free:
            cases.append([((free[0] if i == 0 else n), vals[n]) for i, n in enumerate(names)])  # an ordinary argument's name
        if len(names) > 1:
            cases.append([("zz", 1), ("yy", 2)] + [(n, vals[n]) for n in names[2:]])  # two unknown: the first in keyword order is reported
        for kv in cases:
            st["error_cases"] += 1
            case = self.case(p, kv, kind="error")
            self.res.count({"src": case["src"], "bind": [list(x) for x in kv], "kind": "error"}, nontrivial=len(kv) > 0, bucket="errors")
            try:
                u.bind(**dict(kv))
                got = None
            except Exception as e:  # noqa
                got = str(e)
            # the property: keywords that are not exactly the parameters must raise
            if set(k for k, _ in kv) != set(names) or len(kv) != len(names):
                if got is None:
                    res.violation(case, "bind with wrong arity / unknown names does not raise")
            if fingerprint(u) != fp0:
                res.violation(case, "a rejected bind altered the unbound object")
            reqs.append({"op": "c08.bind", "quirks": self.active, "prog": pm, "kv": [[n, pyval_json(v)] for n, v in kv]})
            req_meta.append(("error", case, got))

    # ---- model replies
    def run_model(self, p, reqs, req_meta, replies=None):
        res, st = self.res, self.stats
        if not reqs:
            return
        if replies is None:
            replies = self.model(reqs)
        if replies is None:
            return
        width_seen = False
        for rep, (kind, case, data) in zip(replies, req_meta):
            if "driver_error" in rep:
                res.disagree(case, f"model driver error: {rep['driver_error']}")
                continue
            if kind == "params":
                self.check_head(p, rep, data)
            elif kind == "header":
                b = rep.get("bind", {})
                hd = data
                model_hd = {"args": b.get("args"), "injected": [[x[0], x[1], x[2]] for x in b.get("injected", [])],
                            "body_len": None if b.get("body_len") is None else b["body_len"] - len(prog_model(p).get("body", [])) + len(hd["rest"])}
                # the annotation the code injected, read as the model's Ty when it is the parameter's declared annotation
                decl = {a["name"]: (ann_text(a["ty"]), ty_model(a["ty"])) for a in p["args"] if a["param"]}
                code_inj = [[x[0], (decl[x[0]][1] if x[1] is not None and x[0] in decl and decl[x[0]][0] == x[1] else x[1]), x[2]]
                            for x in hd["injected"]]
                code_hd = {"args": hd["args"], "injected": code_inj, "body_len": hd["body_len"]}
                if model_hd != code_hd:
                    res.disagree(case, "bound AST header: model != code", code=code_hd, model=model_hd)
                if rep.get("detectors_agree") and b.get("still_unbound"):
                    res.disagree(case, "model: a bound program is still unbound")
            elif kind == "error":
                m = rep.get("bind", {}).get("error")
                if m != data:
                    res.disagree(case, "bind error: model != code", code=data, model=m)
            elif kind == "py":
                py_rows, free = data
                for i, (b, s) in enumerate(zip(rep["bound"], rep["spec"])):
                    if b != s:
                        res.disagree(case, "model: Sem(bind p kv) != Sem p (merge kv xs) (contradicts bind_sem)", model=[b, s], row=i)
                        break
                    if s is None:
                        continue
                    st["pysem_rows"] += 1
                    k, v = py_rows[i]
                    if k != "val" or py_value(v) != s or type(py_value(v)) is not type(s):
                        res.disagree(case, "Lean Sem in python values != CPython", code=repr(py_rows[i]), model=s, row=i)
                        break
            elif kind == "w":
                tab, suspects, free, kv = data
                bound, spec = rep["bound"], rep["spec"]
                if any(b is None for b in bound):
                    # the width model does not type this program (e.g. bool/int mix): nothing to compare
                    st["rows_front_end_c01"] += len(suspects)
                    continue
                width_seen = True
                bad = [i for i in range(len(tab)) if bound[i] != tab[i][1] and bound[i] is not (tab[i][0] if isinstance(tab[i][0], bool) else None)]
                bad = [i for i in bad if not (isinstance(bound[i], bool) and bound[i] == tab[i][0])]
                st["width_rows"] += len(tab)
                if bad:
                    i = bad[0]
                    res.disagree(self._with_row(case, free, i), "width-aware model (active quirks) != bits of the bound function",
                                 code=tab[i][1], model=bound[i])
                    st["rows_front_end_c01"] += len(suspects)
                    continue
                for i, want in suspects:
                    sp = w_decode(p["rty"], spec[i]) if not isinstance(spec[i], bool) else spec[i]
                    if QUIRK in self.active and sp == want and spec[i] != bound[i] and rep.get("spec_untyped", [None] * len(tab))[i] == bound[i]:
                        # python agrees with the unbound function at its declared types; the code computes the
                        # same function at the constants' minimal types: exactly the listed defect
                        st["rows_type_drop"] += 1
                        res.known(FID)
                    else:
                        st["rows_front_end_c01"] += 1
        if width_seen:
            st["width_programs"] += 1

    # ---- `is_value_of` itself
    def check_is_value_of(self, cases):
        """the code's `is_value_of(annotation, value)` against the property's own reading (expected) and the Lean
        model `isValueOfAnn` on the annotation as written"""
        _, qlassfun = lib()
        fn = getattr(qlassfun, "is_value_of", None)
        res, st = self.res, self.stats
        if fn is None:
            return
        reqs, meta = [], []
        n_bad = n_dis = 0
        for src, v, want, label in cases:
            node = ast.parse(src, mode="eval").body
            case = {"kind": "is_value_of", "ann": src, "value": v, "variant": label}
            st["is_value_of_cases"] += 1
            res.count({"kind": "is_value_of", "ann": src, "value": repr(v)},
                      nontrivial=isinstance(v, (list, tuple)), bucket="is_value_of:" + label.split(":")[-1].split("_")[0])
            try:
                got = fn(node, v)
            except Exception as e:  # noqa
                got = f"{type(e).__name__}: {e}"
            if got is True:
                st["is_value_of_true"] += 1
            if got is not want and (n_bad := n_bad + 1) <= 8:
                # (at most 8 reported from this probe, so that the failing inputs found through bind are listed too)
                res.violation(case, "is_value_of(declared type, value) is not `value is a value of the declared type` "
                                    "(this decides whether bind keeps the declared Parameter[T] type)", code=got, expected=want)
            if not has_float(v):
                reqs.append([ann_json(node), pyval_json(v)])
                meta.append((case, got))
        if not reqs:
            return
        rep = self.model([{"op": "c08.isvalueof", "cases": reqs}])
        if rep is None:
            return
        if "driver_error" in rep[0]:
            res.disagree({"kind": "is_value_of"}, f"model driver error: {rep[0]['driver_error']}")
            return
        for (case, got), m in zip(meta, rep[0]["value_of"]):
            st["is_value_of_model"] += 1
            if m is not got and (n_dis := n_dis + 1) <= 8:
                res.disagree(case, "is_value_of: model (isValueOfAnn) != code", code=got, model=m)

    def _with_row(self, case, free, i):
        d = dict(case)
        d["inputs"] = row_inputs(free, i)
        return d


def out_of_domain(t, v):
    """v with one integer replaced by one that does not fit its declared Qint[n] (same python shape), or None"""
    if t == "bool":
        return None
    if t[0] == "qint":
        return 2 ** t[1] if t[1] <= 4 else None  # the first int that does not fit
    if t[0] in ("tuple", "qlist"):
        el = ty_elems(t)
        for i in range(len(el) - 1, -1, -1):
            o = out_of_domain(el[i], v[i])
            if o is not None:
                return tuple(list(v[:i]) + [o] + list(v[i + 1:]))
    return None


def _tupled(j):
    return j


def expect_value_json(v):
    """what the injected constant must be: lists / tuples become tuples of constants, element-wise"""
    if isinstance(v, (list, tuple)):
        return ["tuple", [expect_value_json(x) for x in v]]
    if isinstance(v, bool):
        return ["const", ["b", v]]
    if isinstance(v, int):
        return ["const", ["i", v]]
    return ["const", ["s", v]]


def p_has_removed(p):
    return any(a.get("removed") for a in p["args"])


# --------------------------------------------------------------------------- findings

WITNESS_SRC = "def test(c: Parameter[Qint[4]], a: Qint[4]) -> Qint[4]:\n\treturn (c << 2) + a"


def witness_fails(ctx: Ctx, f):
    if f.get("quirk") == QUIRK_NESTED:
        qlasskit, _ = lib()
        w = f["witness"]
        try:
            qf = qlasskit.qlassf(w["src"], to_compile=False).bind(**w["bind"])
        except Exception:
            return True
        known = {}
        for a in qf.args:
            for i, n in enumerate(a.bitvec):
                known[n] = bool((w["inputs"][a.name] >> i) & 1)
        known = eval_expressions(qf, known)
        return sum((1 << i) for i, n in enumerate(qf.returns.bitvec) if known[n]) != w["expected"]
    if f.get("quirk") != QUIRK:
        return None
    qlasskit, _ = lib()
    w = f.get("witness", {})
    src = w.get("src", WITNESS_SRC)
    kv = w.get("bind", {"c": 3})
    x = w.get("inputs", {"a": 0})
    u = qlasskit.qlassf(src, to_compile=False)
    qf = u.bind(**kv)
    known = {}
    for a in qf.args:
        v = x[a.name]
        for i, n in enumerate(a.bitvec):
            known[n] = bool((v >> i) & 1)
    known = eval_expressions(qf, known)
    got = sum((1 << i) for i, n in enumerate(qf.returns.bitvec) if known[n])
    return got != w.get("expected", 12)


# --------------------------------------------------------------------------- run / replay


def n_random_shapes(thorough):
    return 60 if thorough else 12


def all_programs(ctx, n_random):
    progs = [("sys", i, p) for i, p in enumerate(systematic_programs())]
    progs += [("shp", i, p) for i, p in enumerate(shape_programs(ctx.thorough))]   # same for every seed
    for i in range(n_random):
        prng = random.Random(f"C08-{ctx.seed}-{i}")
        progs.append(("rnd", i, random_program(prng, i, 8 if ctx.thorough else 7)))
    for i in range(n_random_shapes(ctx.thorough)):
        prng = random.Random(f"C08-{ctx.seed}-shape-{i}")
        progs.append(("shr", i, random_shape_program(prng, i)))
    return progs


def all_is_value_cases(ctx, progs):
    """direct probe of is_value_of: every systematic shape and scalar width x (right-shaped, every wrong shape, every
    wrong entry); the annotations outside the type grammar x a value list; the random shape programs' types"""
    types = [t for t, _ in shape_types()] + [["qint", w] for w in QINT_WIDTHS] + ["bool"]
    for n in (1, 2, 3):
        for m in (1, 2, 3):
            for el in ("bool", ["qint", 2]):
                types.append(["qmatrix", el, n, m])
    cases = is_value_cases(types)
    for src, want in EXTRA_ANNS:
        for v in EXTRA_VALUES:
            cases.append((src, v, bool(want(v)), "extra:annotation"))
    rng = random.Random(f"C08-{ctx.seed}-isvalue")
    rtypes = [p["args"][0]["ty"] for kind, _, p in progs if kind == "shr"]
    cases += is_value_cases(rtypes, rng)
    return cases


def run(ctx: Ctx) -> Result:
    res = Result("C08")
    ck = Checker(ctx, res)
    res.rule = (
        "case = (program source, keyword values in keyword order) or (program, wrong keyword set); every case is "
        "judged on ALL inputs of the remaining arguments; systematic slice (the suite's shapes, every operator x "
        "declared width x argument width x operand side, 1-3 parameters around ordinary arguments, tuples/lists, "
        "statements, loop bounds, a bare `Parameter` annotation; container shapes: Qmatrix n x m for all 1<=n,m<=3, Qlist "
        "of length 1..4, mixed Tuples, nested containers, Qint of every shipped width, each bound to values with entries "
        "narrower than the declared type in width-sensitive bodies, to an out-of-range entry and to wrongly shaped values) "
        "then random typed programs and random container shapes; also case = (annotation, value) for is_value_of itself "
        "(every systematic shape x right / transposed / ragged / too long / too short / atom-for-row / wrong-entry values, "
        "annotations outside the type grammar x a value list); per program ONE "
        "unbound object bound with all parameter values (domain <= limit, else sampled), rotating keyword orders, "
        "repeated/alternating binds; non-trivial = two or more parameters or two or more input bits"
    )
    n_random = 260 if ctx.thorough else 45
    max_values = 64 if ctx.thorough else 16
    progs = all_programs(ctx, n_random)
    ck.check_is_value_of(all_is_value_cases(ctx, progs))
    ck.prepare_readable([p for _, _, p in progs])
    for kind, i, p in progs:
        prng = random.Random(f"C08-{ctx.seed}-{kind}-{i}-values")
        ck.check_program(p, prng, 64 if (kind == "sys" and ctx.thorough) else max_values)
    ck.flush()
    res.extra["c08"] = ck.stats
    res.notes.append("rows where the bound function, the front end's translation of the textually specialised source and "
                     f"the width-aware model agree but CPython differs: {ck.stats['rows_front_end_c01']} attributed to the "
                     f"front end (C01: fixed-width arithmetic / its listed defects), {ck.stats['rows_type_drop']} to the listed "
                     "defect of bind (declared type dropped); rows whose python value does not fit the return type are not judged "
                     "against CPython but still against the other oracles")
    res.assumptions.append("C08: CPython's exec of the user's source is the meaning of 'the unbound Python function'; the front "
                           "end's translation of a parameter-free source (C01) is a hypothesis measured per row, not proved here")
    res.assumptions.append("C08: keyword arguments are distinct and argument names are distinct (guaranteed by CPython's call "
                           "and def syntax) - hypotheses KwOk / WellFormed of the theorems")
    if not res.violations and not res.disagreements:
        # (with a failing input in hand the verdict comes first)
        if ck.stats["programs"] and ck.stats["rejected_binds"] > ck.stats["binds"] // 2:
            raise RuntimeError("generator collapse: most binds are rejected")
        if ck.stats["rows"] and ck.stats["rows_python_agree"] < ck.stats["rows"] // 3:
            raise RuntimeError("generator collapse: too few rows comparable with CPython")
    return res


def replay(ctx: Ctx, payload):
    first = payload.get("first") or (payload.get("correspondence_disagreements") or [{}])[0]
    case = first.get("case", {})
    print("replaying", json.dumps(case)[:2000])
    src = case.get("src")
    for f in ctx.findings:
        f["_active"] = bool(witness_fails(ctx, f)) if f.get("status", "open") == "open" else False
    res = Result("C08")
    ck = Checker(ctx, res)
    if case.get("kind") == "is_value_of":
        v = case.get("value")
        ann = case["ann"]
        want = None
        ctx.seed = payload.get("seed", 0)
        ctx.tier = payload.get("tier", "quick")
        for s2, v2, w2, _ in all_is_value_cases(ctx, all_programs(ctx, 260 if ctx.tier == "thorough" else 45)):
            if s2 == ann and json.loads(json.dumps(v2)) == v:
                v, want = v2, w2
                break
        if want is None:
            print("case not found in the generator stream")
            return 2
        ck.check_is_value_of([(ann, v, want, case.get("variant", "replay"))])
        for x in res.violations[:3]:
            print(json.dumps(x, indent=1, default=str)[:3000])
        for d in res.disagreements[:3]:
            print("DISAGREE", json.dumps(d, indent=1, default=str)[:2000])
        return 1 if (res.violations or res.disagreements) else 0
    if not src:
        return 2
    tier = payload.get("tier", "quick")
    ctx.tier = tier
    ctx.seed = payload.get("seed", 0)
    prog = None
    for kind, i, p in all_programs(ctx, 260 if tier == "thorough" else 45):
        if prog_src(p) == src:
            prog = (kind, i, p)
            break
    if prog is None:
        print("program not found in the generator stream")
        return 2
    kind, i, p = prog
    prng = random.Random(f"C08-{ctx.seed}-{kind}-{i}-values")
    ck.check_program(p, prng, 64 if (kind == "sys" and tier == "thorough") else (64 if tier == "thorough" else 16))
    ck.flush()
    for v in res.violations[:3]:
        print(json.dumps(v, indent=1, default=str)[:3000])
    for d in res.disagreements[:3]:
        print("DISAGREE", json.dumps(d, indent=1, default=str)[:2000])
    return 1 if (res.violations or res.disagreements) else 0
