"""C08 - binding parameters is specialisation.

Always-on search on the real code.  Parameterised programs (Parameter[bool], Parameter[Qint[k]],
Parameter[Tuple[...]], Parameter[Qlist[...]], Parameter[List[Tuple[...]]], 1-3 parameters mixed
with ordinary arguments; parameters in arithmetic, bitwise, shifts, comparisons, if-expressions,
tuple indexing, re-assignment, `if` statements, `for` loops over a parameter, parameters as loop
bounds) are compiled to an UnboundQlassf; ONE unbound object per program is then bound many times:
every parameter value when the domain is <= 64 (else a sample), rotating keyword orders,
repeated and alternating binds.  For every bind the truth table of the bound function is decoded
on ALL remaining inputs and judged by oracles that do not use `bind`:
  * CPython running the user's source with the parameters passed as keyword arguments;
  * the real front end on the source specialised *textually* by this harness (signature without
    the parameters, `k = repr(v)` lines prepended in keyword order) - never through bind; when the
    listed defect is not active (repaired bind) a value of the declared type T is written
    `k: T = repr(v)`, and a second reference uses the library's typecasts (`Qint4(3)`) instead;
  * keyword values that are not values of the declared type (an int needing more bits than Qint[n]):
    bound as bare literals also by the repaired bind;
  * `ast.dump(u.fun_ast)` / `u.parameters` before and after every bind, results of repeated binds
    of the same values after any history, a fresh unbound object;
  * wrong arity / unknown names must raise, and must leave the object usable.
Correspondence with the Lean model (QV.Model.Bind) through the driver: unbound-or-not and the
parameter table, the header of the bound AST handed to the translator (argument names, injected
assignments with their `to_val` trees, untouched body), error texts; `Sem` in Python values
against CPython on every row; `Sem` in width-aware values (active quirks) against the code's bits
on every row of the programs inside the width model's operator set.
"""
from __future__ import annotations

import __future__
import ast
import itertools
import json
import random

from . import bexp
from .common import Ctx, Result

LEVEL = "proof"
QUIRK = "bindDropsType"
FID = "C08-bind-drops-declared-type"

# --------------------------------------------------------------------------- types
# T ::= "bool" | ["qint", w] | ["tuple", [T...]] | ["qlist", T, n] | ["list", T, n]
# ("list" = typing.List annotation for a parameter; values are python lists of length n)


def ty_src(t):
    if t == "bool":
        return "bool"
    if t[0] == "qint":
        return f"Qint[{t[1]}]"
    if t[0] == "tuple":
        return "Tuple[" + ", ".join(ty_src(x) for x in t[1]) + "]"
    if t[0] == "qlist":
        return f"Qlist[{ty_src(t[1])}, {t[2]}]"
    if t[0] == "list":
        return f"List[{ty_src(t[1])}]"
    raise ValueError(t)


def ty_elems(t):
    if t[0] == "tuple":
        return list(t[1])
    if t[0] in ("qlist", "list"):
        return [t[1]] * t[2]
    return None


def ty_model(t):
    """declared type as the Lean model's Ty (`typing.List[..]` is no type of the translator: `other`)"""
    if t == "bool":
        return "bool"
    if t[0] == "qint":
        return ["qint", t[1]]
    if t[0] == "list":
        return ["other", ty_src(t)]
    return ["tuple", [ty_model(x) for x in ty_elems(t)]]


QINT_WIDTHS = (2, 3, 4, 5, 6, 7, 8, 12, 16)  # cross-checked against qlasskit.types.QINT_TYPES at the start of a run


def is_value_of(t, v):
    """the property's own reading of `a value of the declared type`: bool / Qint[n] (a builtin width, 0 <= v < 2**n) /
    Tuple, Qlist of those with the right shape.  Only such a keyword value keeps its declared type in the repaired bind;
    anything else (typing.List annotations, out-of-range ints, wrong shapes) is bound as a bare literal, as before."""
    if t == "bool":
        return isinstance(v, bool)
    if t[0] == "qint":
        return type(v) is int and t[1] in QINT_WIDTHS and 0 <= v < 2 ** t[1]
    if t[0] in ("tuple", "qlist"):
        el = ty_elems(t)
        return isinstance(v, (tuple, list)) and len(el) > 0 and len(v) == len(el) and all(is_value_of(x, y) for x, y in zip(el, v))
    return False


def ty_bits(t):
    if t == "bool":
        return 1
    if t[0] == "qint":
        return t[1]
    return sum(ty_bits(x) for x in ty_elems(t))


def ty_domain_size(t):
    return 2 ** ty_bits(t)


def ty_value(t, k):
    """the k-th value of type t (k < 2**bits), as a python value (tuples for aggregates)"""
    if t == "bool":
        return bool(k & 1)
    if t[0] == "qint":
        return k % (2 ** t[1])
    out = []
    for x in ty_elems(t):
        n = ty_bits(x)
        out.append(ty_value(x, k % (2 ** n)))
        k >>= n
    return out if t[0] == "list" else tuple(out)


def names_of(base, t):
    """bit names of an argument / the return value, in the order of Arg.bitvec"""
    if t == "bool":
        return [base]
    if t[0] == "qint":
        return [f"{base}.{i}" for i in range(t[1])]
    out = []
    for i, x in enumerate(ty_elems(t)):
        out.extend(names_of(f"{base}.{i}", x))
    return out


def encode(t, v):
    if t == "bool":
        return [bool(v)]
    if t[0] == "qint":
        return [bool((v >> i) & 1) for i in range(t[1])]
    out = []
    for x, y in zip(ty_elems(t), v):
        out.extend(encode(x, y))
    return out


def decode(t, bits):
    bits = list(bits)

    def go(t):
        if t == "bool":
            return bits.pop(0)
        if t[0] == "qint":
            return sum((1 << i) for i in range(t[1]) if bits.pop(0))
        return tuple(go(x) for x in ty_elems(t))

    return go(t)


def representable(t, v):
    """python result v as a value of the declared return type, or None"""
    if t == "bool":
        if isinstance(v, bool):
            return v
        return None
    if t[0] == "qint":
        if isinstance(v, bool) or not isinstance(v, int):
            return None
        return v if 0 <= v < 2 ** t[1] else None
    if not isinstance(v, (tuple, list)) or len(v) != len(ty_elems(t)):
        return None
    out = []
    for x, y in zip(ty_elems(t), v):
        r = representable(x, y)
        if r is None:
            return None
        out.append(r)
    return tuple(out)


def pyval_json(v):
    """keyword value as the model's PyVal"""
    if isinstance(v, bool):
        return ["atom", ["b", v]]
    if isinstance(v, int):
        return ["atom", ["i", v]]
    if isinstance(v, str):
        return ["atom", ["s", v]]
    return ["iter", [pyval_json(x) for x in v]]


def w_value(t, v):
    if t == "bool":
        return bool(v)
    if t[0] == "qint":
        return "".join("1" if b else "0" for b in encode(t, v))
    return [w_value(x, y) for x, y in zip(ty_elems(t), v)]


def py_value(v):
    return [py_value(x) for x in v] if isinstance(v, (tuple, list)) else v


def w_decode(t, j):
    if j is None:
        return None
    if t == "bool":
        return j if isinstance(j, bool) else None
    if t[0] == "qint":
        return sum((1 << i) for i, c in enumerate(j) if c == "1") if isinstance(j, str) and len(j) == t[1] else None
    return None


# --------------------------------------------------------------------------- expressions
# E ::= ["const", atom] | ["tuple", [E]] | ["var", n] | ["un", op, E] | ["bin", op, E, E] | ["ite", E, E, E] | ["idx", E, i]

BIN_SRC = {"add": "+", "sub": "-", "band": "&", "bor": "|", "bxor": "^", "shl": "<<", "shr": ">>",
           "eq": "==", "ne": "!=", "lt": "<", "le": "<=", "gt": ">", "ge": ">=", "and": "and", "or": "or"}
W_OPS = {"add", "sub", "band", "bor", "bxor", "shl", "shr", "eq", "ne", "lt", "le", "gt", "ge", "and", "or"}


def exp_src(e):
    k = e[0]
    if k == "const":
        return repr(e[1][1])
    if k == "tuple":
        return "(" + ", ".join(exp_src(x) for x in e[1]) + ("," if len(e[1]) == 1 else "") + ")"
    if k == "var":
        return e[1]
    if k == "un":
        return f"(not {exp_src(e[2])})" if e[1] == "not" else f"(~{exp_src(e[2])})"
    if k == "bin":
        return f"({exp_src(e[2])} {BIN_SRC[e[1]]} {exp_src(e[3])})"
    if k == "ite":
        return f"({exp_src(e[2])} if {exp_src(e[1])} else {exp_src(e[3])})"
    if k == "idx":
        return f"{exp_src(e[1])}[{e[2]}]"
    raise ValueError(e)


def exp_ops(e, acc):
    if e[0] == "bin":
        acc.add(e[1])
    if e[0] == "un":
        acc.add(e[1])
    if e[0] == "ite":
        acc.add("ite")
    if e[0] == "idx":
        acc.add("idx")
    for x in e[1:]:
        if isinstance(x, list) and x and isinstance(x[0], str) and x[0] in ("const", "tuple", "var", "un", "bin", "ite", "idx"):
            exp_ops(x, acc)
        elif isinstance(x, list):
            for y in x:
                if isinstance(y, list) and y and isinstance(y[0], str):
                    exp_ops(y, acc)
    return acc


# --------------------------------------------------------------------------- programs
# prog = {name, args: [{name, ty, param, ann?}], rty, body: [[target, E]] | lines: [str], ret: E?}
# `body`/`ret` present: program of the model's statement language; `lines`: raw python body.


def ann_src(a):
    if a.get("ann"):
        return a["ann"]
    return f"Parameter[{ty_src(a['ty'])}]" if a["param"] else ty_src(a["ty"])


def body_lines(p):
    if "lines" in p:
        return list(p["lines"])
    return [f"{t} = {exp_src(e)}" for t, e in p["body"]] + [f"return {exp_src(p['ret'])}"]


def render(name, args, rty, lines):
    sig = ", ".join(f"{a['name']}: {ann_src(a)}" for a in args)
    return f"def {name}({sig}) -> {ty_src(rty)}:\n" + "\n".join("\t" + l for l in lines)


def prog_src(p):
    return render(p["name"], p["args"], p["rty"], body_lines(p))


def typecast_src(t, v):
    """v written with the library's typecasts at the leaves: Qint4(3), (True, Qint2(1))"""
    if t == "bool":
        return repr(v)
    if t[0] == "qint":
        return f"Qint{t[1]}({v!r})"
    xs = [typecast_src(x, y) for x, y in zip(ty_elems(t), v)]
    return "(" + ", ".join(xs) + ("," if len(xs) == 1 else "") + ")"


def specialised_src(p, kv, typed=False, casts=False):
    """the source specialised textually (independent of bind): parameters removed from the
    signature, `k = repr(v)` prepended in keyword order.  typed (the repaired bind): a value of the
    declared type T is written `k: T = repr(v)`; casts: with typecasts at the leaves instead"""
    args = [a for a in p["args"] if not a["param"]]
    tys = {a["name"]: a["ty"] for a in p["args"] if a["param"]}
    pre = []
    for k, v in kv:
        if typed and k in tys and is_value_of(tys[k], v):
            pre.append(f"{k} = {typecast_src(tys[k], v)}" if casts else f"{k}: {ty_src(tys[k])} = {v!r}")
        else:
            pre.append(f"{k} = {v!r}")
    return render(p["name"], args, p["rty"], pre + body_lines(p))


def model_ann(a):
    if a.get("ann_model") is not None:
        return a["ann_model"]
    if a["param"]:
        return ["sub", ["name", "Parameter"], ty_model(a["ty"])]
    if a["ty"] == "bool":
        return ["bare", ["name", "bool"]]
    head = {"qint": "Qint", "tuple": "Tuple", "qlist": "Qlist", "list": "List"}[a["ty"][0]]
    return ["sub", ["name", head], ["other", ty_src(a["ty"])]]


def prog_model(p):
    d = {"name": p["name"], "args": [{"name": a["name"], "ann": model_ann(a)} for a in p["args"]]}
    if "body" in p:
        d["body"] = [[t, e] for t, e in p["body"]]
        d["ret"] = p["ret"]
    return d


def in_width_model(p):
    if "body" not in p:
        return False
    ops = set()
    for _, e in p["body"]:
        exp_ops(e, ops)
    exp_ops(p["ret"], ops)
    if not ops <= (W_OPS | {"not", "inv", "ite", "idx"}):
        return False
    return all(a["ty"] == "bool" or a["ty"][0] in ("qint", "tuple", "qlist") for a in p["args"]) and \
        (p["rty"] == "bool" or p["rty"][0] == "qint")


# --------------------------------------------------------------------------- generators

PNAMES = ["c", "d", "e"]
ANAMES = ["a", "b"]


def P(name, ty):
    return {"name": name, "ty": ty, "param": True}


def A(name, ty):
    return {"name": name, "ty": ty, "param": False}


def V(n):
    return ["var", n]


def CI(k):
    return ["const", ["i", k]]


def B(op, l, r):
    return ["bin", op, l, r]


def systematic_programs():
    out = []
    k = 0

    def add(args, rty, body, ret):
        nonlocal k
        out.append({"name": f"ps_{k}", "args": args, "rty": rty, "body": body, "ret": ret})
        k += 1

    def raw(args, rty, lines):
        nonlocal k
        out.append({"name": f"ps_{k}", "args": args, "rty": rty, "lines": lines})
        k += 1

    Q2, Q3, Q4 = ["qint", 2], ["qint", 3], ["qint", 4]
    # the suite's own shapes
    add([P("c", "bool"), A("a", "bool")], "bool", [], B("and", V("a"), V("c")))
    add([P("c", Q2), A("a", "bool")], Q2, [], ["ite", V("a"), B("add", V("c"), CI(1)), V("c")])
    add([P("c", Q2), P("d", Q2), A("a", "bool")], Q2, [],
        ["ite", V("a"), B("add", V("c"), V("d")), B("add", V("c"), CI(1))])
    add([P("c", ["qlist", "bool", 2])], "bool", [], B("and", ["idx", V("c"), 0], ["idx", V("c"), 1]))
    add([P("c", ["tuple", ["bool", Q2]])], Q2, [],
        ["ite", ["idx", V("c"), 0], ["idx", V("c"), 1], B("add", ["idx", V("c"), 1], CI(1))])
    # every operator: parameter (op) argument and argument (op) parameter, declared widths 2..4 x argument widths
    for op in ["add", "sub", "band", "bor", "bxor"]:
        for wp in (2, 3, 4):
            for wa in (2, 4):
                w = max(wp, wa)
                add([P("c", ["qint", wp]), A("a", ["qint", wa])], ["qint", w], [], B(op, V("c"), V("a")))
                add([A("a", ["qint", wa]), P("c", ["qint", wp])], ["qint", w], [], B(op, V("a"), V("c")))
    for op in ["eq", "ne", "lt", "le", "gt", "ge"]:
        for wp in (2, 4):
            for wa in (2, 3):
                add([P("c", ["qint", wp]), A("a", ["qint", wa])], "bool", [], B(op, V("c"), V("a")))
                add([P("c", ["qint", wp]), A("a", ["qint", wa])], "bool", [], B(op, V("a"), V("c")))
    for op in ["shl", "shr"]:
        for sh in (1, 2):
            add([P("c", Q4), A("a", Q4)], Q4, [], B("bxor", B(op, V("c"), CI(sh)), V("a")))
            add([P("c", Q3), A("a", Q2)], Q4, [], B("add", B(op, V("c"), CI(sh)), V("a")))
    add([P("c", Q4), A("a", Q4)], Q4, [], B("add", B("shl", V("c"), CI(2)), V("a")))  # the finding's witness
    add([P("c", Q3), A("a", Q3)], Q3, [], B("bxor", ["un", "inv", V("c")], V("a")))
    add([P("c", Q4), A("a", Q2)], Q4, [], B("band", ["un", "inv", V("c")], V("a")))
    for op in ["and", "or", "bxor", "eq", "ne", "band", "bor"]:
        add([P("c", "bool"), A("a", "bool"), A("b", "bool")], "bool", [], B(op, B("or", V("a"), V("c")) if op != "or" else V("a"), B("bxor", V("c"), V("b"))))
    add([P("c", "bool"), A("a", "bool")], "bool", [], ["un", "not", B("and", V("c"), V("a"))])
    add([P("c", "bool"), A("a", Q2), A("b", Q2)], Q2, [], ["ite", V("c"), V("a"), V("b")])
    add([P("c", Q2), P("d", "bool"), A("a", Q2)], Q2, [], ["ite", V("d"), V("c"), V("a")])
    # several parameters between / around the ordinary arguments
    add([A("a", Q2), P("c", Q2), A("b", "bool"), P("d", "bool")], Q3, [],
        ["ite", B("bxor", V("b"), V("d")), B("add", V("a"), V("c")), V("c")])
    add([P("c", "bool"), P("d", "bool"), P("e", "bool"), A("a", "bool")], "bool", [],
        B("bxor", B("and", V("c"), V("a")), B("or", V("d"), B("and", V("e"), V("a")))))
    add([P("c", Q2), A("a", Q2), P("d", Q2), A("b", Q2), P("e", Q2)], Q4, [],
        B("add", B("add", B("bxor", V("c"), V("a")), B("band", V("d"), V("b"))), V("e")))
    # only parameters: a constant function
    add([P("c", Q2), P("d", Q2)], Q3, [], B("add", V("c"), V("d")))
    add([P("c", "bool")], "bool", [], ["un", "not", V("c")])
    # locals, re-assignment of a parameter, a local shadowing nothing
    add([P("c", Q2), A("a", Q2)], Q3, [["t0", B("add", V("c"), V("a"))]], B("bxor", V("t0"), V("c")))
    add([P("c", Q3), A("a", Q3)], Q3, [["c", B("bxor", V("c"), V("a"))]], B("add", V("c"), V("a")))
    add([P("c", "bool"), A("a", "bool")], "bool", [["c", ["un", "not", V("c")]]], B("and", V("a"), V("c")))
    add([P("c", Q2), P("d", Q2), A("a", Q2)], Q2, [["d", V("c")], ["c", V("a")]], B("bxor", V("c"), V("d")))
    # tuples / lists of constants
    T3 = ["tuple", ["bool", Q2, Q3]]
    add([P("c", T3), A("a", Q3)], Q3, [], ["ite", ["idx", V("c"), 0], B("add", ["idx", V("c"), 1], V("a")), B("bxor", ["idx", V("c"), 2], V("a"))])
    add([P("c", ["qlist", Q2, 3]), A("a", Q2)], Q3, [], B("add", B("add", ["idx", V("c"), 0], ["idx", V("c"), 2]), B("band", ["idx", V("c"), 1], V("a"))))
    add([P("c", ["qlist", "bool", 3]), A("a", "bool")], "bool", [], B("bxor", B("and", ["idx", V("c"), 0], V("a")), B("or", ["idx", V("c"), 1], ["idx", V("c"), 2])))
    add([P("c", ["tuple", [["tuple", ["bool", "bool"]], Q2]]), A("a", Q2)], Q2, [],
        ["ite", ["idx", ["idx", V("c"), 0], 1], ["idx", V("c"), 1], V("a")])
    # raw python: statements the model's language does not have
    raw([P("c", "bool"), A("a", "bool")], "bool", ["if a:", "\tc = not c", "return c"])
    raw([P("c", Q2), A("a", "bool")], Q2, ["if a:", "\tc = c + 1", "return c"])
    raw([P("c", Q2), A("a", Q2), A("b", "bool")], Q3, ["r = a", "if b:", "\tr = a + c", "else:", "\tr = c", "return r"])
    raw([P("c", ["qlist", "bool", 3]), A("a", "bool")], "bool", ["r = a", "for x in c:", "\tr = r ^ x", "return r"])
    raw([P("c", ["qlist", Q2, 3]), A("a", Q2)], Q4, ["r = a", "for x in c:", "\tr = r + x", "return r"])
    raw([P("c", ["list", ["tuple", ["bool", "bool", "bool"]], 2]), A("a", "bool")], "bool",
        ["v = True", "for io in c:", "\tv = v and ((io[0] or io[1]) == io[2]) ^ a", "return v"])
    raw([P("c", ["qlist", Q2, 4]), A("a", Q2)], Q2, ["return c[a]"])
    raw([P("c", ["qlist", "bool", 4]), A("a", Q2)], "bool", ["return c[a]"])
    raw([P("c", Q2), A("a", Q2)], Q4, ["r = a", "for i in range(c):", "\tr = r + 1", "return r"])  # loop bound
    raw([P("c", Q2), A("a", Q4)], Q4, ["r = a", "for i in range(3):", "\tr += c", "return r"])
    raw([P("c", ["qlist", "bool", 2]), P("d", Q2), A("a", "bool")], Q2, ["return d if (c[0] and a) or c[1] else d + 1"])
    raw([P("c", Q2), A("a", Q2)], Q2, ["return max(c, a)"])
    raw([P("c", Q2), A("a", Q2)], Q2, ["return min(a, c)"])
    raw([P("c", ["tuple", [Q2, Q2]]), A("a", Q2)], Q3, ["return sum(c) + a"])
    raw([P("c", ["qlist", "bool", 3]), A("a", "bool")], "bool", ["return all(c) ^ a"])
    raw([P("c", ["qlist", "bool", 3]), A("a", "bool")], "bool", ["return any(c) and a"])
    raw([P("c", Q2), A("a", Q2)], Q4, ["return c * a"])
    raw([P("c", Q3), A("a", Q3)], Q3, ["return (a + c) % 4"])
    raw([P("c", ["qlist", Q2, 3]), A("a", Q2)], "bool", ["return len(c) == a"])
    raw([P("c", "bool"), A("a", Q2)], Q2, ["d, e = a, c", "return d + 1 if e else d"])
    # a bare `Parameter` annotation: bind removes it, from_function does not register it
    out.append({"name": f"ps_{k}", "rty": "bool", "lines": ["return a and c"],
                "args": [P("c", "bool"),
                         {"name": "d", "ty": "bool", "param": False, "ann": "Parameter", "ann_model": ["bare", ["name", "Parameter"]], "removed": True},
                         A("a", "bool")]})
    k += 1
    out.append({"name": f"ps_{k}", "rty": "bool", "lines": ["return a and c and d"],
                "args": [P("c", "bool"),
                         {"name": "d", "ty": "bool", "param": False, "ann": "Parameter", "ann_model": ["bare", ["name", "Parameter"]], "removed": True},
                         A("a", "bool")]})
    k += 1
    return out


SCALARS = ["bool", ["qint", 2], ["qint", 3], ["qint", 4]]


def gen_ty_param(rng):
    r = rng.random()
    if r < 0.25:
        return "bool"
    if r < 0.65:
        return ["qint", rng.choice([2, 3, 4, 5])]
    if r < 0.85:
        return ["tuple", [rng.choice(SCALARS[:3]) for _ in range(rng.randint(2, 3))]]
    return ["qlist", rng.choice(SCALARS[:3]), rng.randint(2, 3)]


def leaves(args, locs):
    """typed atoms: (exp, ty) for scalars reachable from variables"""
    out = []

    def go(e, t, depth):
        if t == "bool" or t[0] == "qint":
            out.append((e, t))
        elif depth < 2:
            for i, x in enumerate(ty_elems(t)):
                go(["idx", e, i], x, depth + 1)

    for n, t in list(args) + list(locs):
        go(["var", n], t, 0)
    return out


def gen_int(rng, lv, depth, need_var=True):
    ints = [(e, t) for e, t in lv if t != "bool"]
    if not ints:
        # no integer variable in scope: a bare literal (operators on two literals are folded by the library's
        # ConstantFolder with python semantics before typing, which the width model does not describe)
        return CI(rng.choice([0, 1, 2, 3, 4, 5, 7]))
    if depth <= 0 or rng.random() < 0.25:
        if ints and (need_var or rng.random() < 0.75):
            return rng.choice(ints)[0]
        return CI(rng.choice([0, 1, 2, 3, 4, 5, 7, 8, 12, 15]))
    r = rng.random()
    if r < 0.5:
        op = rng.choice(["add", "add", "sub", "band", "bor", "bxor"])
        l = gen_int(rng, lv, depth - 1, True)
        rr = gen_int(rng, lv, depth - 1, False)
        return B(op, l, rr) if rng.random() < 0.6 else B(op, rr, l)
    if r < 0.7:
        return B(rng.choice(["shl", "shr"]), gen_int(rng, lv, depth - 1, True), CI(rng.randint(0, 3)))
    if r < 0.78:
        return ["un", "inv", gen_int(rng, lv, depth - 1, True)]
    return ["ite", gen_bool(rng, lv, depth - 1), gen_int(rng, lv, depth - 1, True), gen_int(rng, lv, depth - 1, True)]


def gen_bool(rng, lv, depth):
    bools = [(e, t) for e, t in lv if t == "bool"]
    ints = [(e, t) for e, t in lv if t != "bool"]
    if (depth <= 0 or rng.random() < 0.2) and bools:
        e = rng.choice(bools)[0]
        return e if rng.random() < 0.8 else ["un", "not", e]
    r = rng.random()
    if r < 0.4 and ints:
        op = rng.choice(["eq", "ne", "lt", "le", "gt", "ge", "eq", "ne"])
        l = gen_int(rng, lv, depth - 1, True)
        rr = gen_int(rng, lv, depth - 1, False)
        return B(op, l, rr) if rng.random() < 0.5 else B(op, rr, l)
    if not bools:
        l = gen_int(rng, lv, 0, True)
        return B(rng.choice(["eq", "ne"]), l, CI(rng.randint(0, 3)))
    if r < 0.85:
        return B(rng.choice(["and", "or", "bxor", "eq", "ne"]), gen_bool(rng, lv, depth - 1), gen_bool(rng, lv, depth - 1))
    if r < 0.92:
        return ["un", "not", gen_bool(rng, lv, depth - 1)]
    return ["ite", gen_bool(rng, lv, depth - 1), gen_bool(rng, lv, depth - 1), gen_bool(rng, lv, depth - 1)]


def random_program(rng, idx, max_in_bits=7):
    npar = rng.choice([1, 1, 2, 2, 3])
    nargs = rng.choice([1, 1, 2])
    slots = ["p"] * npar + ["a"] * nargs
    rng.shuffle(slots)
    args, pi, ai, bits = [], 0, 0, 0
    for s in slots:
        if s == "p":
            args.append(P(PNAMES[pi], gen_ty_param(rng)))
            pi += 1
        else:
            t = rng.choice(SCALARS)
            if bits + ty_bits(t) > max_in_bits:
                t = "bool"
            bits += ty_bits(t)
            args.append(A(ANAMES[ai], t))
            ai += 1
    env = [(a["name"], a["ty"]) for a in args]
    locs, body = [], []
    for i in range(rng.choice([0, 0, 1, 2])):
        lv = leaves(env, locs)
        if rng.random() < 0.25:
            # re-assign a scalar parameter / argument
            cands = [(n, t) for n, t in env if t == "bool" or t[0] == "qint"]
            if cands:
                n, t = rng.choice(cands)
                e = gen_bool(rng, lv, 2) if t == "bool" else gen_int(rng, lv, 2)
                body.append([n, e])
                if t != "bool":
                    env = [(m, (["qint", 4] if m == n else tt)) for m, tt in env]
                continue
        if rng.random() < 0.5:
            body.append([f"t{i}", gen_bool(rng, lv, 2)])
            locs.append((f"t{i}", "bool"))
        else:
            body.append([f"t{i}", gen_int(rng, lv, 2)])
            locs.append((f"t{i}", ["qint", 4]))
    lv = leaves(env, locs)
    if rng.random() < 0.4:
        rty, ret = "bool", gen_bool(rng, lv, rng.randint(1, 3))
    else:
        rty, ret = ["qint", rng.choice([2, 3, 4, 5, 6])], gen_int(rng, lv, rng.randint(1, 3))
    return {"name": f"pr_{idx}", "args": args, "rty": rty, "body": body, "ret": ret}


# --------------------------------------------------------------------------- running the real code


def lib():
    import qlasskit
    from qlasskit import qlassfun

    return qlasskit, qlassfun


def oracle_fn(src, name):
    code = compile(src, "<c08-oracle>", "exec", flags=__future__.annotations.compiler_flag)
    env = {}
    exec(code, env)
    return env[name]


def eval_expressions(qf, assignment):
    """values of the symbols qf.expressions defines, under the input assignment (own evaluator)"""
    known = dict(assignment)
    for sym, exp in qf.expressions:
        known[sym.name] = bexp.eval_json(bexp.to_json(exp), known)
    return known


def exprs_json(qf):
    return [(sym.name, bexp.to_json(e)) for sym, e in qf.expressions]


def table_of(qf, free_args, rty):
    """decoded value of the bound function on every input of the remaining arguments
    (rows enumerated little-endian over the flat input bits), plus the raw return bits"""
    names = []
    for a in free_args:
        names.extend(names_of(a["name"], a["ty"]))
    code_names = []
    for a in qf.args:
        code_names.extend(a.bitvec)
    if code_names != names:
        return None, f"argument bits {code_names} != {names}"
    rnames = names_of("_ret", rty)
    if list(qf.returns.bitvec) != rnames:
        return None, f"return bits {list(qf.returns.bitvec)} != {rnames}"
    ej = exprs_json(qf)
    rows = []
    for k in range(2 ** len(names)):
        known = {n: bool((k >> i) & 1) for i, n in enumerate(names)}
        for s, e in ej:
            known[s] = bexp.eval_json(e, known)
        if any(r not in known for r in rnames):
            return None, "a return bit is not defined by the expressions"
        bits = [known[r] for r in rnames]
        rows.append((decode(rty, bits), "".join("1" if b else "0" for b in bits)))
    return rows, None


def row_inputs(free_args, k):
    vals, off = {}, 0
    for a in free_args:
        n = ty_bits(a["ty"])
        vals[a["name"]] = ty_value(a["ty"], (k >> off) % (2 ** n))
        off += n
    return vals


def ast_value_json(node):
    """the injected value as the model prints `toVal`: const / tuple trees"""
    if isinstance(node, ast.Constant):
        v = node.value
        if isinstance(v, bool):
            return ["const", ["b", v]]
        if isinstance(v, int):
            return ["const", ["i", v]]
        if isinstance(v, str):
            return ["const", ["s", v]]
        return ["const", ["?", repr(v)]]
    if isinstance(node, ast.Tuple):
        return ["tuple", [ast_value_json(x) for x in node.elts]]
    return ["?", ast.dump(node)]


def header_of(bound_ast, n_inj):
    """what bind handed to the translator: argument names, injected assignments, rest of the body"""
    fd = bound_ast.body[0]
    inj = []
    for st in fd.body[:n_inj]:
        if isinstance(st, ast.Assign) and len(st.targets) == 1 and isinstance(st.targets[0], ast.Name):
            inj.append([st.targets[0].id, None, ast_value_json(st.value)])
        elif isinstance(st, ast.AnnAssign) and isinstance(st.target, ast.Name):
            inj.append([st.target.id, ast.unparse(st.annotation), ast_value_json(st.value)])
        else:
            inj.append(["?", None, ast.dump(st)])
    return {"args": [a.arg for a in fd.args.args], "injected": inj,
            "rest": [ast.dump(s) for s in fd.body[n_inj:]], "body_len": len(fd.body)}


def ann_text(t):
    """the declared type as `ast.unparse` prints the annotation"""
    return ast.unparse(ast.parse(ty_src(t), mode="eval").body)


def model_ty_src(j):
    if j is None:
        return None
    if j == "bool":
        return "bool"
    if j[0] == "qint":
        return f"Qint[{j[1]}]"
    if j[0] == "tuple":
        return "Tuple[" + ", ".join(model_ty_src(x) for x in j[1]) + "]"
    return j[1]


def front_end_quirks():
    """probe the real front end for C01's narrow-left defects (flags of QV.Base.Quirks)"""
    qlasskit, _ = lib()
    out = []

    def value(src, x, rty):
        qf = qlasskit.qlassf(src, to_compile=False)
        known = {}
        for a in qf.args:
            for i, n in enumerate(a.bitvec):
                known[n] = bool((x[a.name] >> i) & 1)
        known = eval_expressions(qf, known)
        return [known[n] for n in qf.returns.bitvec]

    try:
        if value("def c08_pg(a: Qint[2], b: Qint[4]) -> bool:\n\treturn a > b", {"a": 0, "b": 4}, "bool") != [False]:
            out.append("gtLeftNarrow")
    except Exception:
        pass
    try:
        if value("def c08_ps(a: Qint[2], b: Qint[4]) -> Qint[4]:\n\treturn a - b", {"a": 3, "b": 0}, None) != [True, True, False, False]:
            out.append("subLeftNarrow")
    except Exception:
        pass
    return out


def fingerprint(u):
    return (ast.dump(u.fun_ast), json.dumps({k: ast.dump(v) for k, v in u.parameters.items()}))


class Checker:
    def __init__(self, ctx: Ctx, res: Result):
        self.ctx = ctx
        self.res = res
        self.active = [f.get("quirk") for f in ctx.findings if f.get("_active") and f.get("quirk")]
        self.stats = dict(programs=0, unbound=0, rejected_unbound=0, binds=0, rejected_binds=0, rows=0,
                          rows_python_agree=0, rows_out_of_range=0, rows_python_raises=0,
                          rows_type_drop=0, rows_front_end_c01=0, error_cases=0, width_rows=0,
                          width_programs=0, pysem_rows=0, fresh_checks=0, loop_bound_rejected=0,
                          typed_injections=0, bare_injections=0, out_of_domain_binds=0, typecast_refs=0)
        self.model_down = False
        # C01's listed defects of QintImp.gt / QintImp.sub reach C08 through the narrow injected constants: the
        # width-aware model takes them as quirks; whether they are still in the code is probed here
        self.wquirks = list(self.active) + front_end_quirks()
        # the repaired bind keeps the declared type of a keyword value that is a value of that type
        self.typed = QUIRK not in self.active
        from qlasskit.types import QINT_TYPES
        if tuple(sorted(t.BIT_SIZE for t in QINT_TYPES)) != QINT_WIDTHS:
            raise RuntimeError("harness/c08.py: QINT_WIDTHS is out of date with qlasskit.types.QINT_TYPES")

    # ---- helpers
    def model(self, reqs):
        if self.model_down:
            return None
        r = self.ctx.model(reqs)
        if r is None:
            self.model_down = True
        return r

    def case(self, p, kv=None, row=None, **kw):
        d = {"src": prog_src(p), "prog": p["name"]}
        if kv is not None:
            d["bind"] = [[k, v] for k, v in kv]
        if row is not None:
            d["inputs"] = row
        d.update(kw)
        return d

    # ---- one unbound object
    def check_program(self, p, rng, max_values, n_error=True):
        qlasskit, qlassfun = lib()
        res, st = self.res, self.stats
        st["programs"] += 1
        src = prog_src(p)
        params = [a for a in p["args"] if a["param"]]
        removed = [a for a in p["args"] if a["param"] or a.get("removed")]
        free = [a for a in p["args"] if not (a["param"] or a.get("removed"))]
        pm = prog_model(p)
        # --- from_function
        try:
            u = qlasskit.qlassf(src, to_compile=False)
        except Exception as e:  # noqa
            res.violation(self.case(p), f"a parameterised program is rejected before bind: {type(e).__name__}: {e}")
            return
        head = self.model([{"op": "c08.bind", "quirks": self.active, "prog": pm, "kv": []}])
        is_unbound = isinstance(u, qlassfun.UnboundQlassf)
        if not is_unbound:
            res.violation(self.case(p), "from_function does not return an UnboundQlassf for a function with Parameter[...] arguments")
            return
        st["unbound"] += 1
        code_params = [[k, ast.unparse(v)] for k, v in u.parameters.items()]
        want_params = [[a["name"], ast.unparse(ast.parse(ty_src(a["ty"]), mode="eval").body)] for a in params]
        if code_params != want_params:
            res.violation(self.case(p), "UnboundQlassf.parameters is not the list of Parameter[...] arguments",
                          code=code_params, expected=want_params)
        if head is not None:
            h = head[0]
            mp = h.get("parameters", [])
            if h.get("unbound") is not True or [k for k, _ in mp] != [k for k, _ in code_params] or \
                    mp != [[a["name"], ty_model(a["ty"])] for a in params]:
                res.disagree(self.case(p), "parameter detection: model != code", code=code_params, model=[h.get("unbound"), mp])
        try:
            u.expressions
            res.violation(self.case(p), "an unbound qlassf exposes expressions")
        except Exception:
            pass
        fp0 = fingerprint(u)
        body0 = [ast.dump(s) for s in u.fun_ast.body[0].body]
        pyf = oracle_fn(src, p["name"])
        in_bits = sum(ty_bits(a["ty"]) for a in free)
        nrows = 2 ** in_bits
        # --- the binds: values x keyword orders x history
        dom = 1
        for a in params:
            dom *= ty_domain_size(a["ty"])
        if dom <= max_values:
            idxs = list(range(dom))
        else:
            idxs = sorted(set([0, dom - 1] + [rng.randrange(dom) for _ in range(max_values - 2)]))

        def values_of(k):
            out = {}
            for a in params:
                n = ty_domain_size(a["ty"])
                out[a["name"]] = ty_value(a["ty"], k % n)
                k //= n
            return out

        perms = list(itertools.permutations([a["name"] for a in params]))
        plan = []
        for j, k in enumerate(idxs):
            plan.append((k, perms[j % len(perms)], values_of(k)))
        # keyword values that are NOT values of the declared type (an int that needs more bits than Qint[n] has,
        # inside a tuple too): bound as bare literals by the repaired bind as well; judged by the same oracles
        for j, a in enumerate(params):
            o = out_of_domain(a["ty"], values_of(idxs[-1])[a["name"]])
            if o is not None:
                vals = values_of(idxs[(j + 1) % len(idxs)])
                vals[a["name"]] = o
                plan.append((("ood", j), perms[j % len(perms)], vals))
                st["out_of_domain_binds"] += 1
        # repeated and alternating binds of values already used, in other keyword orders
        if len(idxs) >= 2:
            a0, a1 = idxs[0], idxs[-1]
            mid = idxs[len(idxs) // 2]
            for j, k in enumerate([a0, a1, a0, mid, a1, a1, a0]):
                plan.append((k, perms[(j + 1) % len(perms)], values_of(k)))
        else:
            plan.append((idxs[0], perms[-1], values_of(idxs[0])))
            plan.append((idxs[0], perms[0], values_of(idxs[0])))
        captured = {}
        orig_translate = u._do_translate

        def spy(fun_ast, original_f):
            # snapshot before the translator rewrites the tree in place
            captured["hd"] = header_of(fun_ast, captured.get("n", 0))
            return orig_translate(fun_ast, original_f)

        u._do_translate = spy
        first_table = {}
        reqs, req_meta = [], []
        try:
            for step, (k, order, vals) in enumerate(plan):
                kv = [(n, vals[n]) for n in order]
                st["binds"] += 1
                captured.clear()
                captured["n"] = len(kv)
                try:
                    qf = u.bind(**dict(kv))
                    err = None
                except Exception as e:  # noqa
                    qf, err = None, f"{type(e).__name__}: {e}"
                # purity, after every bind (successful or not)
                if fingerprint(u) != fp0:
                    res.violation(self.case(p, kv, step=step), "bind altered the unbound object (fun_ast / parameters)")
                    return
                case = self.case(p, kv)
                res.count({"src": src, "bind": sorted(map(list, kv)), "order": list(order)},
                          nontrivial=(len(params) >= 2 or in_bits >= 2), bucket=self.bucket(p))
                if "hd" in captured:
                    hd = captured["hd"]
                    # the property's own reading of the header, independent of the model
                    ptys = {a["name"]: a["ty"] for a in params}
                    want = {"args": [a["name"] for a in free],
                            "injected": [[n, (ann_text(ptys[n]) if self.typed and is_value_of(ptys[n], v) else None),
                                          expect_value_json(v)] for n, v in kv]}
                    for x in want["injected"]:
                        st["typed_injections" if x[1] is not None else "bare_injections"] += 1
                    if hd["args"] != want["args"]:
                        res.violation(case, "the bound function's arguments are not the non-parameter arguments in order",
                                      code=hd["args"], expected=want["args"])
                    if [(x[0], x[2]) for x in hd["injected"]] != [(x[0], _tupled(x[2])) for x in want["injected"]]:
                        res.violation(case, "the injected constants are not the keyword values in keyword order",
                                      code=hd["injected"], expected=want["injected"])
                    elif self.typed and [x[1] for x in hd["injected"]] != [x[1] for x in want["injected"]]:
                        # (with the listed defect active every injection is bare: that is the defect, attributed per row below)
                        res.violation(case, "the injected constants do not carry the declared Parameter[T] types (a value of T must be "
                                            "injected as `k: T = v`, any other value as a bare literal)",
                                      code=hd["injected"], expected=want["injected"])
                    if hd["rest"] != body0:
                        res.violation(case, "bind changed the body of the function")
                    if step < 3 or step % 5 == 0:
                        reqs.append({"op": "c08.bind", "quirks": self.active, "prog": pm,
                                     "kv": [[n, pyval_json(v)] for n, v in kv]})
                        req_meta.append(("header", case, hd))
                if err is not None:
                    st["rejected_binds"] += 1
                    if first_table.get(k, "none") not in ("none", "rejected"):
                        res.violation(case, f"a bind that succeeded before is now rejected: {err}")
                    first_table[k] = "rejected"
                    self.judge_rejection(p, kv, err, case)
                    continue
                tab, why = table_of(qf, free, p["rty"])
                if tab is None:
                    res.violation(case, f"bound function has the wrong interface: {why}")
                    continue
                if k in first_table:
                    if first_table[k] != tab:
                        res.violation(case, "binding the same values again (other keyword order / after other binds) gives a different function",
                                      step=step, code=[t[1] for t in tab], expected=[t[1] for t in first_table[k]] if first_table[k] != "rejected" else "rejected")
                    continue
                first_table[k] = tab
                self.judge_table(p, pm, kv, qf, tab, pyf, free, nrows, reqs, req_meta, case)
        finally:
            u._do_translate = orig_translate
        # --- a fresh object gives the same function as the much-bound one
        if plan:
            k, order, vals = plan[-1]
            try:
                u2 = qlasskit.qlassf(src, to_compile=False)
                t2, _ = table_of(u2.bind(**vals), free, p["rty"])
            except Exception:
                t2 = "rejected"
            st["fresh_checks"] += 1
            if first_table.get(k) is not None and t2 != first_table.get(k):
                res.violation(self.case(p, list(vals.items())), "a fresh unbound object binds to a different function than the one bound many times")
        # --- wrong arity / unknown names
        if n_error:
            self.check_errors(p, pm, u, fp0, values_of(idxs[0]), reqs, req_meta)
        # --- the model's replies
        self.run_model(p, reqs, req_meta)

    def bucket(self, p):
        params = [a for a in p["args"] if a["param"]]
        kinds = sorted({("bool" if a["ty"] == "bool" else a["ty"][0]) for a in params})
        return f"{len(params)}p:{'+'.join(kinds)}:{'raw' if 'lines' in p else 'expr'}"

    # ---- rejection of a bind with the right keywords
    def judge_rejection(self, p, kv, err, case):
        """bind refused values of the declared types: fine when the specialised source is refused by the
        front end too (e.g. a parameter as loop bound), never silently different"""
        qlasskit, _ = lib()
        try:
            qlasskit.qlassf(specialised_src(p, kv, typed=self.typed), to_compile=False)
            ok = True
        except Exception:
            ok = False
        if ok:
            self.res.violation(case, f"bind rejects values the front end accepts when they are written into the source: {err}")
        else:
            if any("range(" in l for l in body_lines(p)):
                self.stats["loop_bound_rejected"] += 1

    # ---- semantics of one bound function
    def judge_table(self, p, pm, kv, qf, tab, pyf, free, nrows, reqs, req_meta, case):
        qlasskit, _ = lib()
        res, st = self.res, self.stats
        # reference: the front end on the textually specialised source (no bind involved)
        ref = None
        try:
            # (an argument annotated with a bare `Parameter` has no textual counterpart: bind drops it, python keeps it)
            if not p_has_removed(p):
                rqf = qlasskit.qlassf(specialised_src(p, kv, typed=self.typed), to_compile=False)
                ref, _ = table_of(rqf, free, p["rty"])
        except Exception as e:  # noqa
            res.violation(case, f"bind accepts what the front end rejects on the textually specialised source: {type(e).__name__}: {e}")
        if self.typed and "body" in p and ref is not None:
            # second reference that does not go through the typed assignment: the library's typecasts at the leaves
            try:
                cqf = qlasskit.qlassf(specialised_src(p, kv, typed=True, casts=True), to_compile=False)
                cref, _ = table_of(cqf, free, p["rty"])
            except Exception as e:  # noqa
                cref = None
                res.violation(case, f"the source specialised with typecast constants is rejected: {type(e).__name__}: {e}")
            st["typecast_refs"] += 1
            if cref is not None and [t[1] for t in cref] != [t[1] for t in tab]:
                bad = next(i for i in range(nrows) if cref[i][1] != tab[i][1])
                res.violation(self.case(p, kv, row_inputs(free, bad)),
                              "the bound function differs from the front end's translation of the source specialised with typecast constants (Qint4(3), ...)",
                              code=tab[bad][1], expected=cref[bad][1])
                return
        if ref is not None and [t[1] for t in ref] != [t[1] for t in tab]:
            bad = next(i for i in range(nrows) if ref[i][1] != tab[i][1])
            res.violation(self.case(p, kv, row_inputs(free, bad)),
                          "the bound function differs from the front end's translation of the textually specialised source",
                          code=tab[bad][1], expected=ref[bad][1])
            return
        kvd = dict(kv)
        py_rows = []
        suspects = []
        for i in range(nrows):
            st["rows"] += 1
            x = row_inputs(free, i)
            try:
                raw = pyf(**kvd, **x, **{a["name"]: False for a in p["args"] if a.get("removed")})
                want = representable(p["rty"], raw)
                py_rows.append(("val", raw))
            except Exception as e:  # noqa
                st["rows_python_raises"] += 1
                py_rows.append(("exc", type(e).__name__))
                continue
            if want is None:
                st["rows_out_of_range"] += 1
                continue
            if tab[i][0] == want:
                st["rows_python_agree"] += 1
            else:
                suspects.append((i, want))
        # the bound object's original_f is the specialised python function
        for i in sorted({0, nrows - 1, nrows // 2}):
            x = row_inputs(free, i)
            try:
                got = ("val", qf.original_f(**x))
            except Exception as e:  # noqa
                got = ("exc", type(e).__name__)
            if not p_has_removed(p) and got != py_rows[i]:
                res.violation(self.case(p, kv, x), "original_f of the bound function is not the python function with the parameters set",
                              code=repr(got), expected=repr(py_rows[i]))
        # model requests: python values (all rows), width-aware values (all rows)
        if "body" in p:
            reqs.append({"op": "c08.eval", "alg": "py", "quirks": self.active, "prog": pm,
                         "kv": [[n, pyval_json(v)] for n, v in kv],
                         "rows": [[py_value(row_inputs(free, i)[a["name"]]) for a in free] for i in range(nrows)]})
            req_meta.append(("py", case, (py_rows, free)))
        if in_width_model(p):
            reqs.append({"op": "c08.eval", "alg": "w", "rty": ty_model(p["rty"]), "quirks": self.wquirks, "prog": pm,
                         "kv": [[n, pyval_json(v)] for n, v in kv],
                         "rows": [[w_value(a["ty"], row_inputs(free, i)[a["name"]]) for a in free] for i in range(nrows)]})
            req_meta.append(("w", case, (tab, suspects, free, kv)))
        else:
            # outside the width model: a row that disagrees with python while agreeing with the front end's
            # own translation of the specialised source is the front end's (C01), not bind's
            st["rows_front_end_c01"] += len(suspects)

    # ---- errors
    def check_errors(self, p, pm, u, fp0, vals, reqs, req_meta):
        res, st = self.res, self.stats
        names = list(vals.keys())
        free = [a["name"] for a in p["args"] if not a["param"]]
        cases = []
        cases.append([])  # nothing bound
        if len(names) > 1:
            cases.append([(n, vals[n]) for n in names[:-1]])  # one missing
            cases.append([(n, vals[n]) for n in names[1:]])
        cases.append([(n, vals[n]) for n in names] + [("zz", True)])  # one too many
        cases.append([(("zz" if i == len(names) - 1 else n), vals[n]) for i, n in enumerate(names)])  # unknown name, right arity
        cases.append([(("zz" if i == 0 else n), vals[n]) for i, n in enumerate(names)])
        if free:
            cases.append([((free[0] if i == 0 else n), vals[n]) for i, n in enumerate(names)])  # an ordinary argument's name
        if len(names) > 1:
            cases.append([("zz", 1), ("yy", 2)] + [(n, vals[n]) for n in names[2:]])  # two unknown: the first in keyword order is reported
        for kv in cases:
            st["error_cases"] += 1
            case = self.case(p, kv, kind="error")
            self.res.count({"src": case["src"], "bind": [list(x) for x in kv], "kind": "error"}, nontrivial=len(kv) > 0, bucket="errors")
            try:
                u.bind(**dict(kv))
                got = None
            except Exception as e:  # noqa
                got = str(e)
            # the property: keywords that are not exactly the parameters must raise
            if set(k for k, _ in kv) != set(names) or len(kv) != len(names):
                if got is None:
                    res.violation(case, "bind with wrong arity / unknown names does not raise")
            if fingerprint(u) != fp0:
                res.violation(case, "a rejected bind altered the unbound object")
            reqs.append({"op": "c08.bind", "quirks": self.active, "prog": pm, "kv": [[n, pyval_json(v)] for n, v in kv]})
            req_meta.append(("error", case, got))

    # ---- model replies
    def run_model(self, p, reqs, req_meta):
        res, st = self.res, self.stats
        if not reqs:
            return
        replies = self.model(reqs)
        if replies is None:
            return
        width_seen = False
        for rep, (kind, case, data) in zip(replies, req_meta):
            if "driver_error" in rep:
                res.disagree(case, f"model driver error: {rep['driver_error']}")
                continue
            if kind == "header":
                b = rep.get("bind", {})
                hd = data
                model_hd = {"args": b.get("args"), "injected": [[x[0], x[1], x[2]] for x in b.get("injected", [])],
                            "body_len": None if b.get("body_len") is None else b["body_len"] - len(prog_model(p).get("body", [])) + len(hd["rest"])}
                # the annotation the code injected, read as the model's Ty when it is the parameter's declared annotation
                decl = {a["name"]: (ann_text(a["ty"]), ty_model(a["ty"])) for a in p["args"] if a["param"]}
                code_inj = [[x[0], (decl[x[0]][1] if x[1] is not None and x[0] in decl and decl[x[0]][0] == x[1] else x[1]), x[2]]
                            for x in hd["injected"]]
                code_hd = {"args": hd["args"], "injected": code_inj, "body_len": hd["body_len"]}
                if model_hd != code_hd:
                    res.disagree(case, "bound AST header: model != code", code=code_hd, model=model_hd)
                if rep.get("detectors_agree") and b.get("still_unbound"):
                    res.disagree(case, "model: a bound program is still unbound")
            elif kind == "error":
                m = rep.get("bind", {}).get("error")
                if m != data:
                    res.disagree(case, "bind error: model != code", code=data, model=m)
            elif kind == "py":
                py_rows, free = data
                for i, (b, s) in enumerate(zip(rep["bound"], rep["spec"])):
                    if b != s:
                        res.disagree(case, "model: Sem(bind p kv) != Sem p (merge kv xs) (contradicts bind_sem)", model=[b, s], row=i)
                        break
                    if s is None:
                        continue
                    st["pysem_rows"] += 1
                    k, v = py_rows[i]
                    if k != "val" or py_value(v) != s or type(py_value(v)) is not type(s):
                        res.disagree(case, "Lean Sem in python values != CPython", code=repr(py_rows[i]), model=s, row=i)
                        break
            elif kind == "w":
                tab, suspects, free, kv = data
                bound, spec = rep["bound"], rep["spec"]
                if any(b is None for b in bound):
                    # the width model does not type this program (e.g. bool/int mix): nothing to compare
                    st["rows_front_end_c01"] += len(suspects)
                    continue
                width_seen = True
                bad = [i for i in range(len(tab)) if bound[i] != tab[i][1] and bound[i] is not (tab[i][0] if isinstance(tab[i][0], bool) else None)]
                bad = [i for i in bad if not (isinstance(bound[i], bool) and bound[i] == tab[i][0])]
                st["width_rows"] += len(tab)
                if bad:
                    i = bad[0]
                    res.disagree(self._with_row(case, free, i), "width-aware model (active quirks) != bits of the bound function",
                                 code=tab[i][1], model=bound[i])
                    st["rows_front_end_c01"] += len(suspects)
                    continue
                for i, want in suspects:
                    sp = w_decode(p["rty"], spec[i]) if not isinstance(spec[i], bool) else spec[i]
                    if QUIRK in self.active and sp == want and spec[i] != bound[i] and rep.get("spec_untyped", [None] * len(tab))[i] == bound[i]:
                        # python agrees with the unbound function at its declared types; the code computes the
                        # same function at the constants' minimal types: exactly the listed defect
                        st["rows_type_drop"] += 1
                        res.known(FID)
                    else:
                        st["rows_front_end_c01"] += 1
        if width_seen:
            st["width_programs"] += 1

    def _with_row(self, case, free, i):
        d = dict(case)
        d["inputs"] = row_inputs(free, i)
        return d


def out_of_domain(t, v):
    """v with one integer replaced by one that does not fit its declared Qint[n] (same python shape), or None"""
    if t == "bool":
        return None
    if t[0] == "qint":
        return 2 ** t[1] if t[1] <= 4 else None  # the first int that does not fit
    if t[0] in ("tuple", "qlist"):
        el = ty_elems(t)
        for i in range(len(el) - 1, -1, -1):
            o = out_of_domain(el[i], v[i])
            if o is not None:
                return tuple(list(v[:i]) + [o] + list(v[i + 1:]))
    return None


def _tupled(j):
    return j


def expect_value_json(v):
    """what the injected constant must be: lists / tuples become tuples of constants, element-wise"""
    if isinstance(v, (list, tuple)):
        return ["tuple", [expect_value_json(x) for x in v]]
    if isinstance(v, bool):
        return ["const", ["b", v]]
    if isinstance(v, int):
        return ["const", ["i", v]]
    return ["const", ["s", v]]


def p_has_removed(p):
    return any(a.get("removed") for a in p["args"])


# --------------------------------------------------------------------------- findings

WITNESS_SRC = "def test(c: Parameter[Qint[4]], a: Qint[4]) -> Qint[4]:\n\treturn (c << 2) + a"


def witness_fails(ctx: Ctx, f):
    if f.get("quirk") != QUIRK:
        return None
    qlasskit, _ = lib()
    w = f.get("witness", {})
    src = w.get("src", WITNESS_SRC)
    kv = w.get("bind", {"c": 3})
    x = w.get("inputs", {"a": 0})
    u = qlasskit.qlassf(src, to_compile=False)
    qf = u.bind(**kv)
    known = {}
    for a in qf.args:
        v = x[a.name]
        for i, n in enumerate(a.bitvec):
            known[n] = bool((v >> i) & 1)
    known = eval_expressions(qf, known)
    got = sum((1 << i) for i, n in enumerate(qf.returns.bitvec) if known[n])
    return got != w.get("expected", 12)


# --------------------------------------------------------------------------- run / replay


def all_programs(ctx, n_random):
    progs = [("sys", i, p) for i, p in enumerate(systematic_programs())]
    for i in range(n_random):
        prng = random.Random(f"C08-{ctx.seed}-{i}")
        progs.append(("rnd", i, random_program(prng, i, 8 if ctx.thorough else 7)))
    return progs


def run(ctx: Ctx) -> Result:
    res = Result("C08")
    ck = Checker(ctx, res)
    res.rule = (
        "case = (program source, keyword values in keyword order) or (program, wrong keyword set); every case is "
        "judged on ALL inputs of the remaining arguments; systematic slice (the suite's shapes, every operator x "
        "declared width x argument width x operand side, 1-3 parameters around ordinary arguments, tuples/lists, "
        "statements, loop bounds, a bare `Parameter` annotation) then random typed programs; per program ONE "
        "unbound object bound with all parameter values (domain <= limit, else sampled), rotating keyword orders, "
        "repeated/alternating binds; non-trivial = two or more parameters or two or more input bits"
    )
    n_random = 260 if ctx.thorough else 45
    max_values = 64 if ctx.thorough else 16
    for kind, i, p in all_programs(ctx, n_random):
        prng = random.Random(f"C08-{ctx.seed}-{kind}-{i}-values")
        ck.check_program(p, prng, 64 if (kind == "sys" and ctx.thorough) else max_values)
    res.extra["c08"] = ck.stats
    res.notes.append("rows where the bound function, the front end's translation of the textually specialised source and "
                     f"the width-aware model agree but CPython differs: {ck.stats['rows_front_end_c01']} attributed to the "
                     f"front end (C01: fixed-width arithmetic / its listed defects), {ck.stats['rows_type_drop']} to the listed "
                     "defect of bind (declared type dropped); rows whose python value does not fit the return type are not judged "
                     "against CPython but still against the other oracles")
    res.assumptions.append("C08: CPython's exec of the user's source is the meaning of 'the unbound Python function'; the front "
                           "end's translation of a parameter-free source (C01) is a hypothesis measured per row, not proved here")
    res.assumptions.append("C08: keyword arguments are distinct and argument names are distinct (guaranteed by CPython's call "
                           "and def syntax) - hypotheses KwOk / WellFormed of the theorems")
    if not res.violations and not res.disagreements:
        # (with a failing input in hand the verdict comes first)
        if ck.stats["programs"] and ck.stats["rejected_binds"] > ck.stats["binds"] // 2:
            raise RuntimeError("generator collapse: most binds are rejected")
        if ck.stats["rows"] and ck.stats["rows_python_agree"] < ck.stats["rows"] // 3:
            raise RuntimeError("generator collapse: too few rows comparable with CPython")
    return res


def replay(ctx: Ctx, payload):
    first = payload.get("first") or (payload.get("correspondence_disagreements") or [{}])[0]
    case = first.get("case", {})
    print("replaying", json.dumps(case)[:2000])
    src = case.get("src")
    if not src:
        return 2
    for f in ctx.findings:
        f["_active"] = bool(witness_fails(ctx, f)) if f.get("status", "open") == "open" else False
    res = Result("C08")
    ck = Checker(ctx, res)
    tier = payload.get("tier", "quick")
    ctx.tier = tier
    ctx.seed = payload.get("seed", 0)
    prog = None
    for kind, i, p in all_programs(ctx, 260 if tier == "thorough" else 45):
        if prog_src(p) == src:
            prog = (kind, i, p)
            break
    if prog is None:
        print("program not found in the generator stream")
        return 2
    kind, i, p = prog
    prng = random.Random(f"C08-{ctx.seed}-{kind}-{i}-values")
    ck.check_program(p, prng, 64 if (kind == "sys" and tier == "thorough") else (64 if tier == "thorough" else 16))
    for v in res.violations[:3]:
        print(json.dumps(v, indent=1, default=str)[:3000])
    for d in res.disagreements[:3]:
        print("DISAGREE", json.dumps(d, indent=1, default=str)[:2000])
    return 1 if (res.violations or res.disagreements) else 0
