"""C18 - the quadratic-model export has the function's minimisers as ground states.

pyqubo / dimod are NOT installed.  `harness/pyqubo_stub.py` is injected as `pyqubo` into this
process; it records the expression tree `qlasskit.bqm.to_bqm` builds.  The meaning of a tree is
the polynomial pyqubo's documentation gives per node (table in the stub) - a stated assumption.
What real pyqubo does with the tree (`compile`, `to_bqm/to_qubo/to_ising`: degree reduction with
further auxiliaries, offsets, spin conversion) is outside both the proofs and this comparison.

Always-on search on the real code (oracle independent of bqm.py / merge_expressions: the
*unmerged* expression list of the function evaluated definition by definition with
harness/bexp.py's evaluator):
  * programs through the real `qlassf(src).to_bqm(fmt)` and synthetic expression lists through
    the real `qlasskit.bqm.to_bqm(args, ret, exprs, fmt)`, every fmt;
  * energy(x) = min over the non-input variables of the tree's polynomial; the property itself:
    argmin energy == argmin #true-return-bits, zeros at energy 0, every argument bit the function
    depends on is mentioned, no foreign variable other than declared auxiliaries, same tree for
    every format;
  * `decode_samples`: bits spelled by the sample decode to the value an own decoder computes.
Correspondence: tree / exception class / energies / decoded values vs the Lean model
(QV.Model.Bqm) exactly; the model's `retVals` semantics vs the oracle's counts.
"""
from __future__ import annotations

import itertools
import json
import typing

from . import bexp
from . import pyqubo_stub as ps
from .common import Ctx, Result

LEVEL = "proof"
FMTS = ["bqm", "ising", "qubo", "pq_model"]
MAX_IN = 9  # input bits enumerated completely
MAX_AUX = 6

ASSUMPTIONS = [
    "pyqubo is not installed: harness/pyqubo_stub.py records the tree; node polynomials (And=ab, Or=a+b-ab, "
    "Not=1-a, Xor=a+b-2ab, AndConst=ab-2(a+b)c+3c, ...), operand counts and `+` with numbers are taken from "
    "pyqubo's documentation and cannot be checked against the library here",
    "what real pyqubo/dimod do with the tree (compile, to_bqm/to_qubo/to_ising incl. degree reduction and "
    "auxiliary variables, decode_sampleset) is outside both the proofs and the comparison; the four formats are "
    "compared only as far as 'the same tree reaches the exporter named by fmt'",
    "sympy's simplify_logic inside merge_expressions is not modelled: theorems assume it preserves truth tables; "
    "the harness checks the merged expressions' truth tables against the unmerged list on every case",
]


# ------------------------------------------------------------------ helpers on the real objects


def _imports():
    ps.install()
    import qlasskit  # noqa
    from qlasskit import bqm as qbqm
    from qlasskit.boolopt import bool_optimizer as bo
    from qlasskit.ast2logic.typing import Arg
    return qlasskit, qbqm, bo, Arg


def exc_class(e: BaseException) -> str:
    s = str(e)
    if isinstance(e, KeyError):
        return "KeyError"
    if isinstance(e, TypeError):
        return "TypeError"
    if isinstance(e, IndexError):
        return "IndexError"
    if isinstance(e, AttributeError) and "compile" in s:
        return "NoCompile"
    if "unable to translate" in s:
        return "Untranslatable"
    if "Problem is empty" in s:
        return "Empty"
    if "Unknown format" in s:
        return "UnknownFormat"
    if "Expression not handled" in s:
        return "NotHandled"
    return f"{type(e).__name__}: {s[:120]}"


def ty_json(t):
    if t is bool:
        return ["bool"]
    if hasattr(t, "BIT_SIZE_INTEGER"):
        return ["qfixed", t.BIT_SIZE_INTEGER, t.BIT_SIZE_FRACTIONAL]
    if getattr(t, "__name__", "") == "Qchar":
        return ["qchar"]
    if hasattr(t, "BIT_SIZE"):
        return ["qint", t.BIT_SIZE]
    sub = typing.get_args(t)
    if sub:
        return ["tuple"] + [ty_json(x) for x in sub]
    raise ValueError(f"type not modelled: {t!r}")


def ty_size(tj):
    k = tj[0]
    if k == "bool":
        return 1
    if k == "qint":
        return tj[1]
    if k == "qchar":
        return 8
    if k == "qfixed":
        return tj[1] + tj[2]
    return sum(ty_size(x) for x in tj[1:])


def own_decode(tj, bits):
    """independent decoder: bits in bit-vector order (LSB first)"""
    k = tj[0]
    if k == "bool":
        return {"b": bool(bits[0])}
    if k == "qint":
        return {"i": sum(1 << i for i, b in enumerate(bits[: tj[1]]) if b)}
    if k == "qchar":
        return {"c": sum(1 << i for i, b in enumerate(bits[:8]) if b)}
    if k == "qfixed":
        I, F = tj[1], tj[2]
        iv = sum(1 << i for i, b in enumerate(bits[:I]) if b)
        fv = sum(1 << (F - (i + 1)) for i, b in enumerate(bits[I:I + F]) if b)
        return {"f": iv * 2 ** F + fv}
    out, pos = [], 0
    for sub in tj[1:]:
        n = ty_size(sub)
        out.append(own_decode(sub, bits[pos:pos + n]))
        pos += n
    return {"t": out}


def code_val_json(tj, v):
    k = tj[0]
    if k == "bool":
        # the sample's 0/1 number is returned as it is (an int, `1 == True`)
        return {"b": bool(v)} if (isinstance(v, (bool, int)) and v in (0, 1)) else {"?": repr(v)}
    if k == "qint":
        return {"i": int(v.value)} if hasattr(v, "value") else {"?": repr(v)}
    if k == "qchar":
        return {"c": ord(v.value)} if hasattr(v, "value") else {"?": repr(v)}
    if k == "qfixed":
        if not hasattr(v, "value"):
            return {"?": repr(v)}
        sv = v.value * 2 ** tj[2]
        return {"f": int(sv)} if sv == int(sv) else {"?": repr(v.value)}
    if not isinstance(v, tuple) or len(v) != len(tj) - 1:
        return {"?": repr(v)}
    return {"t": [code_val_json(t, x) for t, x in zip(tj[1:], v)]}


def defs_json(exprs):
    return [[s.name, bexp.to_json(e)] for s, e in exprs]


def is_ret(name):
    return name[0:4] == "_ret"


def oracle_counts(names, exprs_j):
    """number of true return bits per assignment (row k: names[i] = bit i of k) and the vector of
    return bits, by evaluating the unmerged definitions in order"""
    counts, vecs = [], []
    for k in range(2 ** len(names)):
        env = {n: bool((k >> i) & 1) for i, n in enumerate(names)}
        vec = []
        for s, e in exprs_j:
            v = bexp.eval_json(e, env)
            if is_ret(s):
                vec.append(v)
            env[s] = v
        counts.append(sum(vec))
        vecs.append(tuple(vec))
    return counts, vecs


def tree_energies(tree_j, names, aux):
    """energy per input assignment = min over the auxiliaries; also the raw table over names+aux"""
    en = []
    for k in range(2 ** len(names)):
        env = {n: (k >> i) & 1 for i, n in enumerate(names)}
        best = None
        for bits in itertools.product((0, 1), repeat=len(aux)):
            env.update(zip(aux, bits))
            v = ps.eval_tree(tree_j, env)
            if best is None or v < best:
                best = v
        en.append(best)
    return en


def _nodes(j):
    yield j
    for x in j[1:]:
        if isinstance(x, list):
            yield from _nodes(x)


def refusal_justified(err, fmt, argbits, merged_j):
    """is there a reason (visible in the merged expressions / the format, not in bqm.py) for the exception
    class the real code raised?  Which reason wins when there are several is left to the model comparison."""
    if err == "UnknownFormat":
        return fmt not in FMTS
    if err == "Empty":
        return len(merged_j) == 0
    if err == "NoCompile":
        return len(merged_j) > 0 and all(e[0] in ("tt", "ff") for _, e in merged_j)
    if err == "Untranslatable":
        return any(n[0] in ("ite", "imp") for _, e in merged_j for n in _nodes(e))
    if err == "TypeError":
        return any((n[0] == "or" and len(n) != 3) or (n[0] in ("and", "xor") and len(n) < 3)
                   for _, e in merged_j for n in _nodes(e))
    if err == "KeyError":
        known = set(argbits)
        for s, e in merged_j:
            known.add(s)
            if any(n[0] == "sym" and n[1] not in known for n in _nodes(e)):
                return True
        return False
    return False


# ------------------------------------------------------------------ one case on the real code


class Subject:
    """a function as the real code sees it: args (Arg objects) + expression list"""

    def __init__(self, args, exprs, qf=None):
        self.args = args
        self.exprs = exprs
        self.qf = qf
        self.argbits = [b for a in args for b in a.bitvec]


def build_subject(case):
    qlasskit, qbqm, bo, Arg = _imports()
    if case["kind"] in ("prog", "decode"):
        # configuration: the optimizer profile the function is translated with (fast keeps the user's
        # intermediate definitions and re-bindings in the list to_bqm merges)
        opt = bo.fastOptimizer if case.get("profile") == "fast" else bo.defaultOptimizer
        qf = qlasskit.qlassf(case["src"], to_compile=False, bool_optimizer=opt)
        return Subject(list(qf.args), list(qf.expressions), qf)
    if case["kind"] == "direct":
        args = [Arg(n, None, list(bv)) for n, bv in case["args"]]
        exprs = []
        from sympy import Symbol
        for s, e in case["exprs"]:
            exprs.append((Symbol(s), bexp.from_json(e)))
        return Subject(args, exprs)
    raise ValueError(case["kind"])


def real_export(sub: Subject, fmt):
    """(tree json | None, exception class | None, fmt tag the stub saw)"""
    qlasskit, qbqm, bo, Arg = _imports()
    try:
        r = qbqm.to_bqm(sub.args, None, list(sub.exprs), fmt) if sub.qf is None else sub.qf.to_bqm(fmt)
    except Exception as e:  # noqa
        return None, exc_class(e), None
    if isinstance(r, ps.Model):
        return r.tree.to_json(), None, "pq_model"
    if isinstance(r, ps.Exported):
        return r.tree.to_json(), None, r.fmt
    return None, f"unexpected return {type(r).__name__}", None


def evaluate_case(ctx, res: Result, case, reqs, pending):
    """run one export case on the real code, judge the property, queue the model requests"""
    qlasskit, qbqm, bo, Arg = _imports()
    try:
        sub = build_subject(case)
    except Exception as e:  # the front end rejected the program: not a subject of this property
        res.count(case, nontrivial=False, bucket="frontend-rejected")
        return
    try:
        exprs_j = defs_json(sub.exprs)
        merged = bo.merge_expressions(list(sub.exprs))
        merged_j = defs_json(merged)
    except ValueError as e:
        res.count(case, nontrivial=False, bucket="not-modelled-expression")
        return
    names = sub.argbits
    if len(names) > MAX_IN:
        res.count(case, nontrivial=False, bucket="too-wide")
        return
    fmt = case.get("fmt", "pq_model")
    tree, err, tag = real_export(sub, fmt)
    counts, vecs = oracle_counts(names, exprs_j)
    info = dict(exprs=exprs_j, merged=merged_j, argbits=names)
    bare = any(e[0] == "sym" for _, e in merged_j)
    failures = []
    nontrivial = err is None and len(set(counts)) > 1
    bucket = ("ok" if err is None else "rejected:" + err.split(":")[0]) + ("/bare" if bare else "")
    res.count(case, nontrivial=nontrivial, bucket=bucket)
    # merged expressions must denote the same return bits (hypothesis of the theorems on `simp`)
    try:
        mcounts, mvecs = oracle_counts(names, merged_j)
        if mvecs != vecs or [s for s, _ in merged_j] != [s for s, _ in exprs_j if is_ret(s)]:
            failures.append(("merge_expressions changed the function", dict(expected=vecs[:16], code=mvecs[:16])))
    except Exception as e:  # noqa
        failures.append((f"merged expressions not evaluable: {e}", {}))
    code = dict(error=err) if err else dict(tree=tree)
    if err is None:
        tv = ps.tree_vars(tree)
        aux = [v for v in tv if v not in names]
        if fmt not in FMTS:
            failures.append(("an unknown format was accepted", dict(fmt=fmt)))
        elif tag != fmt:
            failures.append(("the exporter called is not the one named by fmt", dict(fmt=fmt, called=tag)))
        # same tree for every offered format
        for f2 in FMTS:
            if f2 == fmt:
                continue
            t2, e2, tag2 = real_export(sub, f2)
            if t2 != tree or tag2 != f2:
                failures.append((f"format {f2} does not export the same model as {fmt}", dict(tree=t2, error=e2, called=tag2)))
                break
        foreign = [v for v in aux if not (is_ret(v) and v in [s for s, _ in merged_j]) and not v.endswith("_aux")]
        if foreign:
            failures.append(("the model mentions a variable foreign to the function", dict(foreign=foreign)))
        if len(aux) <= MAX_AUX:
            en = tree_energies(tree, names, aux)
            code["energies"] = en
            mc, me = min(counts), min(en)
            amin_c = [k for k, c in enumerate(counts) if c == mc]
            amin_e = [k for k, c in enumerate(en) if c == me]
            if amin_c != amin_e:
                k = sorted(set(amin_c) ^ set(amin_e))[0]
                failures.append(("the minimum-energy inputs are not the inputs making the fewest return bits true",
                                 dict(expected_argmin=amin_c[:32], code_argmin=amin_e[:32],
                                      input={n: (k >> i) & 1 for i, n in enumerate(names)},
                                      true_bits_there=counts[k], energy_there=en[k], min_energy=me, min_true_bits=mc)))
            elif mc == 0 and me != 0:
                failures.append(("the zeros of the function are not at energy zero", dict(min_energy=me)))
        for i, b in enumerate(names):
            dep = any(vecs[k] != vecs[k ^ (1 << i)] for k in range(2 ** len(names)))
            if dep and b not in tv:
                failures.append(("an argument bit the function depends on is not in the model", dict(bit=b)))
                break
    elif not refusal_justified(err, fmt, names, merged_j):
        failures.append(("to_bqm refused a function it has no stated reason to refuse", dict(error=err)))
    # model requests: current behaviour (active quirks) and, for attribution, explicitly with the quirk
    active = [f["quirk"] for f in ctx.findings if f.get("_active") and f.get("quirk")]
    base = dict(op="c18.tobqm", argbits=names, merged=merged_j, fmt=fmt)
    if err is None:
        tvs = ps.tree_vars(tree)
        if len(tvs) <= MAX_IN + MAX_AUX:
            base["names"] = tvs
            code["table"] = [ps.eval_tree(tree, {n: (k >> i) & 1 for i, n in enumerate(tvs)}) for k in range(2 ** len(tvs))]
    i0 = len(reqs)
    reqs.append(dict(base, quirks=active))
    reqs.append(dict(base, quirks=["retSymbolAndConst"]))
    reqs.append(dict(op="c18.retvals", exprs=exprs_j, names=names))
    pending.append(dict(case=case, info=info, code=code, failures=failures, i0=i0, bare=bare, counts=counts))


def settle(ctx, res: Result, pending, replies):
    """correspondence + attribution, after the model answered"""
    open_ret = [f for f in ctx.findings if f.get("status", "open") == "open" and f.get("_active")
                and f.get("quirk") == "retSymbolAndConst"]
    for p in pending:
        case, code = p["case"], p["code"]
        rep = qrep = rv = None
        if replies is not None:
            rep, qrep, rv = replies[p["i0"]], replies[p["i0"] + 1], replies[p["i0"] + 2]

        def same(r):
            if r is None:
                return False
            if "error" in code:
                return r.get("error") == code["error"]
            return r.get("tree") == code["tree"]

        if replies is not None:
            if not same(rep):
                res.disagree(case, "model and code build different trees / exceptions", code=code.get("tree", code.get("error")),
                             model=rep.get("tree", rep.get("error", rep)), info=p["info"])
            elif "table" in code and rep.get("energies") != code["table"]:
                res.disagree(case, "model polynomial and reference polynomial differ on the same tree",
                             code=code["table"][:32], model=(rep.get("energies") or [])[:32])
            if rv.get("counts") != p["counts"] or rv.get("counts_merged") != p["counts"]:
                res.disagree(case, "model semantics of the expression list (retVals / merge) differs from the oracle",
                             code=p["counts"][:32], model=rv)
        for what, detail in p["failures"]:
            attributable = (
                open_ret and p["bare"] and "error" not in code and same(qrep)
                and what.startswith(("the minimum-energy inputs", "the zeros of the function"))
            )
            if attributable:
                res.known(open_ret[0]["id"])
            else:
                res.violation(case, what, code=code.get("tree", code.get("error")), detail=detail, info=p["info"])


# ------------------------------------------------------------------ generators

SYSTEMATIC = [
    "def f(a: bool) -> bool:\n    return a",
    "def f(a: bool) -> bool:\n    return not a",
    "def f(a: bool) -> bool:\n    return True",
    "def f(a: bool) -> bool:\n    return False",
    "def f(a: bool, b: bool) -> bool:\n    return a and b",
    "def f(a: bool, b: bool) -> bool:\n    return a or b",
    "def f(a: bool, b: bool) -> bool:\n    return a ^ b",
    "def f(a: bool, b: bool) -> bool:\n    return a == b",
    "def f(a: bool, b: bool) -> bool:\n    return a != b",
    "def f(a: bool, b: bool) -> bool:\n    return a and not b",
    "def f(a: bool, b: bool) -> bool:\n    return b",
    "def f(a: bool, b: bool, c: bool) -> bool:\n    return a and b and c",
    "def f(a: bool, b: bool, c: bool) -> bool:\n    return a or b or c",
    "def f(a: bool, b: bool, c: bool) -> bool:\n    return a ^ b ^ c",
    "def f(a: bool, b: bool, c: bool, d: bool) -> bool:\n    return a ^ b ^ c ^ d",
    "def f(a: bool, b: bool, c: bool, d: bool) -> bool:\n    return a and b and c and d",
    "def f(a: bool, b: bool, c: bool) -> bool:\n    return (a and b) or (not a and c)",
    "def f(a: bool, b: bool, c: bool) -> bool:\n    return b if a else c",
    "def f(a: bool, b: bool, c: bool) -> bool:\n    d = a and b\n    e = d ^ c\n    return e or d",
    "def f(a: bool, b: bool) -> Tuple[bool, bool]:\n    return (a and b, a or b)",
    "def f(a: bool, b: bool) -> Tuple[bool, bool]:\n    return (b, a)",
    "def f(a: bool, b: bool) -> Tuple[bool, bool]:\n    return (a, a ^ b)",
    "def f(a: bool, b: bool) -> Tuple[bool, bool]:\n    return (True, a ^ b)",
    "def f(a: bool, b: bool) -> Tuple[bool, bool]:\n    return (True, False)",
    "def f(a: Qint2) -> Qint2:\n    return a",
    "def f(a: Qint2) -> Qint2:\n    return a + 1",
    "def f(a: Qint2, b: Qint2) -> Qint2:\n    return a + b",
    "def f(a: Qint2, b: Qint2) -> Qint2:\n    return a - b",
    "def f(a: Qint2, b: Qint2) -> Qint4:\n    return a * b",
    "def f(a: Qint2, b: Qint2) -> bool:\n    return a == b",
    "def f(a: Qint2, b: Qint2) -> bool:\n    return a != b",
    "def f(a: Qint2, b: Qint2) -> bool:\n    return a > b",
    "def f(a: Qint2, b: Qint2) -> bool:\n    return a < b",
    "def f(a: Qint2, b: Qint2) -> bool:\n    return a >= b",
    "def f(a: Qint2, b: Qint2) -> bool:\n    return a <= b",
    "def f(a: Qint2) -> bool:\n    return a == 2",
    "def f(a: Qint2) -> bool:\n    return a != 2",
    "def f(a: Qint4) -> bool:\n    return a > 5",
    "def f(a: Qint4) -> Qint4:\n    return a >> 1",
    "def f(a: Qint4) -> Qint4:\n    return a << 1",
    "def f(a: Qint2, b: bool) -> Qint2:\n    return a if b else 3",
    "def f(a: Qint2, b: Qint2) -> Qint2:\n    return a & b",
    "def f(a: Qint2, b: Qint2) -> Qint2:\n    return a | b",
    "def f(a: Qint2, b: Qint2) -> Qint2:\n    return a ^ b",
    "def f(a: Tuple[bool, Qint2]) -> bool:\n    return a[0] and a[1] == 2",
    "def f(a: Tuple[bool, bool]) -> Tuple[bool, bool]:\n    return (a[1], a[0])",
    "def f(a: Qlist[bool, 3]) -> bool:\n    return a[0] and a[1] or a[2]",
    "def f(a: Qint4, b: Qint4) -> bool:\n    return a + b == 3",
    "def f(a: Qint2, b: Qint2, c: Qint2) -> bool:\n    return a + b == c",
    "def f(a: Qchar) -> bool:\n    return a == 'z'",
    "def f(a: Qfixed1_2, b: Qfixed1_2) -> bool:\n    return a > b",
    "def f(a: bool, b: bool, c: bool) -> Qint2:\n    return 1 if a and b else (2 if c else 0)",
]

# programs whose definition list, under the fast profile, re-binds names and reads them before and after
REBIND_PROGRAMS = [
    "def f(a: bool, b: bool, e: bool) -> bool:\n    c = a and b\n    d = c or e\n    c = not a\n    return d and c",
    "def f(a: bool, b: bool, c: bool) -> Tuple[bool, bool]:\n    t = a ^ b\n    u = t and c\n    t = t or c\n    return (u, t)",
    "def f(a: bool, b: bool, c: bool) -> bool:\n    x = (a or b) and c\n    a = not a\n    y = (a or b) and c\n    return x ^ y",
    "def f(a: Qint2, b: bool) -> Qint2:\n    c = a\n    if b:\n        c = a + 1\n    a = c\n    return a",
    "def f(a: bool, b: bool) -> Tuple[bool, bool, bool]:\n    t = a and b\n    return (t, t, not t)",
]


def gen_bool(rng, env, depth):
    """env: list of (python expr text, type tag) leaves"""
    bools = [n for n, t in env if t == "bool"]
    ints = [(n, t) for n, t in env if t != "bool"]
    r = rng.random()
    if depth <= 0 or r < 0.18:
        if bools and (not ints or rng.random() < 0.7):
            return rng.choice(bools)
        if ints:
            n, t = rng.choice(ints)
            return f"({n} {rng.choice(['==', '!=', '>', '<', '>=', '<='])} {rng.randrange(2 ** int(t[4:]))})"
        return rng.choice(["True", "False"])
    if r < 0.30:
        return f"(not {gen_bool(rng, env, depth - 1)})"
    if r < 0.62:
        op = rng.choice(["and", "or", "^", "and", "or", "==", "!="])
        n = 2 if op in ("==", "!=") else rng.choice([2, 2, 3, 4])
        return "(" + f" {op} ".join(gen_bool(rng, env, depth - 1) for _ in range(n)) + ")"
    if r < 0.72:
        return f"({gen_bool(rng, env, depth - 1)} if {gen_bool(rng, env, depth - 1)} else {gen_bool(rng, env, depth - 1)})"
    if ints:
        a = gen_int(rng, env, depth - 1)
        b = gen_int(rng, env, depth - 1)
        return f"({a} {rng.choice(['==', '!=', '>', '<', '>=', '<='])} {b})"
    return gen_bool(rng, env, depth - 1)


def gen_int(rng, env, depth):
    ints = [(n, t) for n, t in env if t != "bool"]
    r = rng.random()
    if depth <= 0 or r < 0.4 or not ints:
        if ints and rng.random() < 0.75:
            return rng.choice(ints)[0]
        return str(rng.randrange(4))
    if r < 0.8:
        return f"({gen_int(rng, env, depth - 1)} {rng.choice(['+', '-', '+', '&', '|', '^'])} {gen_int(rng, env, depth - 1)})"
    return f"({gen_int(rng, env, depth - 1)} if {gen_bool(rng, env, depth - 1)} else {gen_int(rng, env, depth - 1)})"


def gen_program(rng):
    nargs = rng.choice([1, 2, 2, 3, 3, 4])
    args, env, bits = [], [], 0
    for i in range(nargs):
        nm = "abcd"[i]
        t = rng.choice(["bool", "bool", "bool", "Qint2", "Qint2", "Qint4", "tuple"])
        if t == "tuple" and bits + 3 <= MAX_IN:
            args.append(f"{nm}: Tuple[bool, Qint2]")
            env += [(f"{nm}[0]", "bool"), (f"{nm}[1]", "Qint2")]
            bits += 3
        elif t in ("Qint2", "Qint4") and bits + int(t[4:]) <= MAX_IN:
            args.append(f"{nm}: {t}")
            env.append((nm, t))
            bits += int(t[4:])
        else:
            args.append(f"{nm}: bool")
            env.append((nm, "bool"))
            bits += 1
    body = []
    for k in range(rng.choice([0, 0, 1, 2])):
        if rng.random() < 0.75 or not any(t != "bool" for _, t in env):
            body.append(f"    t{k} = {gen_bool(rng, env, 2)}")
            env.append((f"t{k}", "bool"))
        else:
            body.append(f"    t{k} = {gen_int(rng, env, 1)}")
    rk = rng.random()
    d = rng.choice([2, 2, 3, 3])
    if rk < 0.55:
        rt, rexp = "bool", gen_bool(rng, env, d)
    elif rk < 0.8:
        n = rng.choice([2, 2, 3])
        rt = "Tuple[" + ", ".join(["bool"] * n) + "]"
        rexp = "(" + ", ".join(gen_bool(rng, env, d - 1) for _ in range(n)) + ")"
    else:
        rt, rexp = rng.choice(["Qint2", "Qint4"]), gen_int(rng, env, d)
    return f"def f({', '.join(args)}) -> {rt}:\n" + "\n".join(body + [f"    return {rexp}"])


def gen_bexp(rng, leaves, depth):
    r = rng.random()
    if depth <= 0 or r < 0.2:
        if rng.random() < 0.06:
            return [rng.choice(["tt", "ff"])]
        return ["sym", rng.choice(leaves)]
    if r < 0.33:
        return ["not", gen_bexp(rng, leaves, depth - 1)]
    if r < 0.55:
        return ["and"] + [gen_bexp(rng, leaves, depth - 1) for _ in range(rng.choice([2, 2, 3, 4]))]
    if r < 0.72:
        return ["or"] + [gen_bexp(rng, leaves, depth - 1) for _ in range(rng.choice([2, 2, 2, 3]))]
    if r < 0.9:
        return ["xor"] + [gen_bexp(rng, leaves, depth - 1) for _ in range(rng.choice([2, 2, 3, 4]))]
    if r < 0.96:
        return ["ite"] + [gen_bexp(rng, leaves, depth - 1) for _ in range(3)]
    return ["imp"] + [gen_bexp(rng, leaves, depth - 1) for _ in range(2)]


def gen_direct(rng):
    nb = rng.choice([1, 2, 3, 3, 4, 5])
    if rng.random() < 0.5:
        args = [[f"v{i}", [f"v{i}"]] for i in range(nb)]
    else:
        args = [["a", [f"a.{i}" for i in range(nb)]]]
    leaves = [b for _, bv in args for b in bv]
    exprs = []
    for k in range(rng.choice([0, 0, 1, 2, 3])):
        # now and then an intermediate name is defined a second time (the later definition wins)
        nm = f"x{k}" if (k == 0 or rng.random() < 0.7) else f"x{rng.randrange(k)}"
        exprs.append([nm, gen_bexp(rng, leaves, rng.choice([1, 2]))])
        if nm not in leaves:
            leaves = leaves + [nm]
    nret = rng.choice([1, 1, 2, 3])
    for k in range(nret):
        nm = "_ret" if nret == 1 else f"_ret.{k}"
        exprs.append([nm, gen_bexp(rng, leaves, rng.choice([0, 1, 1, 2, 2, 2, 3, 3]))])
    r = rng.random()
    fmt = rng.choice(FMTS) if r < 0.93 else rng.choice(["bqn", "", "QUBO"])
    if rng.random() < 0.02:
        exprs = [e for e in exprs if not is_ret(e[0])]
    # canonical sympy form of the expressions (what the real code would hold)
    canon = []
    for s, e in exprs:
        canon.append([s, bexp.to_json(bexp.from_json(e))])
    return dict(kind="direct", args=args, exprs=canon, fmt=fmt)


# ------------------------------------------------------------------ decode_samples


class _Rand:
    """stand-in for the `random` module inside qlasskit.bqm while decode_samples runs: records the draws"""

    def __init__(self, rng):
        self.rng = rng
        self.draws = []

    def randint(self, a, b):
        v = self.rng.randint(a, b)
        self.draws.append(v)
        return v


def decode_case(ctx, res: Result, case, reqs, pending):
    qlasskit, qbqm, bo, Arg = _imports()
    try:
        sub = build_subject(case)
        args_j = [dict(name=a.name, ty=ty_json(a.ttype), bitvec=list(a.bitvec)) for a in sub.args]
    except Exception:  # noqa
        res.count(case, nontrivial=False, bucket="decode-frontend-rejected")
        return
    samples = case["samples"]  # list of [ [[var, 0/1]...], energy ]
    rec = _Rand(ctx.rng.__class__(case.get("rseed", 0)))
    # the module's `random` is replaced by a recording one; a tree whose bqm.py does not import random at all
    # (it may fill unspelled bits some other way) is observed without it
    _missing = object()
    old = getattr(qbqm, "random", _missing)

    def _restore():
        if old is _missing:
            if hasattr(qbqm, "random"):
                delattr(qbqm, "random")
        else:
            qbqm.random = old

    qbqm.random = rec
    try:
        out = qbqm.decode_samples(sub.qf, [(dict(s), e) for s, e in samples])
    except Exception as e:  # noqa
        _restore()
        t, err, _ = real_export(sub, "pq_model")
        if err is not None:
            res.count(case, nontrivial=False, bucket="decode-rejected:" + err.split(":")[0])
            return
        res.count(case, bucket="decode")
        res.violation(case, f"decode_samples raised {type(e).__name__}: {e}")
        return
    finally:
        _restore()
    res.count(case, bucket="decode")
    draws = list(rec.draws)
    if len(out) != len(samples):
        res.violation(case, "decode_samples does not return one entry per sample", code=len(out))
        return
    for (s, en), dec in zip(samples, out):
        sd = dict(s)
        fill, code_vals, bad = [], [], None
        for a, aj in zip(sub.args, args_j):
            if len(a.bitvec) != ty_size(aj["ty"]):
                bad = ("argument bit-vector length differs from the size of its type", dict(arg=a.name))
                break
            got = code_val_json(aj["ty"], dec.sample.get(a.name))
            bits = []
            for b in a.bitvec:
                if b in sd:
                    bits.append(sd[b])
                else:
                    v = draws.pop(0) if draws else 0
                    fill.append([b, v])
                    bits.append(v)
            code_vals.append([a.name, got])
            # the property: the bits the sample spells are the bits of the decoded value
            exp = own_decode(aj["ty"], bits)
            if "?" in json.dumps(got) or got != exp:
                bad = ("decoded argument differs from the value spelled by the sample's input variables",
                       dict(arg=a.name, bits=bits, expected=exp, code=got))
                break
        if bad is None and (dec.energy != en or sorted(dec.sample.keys()) != sorted(a.name for a in sub.args)):
            bad = ("decoded sample does not carry the sample's energy / exactly the arguments", dict(energy=dec.energy, keys=list(dec.sample.keys())))
        if bad is not None:
            res.violation(case, bad[0], detail=bad[1], sample=s)
            continue
        reqs.append(dict(op="c18.decode", args=args_j, sample=[[k, int(v)] for k, v in s], fill=fill))
        pending.append(dict(case=case, code=code_vals, sample=s))


def settle_decode(res, pending, replies, off):
    if replies is None:
        return
    for p, rep in zip(pending, replies[off:]):
        if rep.get("values") != p["code"]:
            res.disagree(p["case"], "model and code differ on decode_samples", code=p["code"], model=rep, sample=p["sample"])


def gen_samples(rng, sub, tree_vars):
    names = list(sub.argbits)
    out = []
    for _ in range(rng.choice([1, 2, 3])):
        mode = rng.random()
        vs = list(dict.fromkeys(tree_vars + (names if mode < 0.5 else [])))
        if mode > 0.85 and vs:
            vs = [v for v in vs if rng.random() < 0.7]
        s = [[v, rng.randint(0, 1)] for v in vs]
        out.append([s, rng.randint(0, 5)])
    return out


# ------------------------------------------------------------------ entry points


def run(ctx: Ctx) -> Result:
    res = Result("C18")
    res.assumptions = list(ASSUMPTIONS)
    rng = ctx.rng
    res.rule = (
        "case = (program source | synthetic (args, expression list), fmt); systematic slice: one program per "
        "operator/type at the smallest size (x each of the 4 formats), then random typed programs through the real "
        "qlassf front end and random sympy expression lists (n-ary And/Or/Xor, Not, ITE, Implies, constants, "
        "intermediate definitions, 1-3 return bits, occasionally an unknown format / no return) through "
        "qlasskit.bqm.to_bqm directly, all drawn from the seeded rng; every input assignment of every case is "
        "enumerated (<= 9 input bits); non-trivial = a model was built and the number of true return bits is not "
        "constant; decode cases = (program, random sample sets over the model's variables, with and without "
        "missing / extra variables)"
    )
    reqs, pending = [], []
    cases = []
    for src in SYSTEMATIC + REBIND_PROGRAMS:
        for fmt in FMTS:
            cases.append(dict(kind="prog", src=src, fmt=fmt))
    for i, src in enumerate(SYSTEMATIC + REBIND_PROGRAMS):  # every program once under the fast profile
        cases.append(dict(kind="prog", src=src, fmt=FMTS[i % len(FMTS)], profile="fast"))
    n_prog = 2500 if ctx.thorough else 350
    n_direct = 12000 if ctx.thorough else 1500
    for _ in range(n_prog):
        cases.append(dict(kind="prog", src=gen_program(rng), fmt=rng.choice(FMTS)))
    for _ in range(n_direct):
        cases.append(gen_direct(rng))
    for c in [c for c in cases if c["kind"] == "prog" and "profile" not in c][len(FMTS) * len(SYSTEMATIC)::5]:
        cases.append(dict(c, profile="fast"))  # drawn last: the streams above see the same random numbers
    for case in cases:
        evaluate_case(ctx, res, case, reqs, pending)
    replies = ctx.model(reqs)
    settle(ctx, res, pending, replies)
    # decode_samples
    dreqs, dpending = [], []
    progs = [c for c in cases if c["kind"] == "prog"]
    seen = set()
    n_dec = 600 if ctx.thorough else 150
    decode_srcs = [c["src"] for c in progs[::4][: len(SYSTEMATIC)]] + [
        "def f(a: Qfixed1_2, b: Qchar) -> bool:\n    return a > 0.5 and b == 'a'",
        "def f(a: Tuple[Qint2, Tuple[bool, Qint4]], b: Qlist[Qint2, 2]) -> bool:\n    return a[0] == b[0] and a[1][0]",
        "def f(a: Qint8, b: bool) -> bool:\n    return (a == 200) != b",
    ]
    decode_srcs += [c["src"] for c in progs[4 * len(SYSTEMATIC):][:n_dec]]
    for src in decode_srcs:
        if src in seen:
            continue
        seen.add(src)
        try:
            sub = build_subject(dict(kind="prog", src=src))
            t, err, _ = real_export(sub, "pq_model")
        except Exception:  # noqa
            continue
        tv = ps.tree_vars(t) if t is not None else list(sub.argbits)
        case = dict(kind="decode", src=src, samples=gen_samples(rng, sub, tv), rseed=rng.randrange(10 ** 6))
        decode_case(ctx, res, case, dreqs, dpending)
    dreplies = ctx.model(dreqs)
    settle_decode(res, dpending, dreplies, 0)
    res.exhaustive = False
    res.notes.append("pyqubo is replaced by a recording stub (harness/pyqubo_stub.py); what real pyqubo does with the "
                     "tree (compile/to_bqm/to_qubo/to_ising/decode_sampleset) is outside both proof and comparison")
    res.notes.append("cases where to_bqm raises (Or with more than two operands -> TypeError from pyqubo.Or's signature; "
                     "ITE/Implies under an Xor -> 'unable to translate'; all return bits constant -> no .compile()) build no "
                     "model: counted in the histogram as rejected:*, the property is vacuous there, the exception class "
                     "is compared with the model")
    res.notes.append("decode_samples returns the sample's 0/1 number itself for a bool argument (an int equal to the bool)")
    return res


def _run_single(ctx, case):
    res = Result("C18")
    reqs, pending = [], []
    if case.get("kind") == "decode":
        decode_case(ctx, res, case, reqs, pending)
        settle_decode(res, pending, ctx.model(reqs), 0)
    else:
        evaluate_case(ctx, res, case, reqs, pending)
        settle(ctx, res, pending, ctx.model(reqs))
    return res


def witness_fails(ctx: Ctx, f):
    w = f.get("witness", {})
    case = dict(kind="prog", src=w["src"], fmt=w.get("fmt", "pq_model"))
    saved = ctx.findings
    ctx.findings = []  # no attribution while replaying the witness
    try:
        res = _run_single(ctx, case)
    finally:
        ctx.findings = saved
    return bool(res.violations)


def replay(ctx: Ctx, payload):
    first = payload.get("first") or {}
    case = first.get("case", {})
    print("replaying", json.dumps(case))
    if "kind" not in case:
        print("nothing to replay (no failing input recorded)")
        return 2
    for f in ctx.findings:
        f["_active"] = False
    for f in ctx.findings:
        if f.get("status", "open") == "open":
            f["_active"] = bool(witness_fails(ctx, f))
    res = _run_single(ctx, case)
    for v in res.violations:
        print(json.dumps(v, indent=1, default=str))
    for d in res.disagreements:
        print("disagreement:", json.dumps(d, indent=1, default=str))
    return 1 if (res.violations or res.disagreements) else 0
