"""C10 - compilation is pure: no dependence on, or damage to, earlier work.

Histories (sequences of public API operations over a pool of ~30 small programs with colliding
names) are executed on the REAL library, each in its own freshly forked child in which qlasskit
has not been imported before.  After every operation every live object is fingerprinted (name,
args/returns/expressions hash, gate list, qubit_map, input/output qubits, behaviour of original_f
on every input) together with the library's own state (rebound module globals of every qlasskit
module, mutable default arguments).

Oracle, independent of the code under test:
  * each object must at all times equal the object obtained by running only the operations it was
    built from (its dependency closure), alone, in a pristine interpreter  -> history independence
    and "arguments are not changed" at once;
  * the status / value of each operation must equal that of the same operation run alone;
  * original_f must behave like the source text executed by plain `exec` in a private namespace
    with its free names bound to the definitions that were passed (reference evaluator);
  * a program whose name is a library global must compile exactly when its renamed twin does;
  * no library global rebound / shadowed, no mutable default argument changed.
Correspondence: the Lean API state machine (QV.Model.Api) runs the same histories, with the quirks
of the open findings that are active, and must reproduce every status, every fingerprint and the
set of damaged library names exactly; with no quirks it must reproduce the ideal.
Attribution: a failing item is a known finding only if the quirk-model reproduces the step exactly
and switching that quirk off in the model changes that very item.

Re-binding (slice S6 + `random_rebind_history`): ONE unbound function (Parameter[...] arguments: bool,
Qint, Qlist / Tuple under sum any all len max min, a for loop, indexing; with and without defs=[...])
is bound several times with different values, other operations in between.  Each bind must give what
the same bind of a freshly made unbound function gives in a pristine interpreter, and the unbound
object must keep the parsed source and the definitions it was made with.
"""
from __future__ import annotations

import json
import os
import shutil
import subprocess
import sys
import tempfile

from . import c10_worker as W
from .common import Ctx, Result, REPO, VERIF

LEVEL = "proof"
QUIRKS = ["groverMutatesOracle", "oraclizeRenames", "execIntoModuleGlobals", "evalSeesLocals", "bindOrigWithoutDefs",
          "defShadowsAnnotation"]
POOL = W.POOL
NPROC = min(16, os.cpu_count() or 4)


def cj(x):
    return json.dumps(x, sort_keys=True, separators=(",", ":"))


# --------------------------------------------------------------------------- children


class Children:
    """Worker interpreters (`python -m harness.c10_worker --serve`), started fresh for this check
    run.  Before EVERY job a worker forgets all qlasskit modules and imports the library anew, so
    each history / baseline sees pristine module namespaces, default arguments and classes; only
    third-party modules (sympy, qiskit) stay loaded.  (Forking a parent per job was measured 25x
    slower here: copy-on-write faults.)"""

    def __init__(self):
        assert "qlasskit" not in sys.modules, "the C10 parent process must not import qlasskit"
        self.moddir = tempfile.mkdtemp(prefix="c10pool_")
        self.memo = {}
        self.njobs = 0
        self.procs = []

    def _start(self, n):
        env = dict(os.environ)
        env["PYTHONPATH"] = VERIF + os.pathsep + REPO
        env["QV_REPO"] = REPO
        while len(self.procs) < n:
            self.procs.append(subprocess.Popen([sys.executable, "-m", "harness.c10_worker", "--serve"], cwd=VERIF,
                                               stdin=subprocess.PIPE, stdout=subprocess.PIPE, text=True, env=env))

    def close(self):
        for p in self.procs:
            try:
                p.stdin.close()
                p.wait(timeout=10)
            except Exception:  # noqa
                p.kill()
        self.procs = []
        shutil.rmtree(self.moddir, ignore_errors=True)

    def run(self, jobs):
        """list of job dicts -> list of results (memoised by content)"""
        import threading

        keys, todo, seen = [], [], set()
        for j in jobs:
            j = dict(j)
            if j.get("job") == "history":
                j["moddir"] = self.moddir
            k = cj(j)
            keys.append(k)
            if k not in self.memo and k not in seen:
                seen.add(k)
                todo.append((k, j))
        if todo:
            self.njobs += len(todo)
            n = min(NPROC, max(1, len(todo) // 2))
            self._start(n)
            chunks = [todo[c::n] for c in range(n)]
            errs = []

            def work(proc, chunk):
                try:
                    proc.stdin.write(json.dumps([j for _, j in chunk]) + "\n")
                    proc.stdin.flush()
                    line = proc.stdout.readline()
                    if not line:
                        raise RuntimeError("worker died")
                    for (k, _), r in zip(chunk, json.loads(line)):
                        self.memo[k] = r
                except Exception as e:  # noqa
                    errs.append(e)

            ths = [threading.Thread(target=work, args=(self.procs[c], chunks[c])) for c in range(n)]
            [t.start() for t in ths]
            [t.join() for t in ths]
            if errs:
                raise RuntimeError(f"C10 worker failure: {errs[0]}")
        return [self.memo[k] for k in keys]

    def run_fresh_interpreter(self, job):
        """the same job in a new interpreter that does nothing else"""
        job = dict(job)
        job["moddir"] = self.moddir
        env = dict(os.environ)
        env["PYTHONPATH"] = VERIF + os.pathsep + REPO
        env["QV_REPO"] = REPO
        r = subprocess.run([sys.executable, "-m", "harness.c10_worker"], input=json.dumps(job), cwd=VERIF,
                           capture_output=True, text=True, env=env)
        return json.loads(r.stdout.strip().split("\n")[-1])


# --------------------------------------------------------------------------- histories


def op_refs(op):
    return W.op_refs(op)


def closure(ops, i):
    """indices of the operations object i was built from (itself included), in order"""
    need, todo = set(), [i]
    while todo:
        j = todo.pop()
        if j in need:
            continue
        need.add(j)
        todo.extend(op_refs(ops[j]))
    return sorted(need)


def renumber(ops, idx):
    m = {j: n for n, j in enumerate(idx)}
    out = []
    for j in idx:
        op = dict(ops[j])
        if op["k"] == "compile":
            op["defs"] = [m[r] for r in op["defs"]]
        elif "ref" in op:
            op["ref"] = m[op["ref"]]
        out.append(op)
    return out, m


def sub_history(ops, i):
    idx = closure(ops, i)
    sub, m = renumber(ops, idx)
    return sub, {v: k for k, v in m.items()}


def pristine_name(ops, j):
    op = ops[j]
    if op["k"] == "compile":
        return POOL[op["prog"]]["name"]
    if op["k"] in ("oraclize", "secret_oracle"):
        return "oracle"
    if op["k"] == "bind":
        return pristine_name(ops, op["ref"])
    return None


def ideal_tree(ops, j, infos):
    """original_f of object j as the source says: free names = the definitions passed"""
    op = ops[j]
    if op["k"] == "compile":
        p = POOL[op["prog"]]
        kids = []
        for c in p["callees"]:
            d = next((r for r in op["defs"] if pristine_name(ops, r) == c), None)
            kids.append(ideal_tree(ops, d, infos) if d is not None else {"missing": c})
        return {"src": ["pool", op["prog"]], "kids": kids}
    if op["k"] == "bind":
        src = ops[op["ref"]]
        if src["k"] != "compile":
            return None
        # free names of the bound source = the definitions the unbound function was built with
        kids = []
        for c in POOL[src["prog"]]["callees"]:
            d = next((r for r in src["defs"] if pristine_name(ops, r) == c), None)
            kids.append(ideal_tree(ops, d, infos) if d is not None else {"missing": c})
        return {"src": ["bound", src["prog"], cj(op["params"])], "kids": kids}
    if op["k"] in ("oraclize", "grover") and op.get("elem") is not None:
        r = op["ref"]
        n = pristine_name(ops, r)
        callee = "_oracle" if n == "oracle" else n
        kid = ideal_tree(ops, r, infos)
        if kid is None or n is None:  # the argument is not a function (the operation raises)
            return None
        return {"src": ["oraclize", callee, infos.get(r, {}).get("argT", ""), op["elem"]], "kids": [kid]}
    if op["k"] == "secret_oracle":
        return {"src": ["secret", op["n"], op["secret"]], "kids": []}
    return None


def is_qf_op(op):
    return op["k"] in ("compile", "bind", "oraclize", "secret_oracle")


# --------------------------------------------------------------------------- generators

CONSUMERS = ["grover", "grover_e", "oraclize", "dj", "simon", "bv", "export_qiskit", "export_qasm",
             "decompile", "truth_table", "repr", "qc_copy"]


def mk(kind, ref, rng=None):
    if kind == "grover":
        return dict(k="grover", ref=ref, iters=1 if rng is None else rng.choice([1, 1, 2]))
    if kind == "grover_e":
        return dict(k="grover", ref=ref, elem="2" if rng is None else rng.choice(["1", "2", "True"]), iters=1)
    if kind == "oraclize":
        return dict(k="oraclize", ref=ref, elem="2" if rng is None else rng.choice(["0", "2", "3", "True"]))
    return dict(k=kind, ref=ref)


def comp(i, defs=(), callable_=False):
    d = dict(k="compile", prog=i, defs=list(defs))
    if callable_:
        d["callable"] = True
    return d


def pidx(name, nth=0):
    return [i for i, p in enumerate(POOL) if p["name"] == name][nth]


QUICK_S2 = ["g", "oracle", "f", "b2", "x3", "copy", "len", "types"]


def systematic(thorough=True):
    H = []
    lvl0 = [i for i, p in enumerate(POOL) if p["level"] == 0 and not p["params"]]
    if not thorough:
        # quick tier: the consumer matrix over one program per name class (all programs in thorough)
        lvl0 = [i for i in lvl0 if POOL[i]["name"] in QUICK_S2]
    # S1 every program alone, as a string and as a callable
    for i, p in enumerate(POOL):
        if p["level"] == 0:
            H.append(("alone", [comp(i)]))
            H.append(("alone-callable", [comp(i, callable_=True)]))
    # S2 every consumer on every level-0 program, once and twice
    for i in lvl0:
        for c in CONSUMERS:
            H.append(("consumer-" + c, [comp(i), mk(c, 0), mk(c, 0), mk("dj", 0), mk("export_qasm", 0)]))
    # S3 a user function named like a library global, then every kind of operation
    g0, par, h0 = pidx("g"), pidx("par"), pidx("h")
    for name in W.LIB_COLLIDERS + W.LOCAL_COLLIDERS:
        if not any(p["name"] == name for p in POOL):
            continue
        c = pidx(name)
        H.append(("after-" + name, [comp(c), comp(g0), comp(par), comp(h0, [1]), dict(k="bind", ref=2, params={"p": True}),
                                    mk("oraclize", 1), mk("truth_table", 1), mk("repr", 1),
                                    dict(k="secret_oracle", n=2, secret=1), mk("grover_e", 1), mk("export_qiskit", 1),
                                    mk("dj", 1), comp(g0, callable_=True)]))
        H.append(("after-callable-" + name, [comp(c, callable_=True), comp(g0), comp(h0, [1]), mk("truth_table", 1)]))
    # S4 same name, different body, in every order around a caller
    ga, gb, gc = pidx("g", 0), pidx("g", 1), pidx("g", 2)
    hb, top, k = pidx("h", 1), pidx("top"), pidx("k")
    fq = pidx("f", 1)
    H += [
        ("recompile-callee", [comp(ga), comp(h0, [0]), comp(gb), comp(hb, [2]), comp(gc), comp(top, [1])]),
        ("recompile-callee", [comp(ga), comp(gb), comp(h0, [0]), comp(h0, [1]), comp(top, [2]), comp(top, [3])]),
        ("recompile-callee", [comp(gb), comp(ga), comp(h0, [1]), comp(ga, callable_=True), comp(h0, [3])]),
        ("recompile-callee", [comp(ga), comp(fq), comp(k, [0, 1]), comp(gb), comp(pidx("f", 0)), comp(k, [3, 1])]),
        ("callers-of-colliders", [comp(pidx("copy")), comp(pidx("c1"), [0])]),
        ("callers-of-colliders", [comp(pidx("copy"), callable_=True), comp(pidx("c1"), [0]), mk("grover_e", 0),
                                  mk("oraclize", 0), mk("repr", 2), mk("repr", 0)]),
        ("callers-of-colliders", [comp(pidx("flatten"), callable_=True), mk("oraclize", 0), mk("grover_e", 0), mk("truth_table", 0)]),
        ("callers-of-colliders", [comp(pidx("types")), comp(pidx("t1"), [0]), comp(pidx("types"), callable_=True), comp(pidx("t1"), [2])]),
        ("oracle-names", [comp(pidx("oracle", 0)), comp(pidx("o3"), [0]), mk("oraclize", 0), comp(pidx("o3"), [0]),
                          comp(pidx("o2"), [0]), mk("oraclize", 0), mk("grover_e", 0)]),
        ("oracle-names", [comp(pidx("_oracle")), comp(pidx("oracle", 0)), mk("oraclize", 1), comp(pidx("o2"), [0]),
                          comp(pidx("o2"), [1])]),
        ("oracle-names", [dict(k="secret_oracle", n=2, secret=2), mk("bv", 0), mk("oraclize", 0), mk("bv", 0),
                          dict(k="secret_oracle", n=2, secret=1), mk("bv", 4)]),
        ("oracle-names", [comp(pidx("oracle", 0)), comp(pidx("o3"), [0]), mk("oraclize", 1), mk("truth_table", 1),
                          mk("grover_e", 1)]),
        ("params", [comp(par), dict(k="bind", ref=0, params={"p": True}), dict(k="bind", ref=0, params={"p": False}),
                    mk("grover", 1), dict(k="bind", ref=0, params={"p": True}), comp(par, callable_=True),
                    dict(k="bind", ref=5, params={"p": True})]),
    ]
    # S5 algorithms sharing one black box, every ordered pair
    algs = ["grover", "grover_e", "dj", "simon", "bv", "oraclize"]
    for a in algs:
        for b in algs:
            H.append(("pair-%s-%s" % (a, b), [comp(pidx("oracle", 1)), mk(a, 0), mk(b, 0), mk("export_qiskit", 2), mk("decompile", 0)]))
    H += rebind_systematic(thorough)
    return H


def bind(ref, params):
    return dict(k="bind", ref=ref, params=dict(params))


def param_progs(with_defs=None):
    return [i for i, p in enumerate(POOL) if p["params"] and (with_defs is None or bool(p["callees"]) == with_defs)]


def rebind_systematic(thorough=True):
    """S6 the SAME unbound object bound several times with different values, other operations in
    between: every program with Parameter[...] arguments (lists / tuples under sum any all len max min,
    a for loop, indexing; scalar parameters), every unbound function built with defs=[...].  Each bind
    is compared (like every operation) with the same bind of a freshly made unbound function in a
    pristine interpreter, and the unbound object itself must stay what it was when it was made."""
    H = []
    cons = ["truth_table", "grover", "dj", "oraclize", "export_qasm", "repr", "simon", "decompile", "grover_e", "qc_copy"]
    # S6a no definitions: values v0 v1 (consumer of the first result) v0 v2 v1; the same program compiled
    # once more (from the callable) and both objects bound alternately
    for n, i in enumerate(param_progs(with_defs=False)):
        v = POOL[i]["pvals"]
        v2 = v[2 % len(v)]
        H.append(("rebind-" + POOL[i]["name"],
                  [comp(i), bind(0, v[0]), bind(0, v[1]), mk(cons[n % len(cons)], 1), bind(0, v[0]), bind(0, v2),
                   bind(0, v[1]), comp(i, callable_=True), bind(7, v[1]), bind(0, v2), bind(7, v[0])]))
        if thorough:
            # every ordered pair of values as the first two binds of a fresh object
            for a in range(len(v)):
                for b in range(len(v)):
                    if a != b and (a, b) != (0, 1):
                        H.append(("rebind-pair-" + POOL[i]["name"], [comp(i), bind(0, v[a]), bind(0, v[b]), bind(0, v[a])]))
    # S6b a bind that raises (wrong number of values, unknown name) leaves nothing behind
    ps = pidx("psum")
    vs = POOL[ps]["pvals"]
    H.append(("rebind-raises", [comp(ps), bind(0, {}), bind(0, vs[0]), bind(0, {"zz": [1, 0]}), bind(0, vs[1]),
                                bind(0, {"c": [1, 0], "d": 1}), bind(0, vs[0])]))
    # S6c unbound functions built with defs=[...]: every bind translates with the same definition objects
    ga, gb, gc, gp = pidx("g", 0), pidx("g", 1), pidx("g", 2), pidx("g", 3)
    fb, fq = pidx("f", 0), pidx("f", 1)
    h0, top = pidx("h", 0), pidx("top")
    pk, pq, pt = pidx("pk"), pidx("pq"), pidx("pt")
    kv, mv, tv, gv = (POOL[x]["pvals"] for x in (pk, pq, pt, gp))
    H += [
        ("rebind-defs", [comp(ga), comp(pk, [0]), bind(1, kv[0]), bind(1, kv[1]), mk("truth_table", 2), bind(1, kv[0]),
                         bind(1, kv[2]), mk("truth_table", 0), comp(h0, [0]), bind(1, kv[1])]),
        # the definition is used elsewhere (Grover, oraclize, another caller) between the binds
        ("rebind-defs", [comp(gb), comp(pk, [0]), bind(1, kv[1]), mk("grover", 0), bind(1, kv[0]), mk("oraclize", 0),
                         bind(1, kv[2]), comp(h0, [0]), bind(1, kv[1]), mk("dj", 2)]),
        # same program, two unbound objects over different definitions called g, bound alternately
        ("rebind-defs", [comp(ga), comp(gb), comp(pk, [0]), comp(pk, [1]), bind(2, kv[0]), bind(3, kv[0]), bind(2, kv[1]),
                         bind(3, kv[1]), bind(2, kv[0])]),
        # a definition whose type makes the bind raise, then one that does not
        ("rebind-defs", [comp(gc), comp(ga), comp(pk, [0]), comp(pk, [1]), bind(2, kv[0]), bind(3, kv[0]), bind(2, kv[1]),
                         bind(3, kv[1])]),
        # two definitions and a list parameter
        ("rebind-defs", [comp(ga), comp(fq), comp(pq, [0, 1]), bind(2, mv[0]), bind(2, mv[1]), mk("grover", 3), bind(2, mv[2]),
                         bind(2, mv[0]), comp(pidx("k"), [0, 1]), bind(2, mv[1])]),
        ("rebind-defs", [comp(gb), comp(fb), comp(fq), comp(pq, [0, 1]), comp(pq, [0, 2]), bind(3, mv[1]), bind(4, mv[1]),
                         bind(4, mv[2]), bind(4, mv[1])]),
        # a missing definition: every bind raises, the same way
        ("rebind-defs", [comp(ga), comp(pq, [0]), bind(1, mv[1]), bind(1, mv[2]), comp(pk), bind(4, kv[0]), bind(4, kv[1])]),
        # definitions two levels deep
        ("rebind-defs", [comp(ga), comp(h0, [0]), comp(pt, [1]), bind(2, tv[0]), bind(2, tv[1]), comp(top, [1]), bind(2, tv[0]),
                         mk("truth_table", 1)]),
        # a definition called like a type the annotations of the source mention, then a proper one
        ("rebind-defs", [comp(pidx("Qint")), comp(pk, [0]), comp(ga), comp(pk, [2]), bind(3, kv[0]), comp(pq, [0, 2]),
                         bind(3, kv[1])]),
        # a bound function as a definition: of a caller, and of another unbound function
        ("rebind-defs", [comp(gp), bind(0, gv[0]), comp(h0, [1]), bind(0, gv[1]), comp(h0, [3]), comp(pk, [1]), bind(5, kv[0]),
                         bind(5, kv[1]), bind(0, gv[0]), comp(pk, [3]), bind(9, kv[1]), bind(5, kv[1])]),
    ]
    return H


def random_rebind_history(rng, n):
    """random variant of S6: one or two unbound objects (with their definitions, if the program calls
    any), bound again and again with values drawn from the program's candidates, with consumers of the
    results, uses of the definitions and recompilations in between"""
    ops, unb, qfs = [], [], []

    def add_unbound():
        i = rng.choice(param_progs())
        defs = []
        for c in POOL[i]["callees"]:
            if c == "h":
                g = rng.choice([pidx("g", 0), pidx("g", 1)])
                ops.append(comp(g))
                ops.append(comp(pidx("h", rng.randrange(2)), [len(ops) - 1]))
                qfs.extend([len(ops) - 2, len(ops) - 1])
            else:
                cands = [j for j, p in enumerate(POOL) if p["name"] == c and not p["params"]]
                ops.append(comp(rng.choice(cands)))
                qfs.append(len(ops) - 1)
            defs.append(len(ops) - 1)
        ops.append(comp(i, defs, callable_=(not defs and rng.random() < 0.2)))
        unb.append(len(ops) - 1)

    add_unbound()
    while len(ops) < n:
        r = rng.random()
        if r < 0.55 or not qfs:
            u = rng.choice(unb)
            ops.append(bind(u, rng.choice(POOL[ops[u]["prog"]]["pvals"])))
            qfs.append(len(ops) - 1)
        elif r < 0.65 and len(unb) < 2:
            add_unbound()
        elif r < 0.75:
            # recompile something that shares a name with what is around
            j = rng.choice(qfs)
            nm = pristine_name(ops, j)
            cands = [i for i, p in enumerate(POOL) if p["name"] == nm and not p["params"] and p["level"] == 0]
            if cands:
                ops.append(comp(rng.choice(cands)))
                qfs.append(len(ops) - 1)
            else:
                ops.append(mk("truth_table", j))
        else:
            c = rng.choice(CONSUMERS)
            j = rng.choice(qfs)
            if c in ("oraclize", "grover_e") and pristine_name(ops, j) in DSL_BUILTINS:
                c = "simon"
            ops.append(mk(c, j, rng))
            if c == "oraclize":
                qfs.append(len(ops) - 1)
    return ops


# names the qlasskit DSL itself gives a meaning to: a CALL of a user function with such a name is
# translated as the builtin, so renaming it (the twin oracle) would change the program's meaning;
# the generator therefore never makes the library generate a call to them (oraclize / Grover(qf, x))
DSL_BUILTINS = {"len", "min", "max", "sum", "all", "any", "ord", "chr", "int", "float", "abs", "range", "print"}


def random_history(rng, n):
    ops = []
    kinds = []  # "qf" | "unb" | "alg" | None (read-only op slot)
    for _ in range(n):
        qfs = [j for j, k in enumerate(kinds) if k == "qf"]
        r = rng.random()
        if not qfs or r < 0.35:
            lvl = rng.choice([0, 0, 0, 1, 1, 2]) if qfs else 0
            cands = [i for i, p in enumerate(POOL) if p["level"] == lvl]
            i = rng.choice(cands)
            p = POOL[i]
            defs = []
            for c in p["callees"]:
                same = [j for j in qfs if pristine_name(ops, j) == c]
                if same and rng.random() < 0.9:
                    defs.append(rng.choice(same))
                elif qfs and rng.random() < 0.3:
                    defs.append(rng.choice(qfs))
            ops.append(comp(i, defs, callable_=(rng.random() < 0.15 and lvl == 0)))
            kinds.append("unb" if p["params"] else "qf")
        elif r < 0.40:
            unb = [j for j, k in enumerate(kinds) if k == "unb"]
            if unb:
                u = rng.choice(unb)
                ops.append(dict(k="bind", ref=u, params=dict(rng.choice(POOL[ops[u]["prog"]]["pvals"]))))
                kinds.append("qf")
            else:
                ops.append(dict(k="secret_oracle", n=rng.choice([2, 3]), secret=rng.randrange(4)))
                kinds.append("qf")
        else:
            c = rng.choice(CONSUMERS + ["grover", "grover_e", "oraclize", "dj"])
            live = [j for j, k in enumerate(kinds) if k in ("qf", "alg")]
            ref = rng.choice(qfs) if rng.random() < 0.9 else rng.choice(live)
            if c in ("oraclize", "grover_e") and pristine_name(ops, ref) in DSL_BUILTINS:
                c = "simon"
            ops.append(mk(c, ref, rng))
            kinds.append("qf" if c == "oraclize" else "alg" if c in ("grover", "grover_e", "dj", "simon", "bv") else None)
    return ops


# --------------------------------------------------------------------------- analysis


def strip_code_fp(fp):
    if fp is None:
        return None
    if fp["k"] == "qf":
        return {k: fp[k] for k in ("k", "name", "sig", "circ", "inq", "outq", "orig")}
    if fp["k"] == "unb":
        # what an unbound function keeps between binds: its parsed source and the definitions
        return {"k": "unb", "name": fp["name"], "tmpl": fp.get("tmpl"), "held": fp.get("held")}
    return {"k": "alg", "cls": fp["cls"], "circ": fp["circ"], "outq": fp["outq"], "sub": fp["sub"],
            "own": strip_code_fp(fp["own"])}


def info_of(fp):
    """Compiled record for the model's oracle table from a real fingerprint"""
    if fp is None or fp.get("k") != "qf" or fp.get("circ") is None:
        return None
    d = dict(fp["info"])
    d["circ"] = fp["circ"]
    return d


def def_key(name, sig):
    return "|" + name + "#" + sig


class Analysis:
    def __init__(self, ctx, ch: Children, active):
        self.ctx, self.ch, self.active = ctx, ch, list(active)
        self.libnames = None
        self.tree_memo = {}
        self.result_by_fp = {}

    # ---- phase 1: run the histories and all baselines
    def baselines(self, hists):
        """hists: list of op lists.  returns per history: real steps, per-op baseline"""
        real = self.ch.run([dict(job="history", ops=ops) for ops in hists])
        jobs, where = [], []
        for h, ops in enumerate(hists):
            for i in range(len(ops)):
                sub, back = sub_history(ops, i)
                jobs.append(dict(job="history", ops=sub))
                where.append((h, i, back))
        # the ideal: the closure alone in a pristine library, and with neutral (twin) names for the
        # functions whose names are library globals (names put back in the fingerprints afterwards)
        outs = [untwin_all(o) for o in self.ch.run([dict(j, twin_all=True) for j in jobs])]
        for out in outs:
            if "worker_error" in out:
                raise RuntimeError("baseline worker failed: " + out["worker_error"] + out.get("tb", ""))
        base = [[None] * len(ops) for ops in hists]
        for (h, i, back), out in zip(where, outs):
            base[h][i] = (out, back)
        return real, base

    def base_last(self, b):
        out, back = b
        if "worker_error" in out:
            raise RuntimeError("baseline worker failed: " + out["worker_error"] + out.get("tb", ""))
        st = out["steps"][-1]
        last = len(out["steps"]) - 1
        fp = st["fps"].get(str(last))
        if fp is not None and fp.get("k") == "alg" and fp.get("sub") is not None:
            fp = dict(fp)
            fp["sub"] = back[fp["sub"]]
        return st, fp

    # ---- phase 2: the table of the opaque compiler for the model
    def table_jobs(self, ops, real, base):
        """extra baseline jobs needed to fill the model's oracle table; returns (jobs, fill) where
        fill(results) -> list of [key, compiled|None]"""
        plans = []  # (key, job or None, extractor)
        cur = {}  # current real name/sig of every live QF while walking the real run
        fresh_info = {}
        for i, op in enumerate(ops):
            st, fp = self.base_last(base[i])
            fresh_info[i] = fp.get("info") if fp and fp.get("k") == "qf" else None
        for i, op in enumerate(ops):
            k = op["k"]
            variants = []  # list of {ref: name} the definitions are called (pristine, and as they really are now)
            refs = op_refs(op) if k in ("compile", "oraclize", "grover") else []
            pr = {r: (fresh_info[r] or {}).get("sig") and pristine_name(ops, r) for r in refs}
            now = {r: cur.get(r, {}).get("name") for r in refs}
            variants.append(pr)
            if now != pr:
                variants.append(now)
            # an earlier oraclize (quirk) may have renamed a definition in any prefix of the history
            alt = {r: ("_oracle" if pr[r] == "oracle" else pr[r]) for r in refs}
            if alt not in variants:
                variants.append(alt)
            for names in variants:
                if any(names[r] is None or fresh_info[r] is None for r in refs):
                    continue
                sigs = {r: fresh_info[r]["sig"] for r in refs}
                if k == "compile":
                    key = "P%d" % op["prog"] + "".join(def_key(names[r], sigs[r]) for r in op["defs"])
                    sub, back = sub_history(ops, i)
                    inv = {v: kk for kk, v in back.items()}
                    ren = {str(inv[r]): names[r] for r in refs if names[r] != pr[r]}
                    job = dict(job="history", ops=sub[:-1] + [dict(sub[-1], rename_defs=ren)] if ren else sub)
                    plans.append((key, job, "last", op))
                elif k in ("oraclize", "grover") and op.get("elem") is not None:
                    r = op["ref"]
                    callee = "_oracle" if names[r] == "oracle" else names[r]
                    key = "O" + callee + "|" + op["elem"] + def_key(callee, sigs[r])
                    sub, back = sub_history(ops, r)
                    o = dict(k="oraclize", ref=len(sub) - 1, elem=op["elem"])
                    if names[r] != pr[r]:
                        o["rename_ref"] = names[r]
                    plans.append((key, dict(job="history", ops=sub + [o]), "last", op))
            if k == "bind":
                src = ops[op["ref"]]
                if src["k"] == "compile" and all(fresh_info[r] is not None for r in src["defs"]):
                    # what a bind gives is a function of (program, values, definitions held)
                    sub, _ = sub_history(ops, i)
                    dk = "".join(def_key(pristine_name(ops, r), fresh_info[r]["sig"]) for r in src["defs"])
                    plans.append(("B%d|" % src["prog"] + cj(op["params"]) + dk, dict(job="history", ops=sub), "last", op))
            if k == "secret_oracle":
                plans.append(("S%d|%d" % (op["n"], op["secret"]), dict(job="history", ops=[op]), "last", op))
            # update the real names (for the next operations)
            for j, fpj in real["steps"][i]["fps"].items():
                if fpj is not None and fpj.get("k") == "qf":
                    cur[int(j)] = dict(name=fpj["name"], sig=fpj["sig"])
        return plans

    def fill_table(self, plans, outs, twin_outs):
        table = {}
        for (key, job, _, op), out in zip(plans, outs):
            if "worker_error" in out:
                raise RuntimeError("table worker failed: " + out["worker_error"] + out.get("tb", ""))
            st = out["steps"][-1]
            fp = st["fps"].get(str(len(out["steps"]) - 1))
            val = info_of(fp) if st["status"] == "ok" else None
            if val is None and key in twin_outs:
                val = twin_outs[key]
            if key not in table or table[key] is None:
                table[key] = val
        return [[k, v] for k, v in table.items()]


def has_twin(op):
    return op["k"] == "compile" and POOL[op["prog"]].get("twin")


def untwin_all(out):
    """a baseline that used twin names, with the original names put back (twin names are unique
    tokens; hashes are not affected because they do not contain function names)"""
    txt = json.dumps(out)
    for p in POOL:
        if p.get("twin"):
            txt = txt.replace(p["twin"], p["name"])
    return json.loads(txt)


def model_requests(ops, table, quirk_sets):
    mops = []
    for op in ops:
        o = dict(op)
        if o["k"] == "bind":
            o["pkey"] = cj(o.pop("params"))
        if o["k"] == "grover" and o.get("elem") is None:
            o.pop("elem", None)
        mops.append(o)
    return [dict(op="c10.run", quirks=list(q), pool=W.pool_for_model(), table=table, ops=mops) for q in quirk_sets]


def get_path(d, path):
    for p in path:
        if d is None:
            return None
        d = d.get(p) if isinstance(d, dict) else None
    return d


FIELDS = [("name",), ("sig",), ("circ", "name"), ("circ", "nq"), ("circ", "gates"), ("circ", "qmap"), ("inq",),
          ("outq",), ("orig",), ("k",), ("cls",), ("sub",), ("own",), ("tmpl",), ("held",)]


def diff_fields(a, b, ideal=False):
    """fields on which two fingerprints differ.  Against the ideal, the circuit of the private
    oracle a Grover object made for itself is not prescribed (it is nobody's argument)."""
    if a is None or b is None:
        return [] if a == b else ["exists"]
    out = []
    for f in FIELDS:
        x, y = get_path(a, f), get_path(b, f)
        if ideal and f == ("own",) and x and y:
            x, y = dict(x, circ=None, outq=None), dict(y, circ=None, outq=None)
        if x != y:
            out.append(".".join(f))
    return out


def run_batch(ctx, ch, res, hists, labels, active, findings_by_quirk, collect=None):
    """analyse a batch of histories completely; report into res.  `collect` (list) receives, per
    history, the list of violating items (used by witness_fails / replay)."""
    import time

    tm = [time.time()]
    an = Analysis(ctx, ch, active)
    real, base = an.baselines(hists)
    tm.append(time.time())
    if an.libnames is None:
        ln = ch.run([dict(job="libnames")])[0]
        an.libnames = set(ln["names"]) | set(ln["builtins"])
    # oracle tables
    all_plans, plan_jobs = [], []
    for h, ops in enumerate(hists):
        if "worker_error" in real[h]:
            raise RuntimeError("history worker failed: " + real[h]["worker_error"] + real[h].get("tb", ""))
        plans = an.table_jobs(ops, real[h], base[h])
        all_plans.append(plans)
        plan_jobs += [p[1] for p in plans]
    plan_outs = [untwin_all(o) for o in ch.run([dict(j, twin_all=True) for j in plan_jobs])]
    tm.append(time.time())
    # model runs
    qsets = [list(active), []] + [[x for x in active if x != q] for q in active] + [[q] for q in active]
    reqs, pos = [], []
    o = 0
    for h, ops in enumerate(hists):
        plans = all_plans[h]
        outs = plan_outs[o:o + len(plans)]
        o += len(plans)
        tw = {}
        for i, op in enumerate(ops):
            if has_twin(op):
                st, fp = an.base_last(base[h][i])
                if st["status"] == "ok" and fp:
                    tw["P%d" % op["prog"]] = info_of(fp)
        table = an.fill_table(plans, outs, tw)
        reqs += model_requests(ops, table, qsets)
        pos.append(table)
    replies = ctx.model(reqs)
    tm.append(time.time())
    # reference tables for every original_f tree that occurs (ideal + all model runs)
    trees = {}

    def note_tree(t):
        if t is not None:
            trees.setdefault(cj(t), t)

    def walk_model_fp(fp):
        if fp is None:
            return
        if fp.get("k") == "qf":
            note_tree(fp["orig"])
        if fp.get("k") == "alg" and fp.get("own"):
            note_tree(fp["own"]["orig"])

    ideal_trees = []
    for h, ops in enumerate(hists):
        infos = {}
        for i in range(len(ops)):
            st, fp = an.base_last(base[h][i])
            if fp and fp.get("k") == "qf":
                infos[i] = fp["info"]
        its = {}
        for i, op in enumerate(ops):
            if is_qf_op(op) or (op["k"] == "grover" and op.get("elem") is not None):
                t = ideal_tree(ops, i, infos)
                if t is not None:
                    its[i] = t
                    note_tree(t)
        ideal_trees.append(its)
    if replies is not None:
        for rep in replies:
            for st in rep.get("steps", []):
                for fp in st["fps"].values():
                    walk_model_fp(fp)
    keys = list(trees)
    tabs = ch.run([dict(job="trees", trees=[trees[k] for k in keys])])[0]
    if "worker_error" in tabs:
        raise RuntimeError("reference evaluator failed: " + tabs["worker_error"] + tabs.get("tb", ""))
    tree_table = dict(zip(keys, tabs["tables"]))

    def conv_model_fp(fp):
        if fp is None:
            return None
        fp = dict(fp)
        if fp["k"] == "qf":
            fp["orig"] = tree_table[cj(fp["orig"])]
        elif fp["k"] == "unb":
            fp = {"k": "unb", "name": POOL[fp["prog"]]["name"]}
        elif fp["k"] == "alg":
            if fp.get("own"):
                fp["own"] = conv_model_fp(fp["own"])
            if fp["own"] is not None:
                fp["sub"] = None
        return fp

    nq = len(qsets)
    for h, ops in enumerate(hists):
        items = analyse_one(ctx, res, an, ops, labels[h], real[h], base[h], ideal_trees[h], tree_table,
                            None if replies is None else replies[h * nq:(h + 1) * nq], qsets, conv_model_fp,
                            findings_by_quirk)
        if collect is not None:
            collect.append(items)
    tm.append(time.time())
    if len(hists) > 1:
        ctx.log("[C10] batch of %d histories: real+baselines %.1fs, table %.1fs, model (%d runs) %.1fs, reference+analysis %.1fs"
                % (len(hists), tm[1] - tm[0], tm[2] - tm[1], len(reqs), tm[3] - tm[2], tm[4] - tm[3]))


def analyse_one(ctx, res, an, ops, label, real, base, itrees, tree_table, reps, qsets, conv, fbq):
    """compare code / ideal / model step by step.  Returns the list of violating items."""
    case = dict(label=label, ops=ops)
    n_alive = 0
    cur_code, cur_models = {}, [dict() for _ in qsets]
    ideal_fp = {}
    violating = []
    reported = False
    for i, op in enumerate(ops):
        st = real["steps"][i]
        bst, bfp = an.base_last(base[i])
        # ---------------- the ideal for this operation
        ideal_status = bst["status"]
        e = strip_code_fp(bfp)
        if e is not None and e["k"] == "qf" and i in itrees:
            e["orig"] = tree_table[cj(itrees[i])]
        if e is not None and e["k"] == "alg" and e.get("own") and i in itrees:
            e["own"]["orig"] = tree_table[cj(itrees[i])]
        ideal_fp[i] = e
        # ---------------- the code
        for j, fp in st["fps"].items():
            cur_code[int(j)] = strip_code_fp(fp)
        damaged = sorted(x.split(":", 1)[1] for x in st["lib"]["rebound"] if x.startswith("qlasskit.qlassfun:")) + \
            sorted(x.split(":", 1)[1] for x in st["lib"]["added"]
                   if x.startswith("qlasskit.qlassfun:") and x.split(":", 1)[1] in an.libnames)
        other_lib = [x for x in st["lib"]["rebound"] if not x.startswith("qlasskit.qlassfun:")] + st["lib"]["defaults"]
        items = []  # (kind, slot/field, code, ideal)
        if st["status"] != ideal_status:
            items.append(("status", i, st["status"] + (": " + st["exc"] if st["exc"] else ""), ideal_status))
        for j in sorted(cur_code):
            if int(j) > i:
                continue
            for f in diff_fields(cur_code[j], ideal_fp.get(j), ideal=True):
                items.append(("fp", (j, f), get_path(cur_code[j], f.split(".")) if cur_code[j] else None,
                              get_path(ideal_fp[j], f.split(".")) if ideal_fp.get(j) else None))
        if damaged:
            items.append(("lib", tuple(damaged), damaged, []))
        if other_lib:
            items.append(("lib-other", tuple(other_lib), other_lib, []))
        if st["status"] == "ok" and ideal_status == "ok" and st["result"] != bst["result"]:
            items.append(("result", i, st["result"], bst["result"]))
        # functional dependence of read-only results on the argument's fingerprint
        if st["status"] == "ok" and st["result"] is not None and "ref" in op:
            kk = cj([op["k"], cur_code.get(op["ref"])])
            if kk in an.result_by_fp and an.result_by_fp[kk] != st["result"]:
                items.append(("result-not-a-function-of-argument", i, st["result"], an.result_by_fp[kk]))
            an.result_by_fp.setdefault(kk, st["result"])
        # ---------------- the model(s)
        model_ok = reps is not None
        m_items = []
        if reps is not None:
            for qi, rep in enumerate(reps):
                mst = rep["steps"][i]
                for j, fp in mst["fps"].items():
                    cur_models[qi][int(j)] = conv(fp)
                    if cur_models[qi][int(j)] is not None and cur_models[qi][int(j)]["k"] == "unb":
                        # the model carries program + definitions; their text is the freshly made object's
                        idl = ideal_fp.get(int(j)) or {}
                        cur_models[qi][int(j)].update(tmpl=idl.get("tmpl"), held=idl.get("held"))
            mst = reps[0]["steps"][i]
            m_damaged = sorted(x[0] for x in mst["ns"] if x[0] in an.libnames)
            if mst["result"] != st["status"]:
                model_ok = False
                m_items.append(("status", mst["result"], st["status"]))
            for j in sorted(cur_code):
                d = diff_fields(cur_code[j], cur_models[0].get(j))
                if d:
                    model_ok = False
                    m_items.append(("fp", j, d, {f: (get_path(cur_code[j], f.split(".")), get_path(cur_models[0].get(j), f.split("."))) for f in d[:3]}))
            if m_damaged != sorted(set(damaged)):
                model_ok = False
                m_items.append(("lib", m_damaged, damaged))
            if not mst.get("defaults_empty", True):
                model_ok = False
            # the repaired model must be the ideal
            m0 = reps[1]["steps"][i]
            if m0["result"] != ideal_status and not reported:
                res.disagree(case, f"step {i}: repaired model status {m0['result']} != ideal {ideal_status}", model=m0["result"], code=st["status"])
                reported = True
            for j in sorted(ideal_fp):
                d = diff_fields(ideal_fp[j], cur_models[1].get(j), ideal=True)
                if d and m0["result"] != "unknown" and not reported:
                    res.disagree(case, f"step {i}: repaired model differs from the fresh-interpreter ideal on slot {j} fields {d}",
                                 model={f: get_path(cur_models[1].get(j), f.split(".")) for f in d[:3]},
                                 expected={f: get_path(ideal_fp[j], f.split(".")) for f in d[:3]})
                    reported = True
            if m0["ns"] and not reported:
                res.disagree(case, f"step {i}: repaired model wrote the module namespace", model=m0["ns"])
                reported = True
        if reps is not None and not model_ok and not reported:
            res.disagree(case, f"step {i} ({op['k']}): model with quirks {qsets[0]} does not reproduce the code",
                         detail=m_items[:4])
            reported = True
        # ---------------- attribution
        new_items = [it for it in items if (it[0], it[1], cj(it[2])) not in [(v[0], v[1], cj(v[2])) for v in violating]]
        for it in new_items:
            violating.append(it)
        for it in new_items:
            resp = []
            if model_ok:
                na = len(qsets[0])

                def item_of(qi):
                    rep = reps[qi]
                    if it[0] == "status":
                        return rep["steps"][i]["result"]
                    if it[0] == "fp" and it[1][1] == "exists":
                        return cur_models[qi].get(it[1][0]) is None
                    if it[0] == "fp":
                        return get_path(cur_models[qi].get(it[1][0]), it[1][1].split("."))
                    if it[0] == "lib":
                        return sorted(x[0] for x in rep["steps"][i]["ns"] if x[0] in an.libnames)
                    if it[0] == "result":
                        # a read-only result computed from an argument that is already damaged
                        return cur_models[qi].get(op.get("ref"))
                    return None

                # quirks whose removal changes the item; if the item is over-determined (several
                # defects each suffice), quirks that produce a deviation from the repaired model alone
                resp = [qsets[0][n] for n in range(na) if item_of(2 + n) != item_of(0)]
                if not resp:
                    resp = [qsets[0][n] for n in range(na) if item_of(2 + na + n) != item_of(1)]
            fids = [fbq[q]["id"] for q in resp if q in fbq and fbq[q].get("_active")]
            if fids:
                for fid in fids:
                    res.known(fid)
            else:
                res.violation(dict(case, step=i, item=[it[0], it[1]]),
                              f"step {i} ({op['k']}): {it[0]} {it[1]} differs from the same operation run alone in a fresh interpreter"
                              + ("" if model_ok else " (and the model does not reproduce the step)"),
                              code=it[2], expected=it[3])
    return violating


# --------------------------------------------------------------------------- entry points


def findings_by_quirk(ctx):
    return {f["quirk"]: f for f in ctx.findings if f.get("quirk") and f.get("status", "open") == "open"}


def active_quirks(ctx):
    return [q for q in QUIRKS if any(f.get("quirk") == q and f.get("_active") for f in ctx.findings)]


def run(ctx: Ctx) -> Result:
    res = Result("C10")
    res.rule = ("case = one history (list of API operations over the pool); every operation of every history is "
                "compared with its dependency closure run alone in a fresh child (qlasskit not imported before); "
                "non-trivial = history with >= 2 operations of which >= 1 consumes an earlier object")
    ch = Children()
    try:
        active = active_quirks(ctx)
        fbq = findings_by_quirk(ctx)
        sysh = systematic(ctx.thorough)
        hists = [ops for _, ops in sysh]
        labels = [l for l, _ in sysh]
        n_rand = 500 if ctx.thorough else 80
        max_len = 25 if ctx.thorough else 8
        for k in range(n_rand):
            n = ctx.rng.randint(3, max_len)
            hists.append(random_history(ctx.rng, n))
            labels.append("random")
        for k in range(60 if ctx.thorough else 10):
            hists.append(random_rebind_history(ctx.rng, ctx.rng.randint(5, 14 if ctx.thorough else 9)))
            labels.append("random-rebind")
        for ops, lab in zip(hists, labels):
            res.count(dict(ops=ops), nontrivial=(len(ops) >= 2 and any(op_refs(o) for o in ops)), bucket=lab.split("-")[0])
            for o in ops:
                res.histogram["op:" + o["k"]] = res.histogram.get("op:" + o["k"], 0) + 1
        B = 150
        for s in range(0, len(hists), B):
            run_batch(ctx, ch, res, hists[s:s + B], labels[s:s + B], active, fbq)
        # a slice of baselines once more in completely fresh interpreters (no shared sympy state)
        n_slice = 40 if ctx.thorough else 6
        for k in range(n_slice):
            ops = hists[(k * 37) % len(hists)]
            i = len(ops) - 1
            sub, _ = sub_history(ops, i)
            a = json.loads(json.dumps(ch.run([dict(job="history", ops=sub)])[0]))
            b = ch.run_fresh_interpreter(dict(job="history", ops=sub))
            for x in (a, b):
                for st_ in x.get("steps", []):
                    st_["exc"] = None
            if cj(a.get("steps")) != cj(b.get("steps")):
                res.disagree(dict(ops=sub), "forked-child baseline differs from a completely fresh interpreter")
        res.extra["child_jobs"] = ch.njobs
        res.notes.append(f"{ch.njobs} distinct child processes (histories + baselines), each importing qlasskit anew")
        res.assumptions.append("C10: interpreter state outside the modelled heap (import caches, sympy's global cache) is covered only by the fresh-process comparison, as a test; baselines share third-party modules with the parent via fork (a slice is re-run in completely fresh interpreters)")
    finally:
        ch.close()
    return res


def witness_fails(ctx: Ctx, f):
    """does the witness history of a finding still show the recorded damage on the real code?"""
    w = f.get("witness") or {}
    ops = w.get("ops")
    if not ops:
        return None
    ch = Children()
    try:
        tmp = Result("C10")
        got = []
        run_batch(ctx, ch, tmp, [ops], ["witness"], [], {}, collect=got)
        want = w.get("item")
        for it in got[0]:
            key = [it[0], list(it[1]) if isinstance(it[1], tuple) else it[1]]
            if key == want:
                return True
        return False
    finally:
        ch.close()


def replay(ctx: Ctx, payload):
    first = payload.get("first") or {}
    case = first.get("case", {})
    ops = case.get("ops")
    if not ops:
        print("nothing to replay")
        return 2
    for f in ctx.findings:
        if f.get("status", "open") == "open":
            f["_active"] = bool(witness_fails(ctx, f))
    ch = Children()
    try:
        res = Result("C10")
        run_batch(ctx, ch, res, [ops], [case.get("label", "replay")], active_quirks(ctx), findings_by_quirk(ctx))
        print(json.dumps(dict(violations=res.violations[:3], disagreements=res.disagreements[:3], known=res.known_hits), indent=1, default=str))
        return 1 if (res.violations or res.disagreements) else 0
    finally:
        ch.close()
